// Harness for C07: hostile values through the real response helpers and parsers, raw bytes on an
// in-memory connection, replies parsed by a strict HTTP/1.1 parser written for this harness.
//
// Case kinds (field after the id), inputs | observation:
//
//	emit   cfg helper args(hexlist) ints(csv) | reply            response helper with hostile values
//	range  cfg hdr size | result                                 c.Range(size)
//	ips    cfg hdr verdicts | result                             c.IPs() / c.IP()   (cfg v = IP validation on)
//	subd   cfg hostHdr offset | host result                      c.Subdomains(offset)
//	fresh  cfg cacheControl noneMatch etag | cc nm result        c.Fresh()
//	host   cfg hostHdr | host hostname                           c.Hostname()
//	enc    cfg contentEncoding | seen class                      c.Body() (getSplicedStrList)
//	acc    cfg acceptCharset offers(hexlist) | result            c.AcceptsCharsets (forEachMediaRange)
//	offer  cfg spec offer | result                               c.Accepts (acceptsOfferType)
//	method cfg method | status                                   unknown methods → 501
//	srverr cfg class request(hex) | status                       serverErrorHandler mapping
//	wire   cfg request(hex) | reply alloc                        mutated raw requests, every accessor + helpers
//
// reply = "st|Name:hexvalue|…|body=hex" in wire order, or "unparsable:hexraw", "noreply", "panic:…".
package main

import (
	"bytes"
	"encoding/hex"
	"fmt"
	"io"
	"runtime"
	"sort"
	"strconv"
	"strings"
	"time"

	"github.com/gofiber/fiber/v3"
	"github.com/gofiber/fiber/v3/log"
	"github.com/gofiber/utils/v2"

	"verifharness/internal/gen"
)

var (
	apps = map[string]*fiber.App{}
	op   func(c fiber.Ctx) error
)

type customCtx struct{ fiber.DefaultCtx }

func setup() {
	mk := func(name string, cfg fiber.Config, custom bool) {
		a := fiber.New(cfg)
		if custom {
			a.NewCtxFunc(func(app *fiber.App) fiber.CustomCtx {
				return &customCtx{DefaultCtx: *fiber.NewDefaultCtx(app)}
			})
		}
		a.All("/*", func(c fiber.Ctx) error { return op(c) })
		_ = a.Handler()
		apps[name] = a
	}
	mk("d", fiber.Config{}, false)
	mk("v", fiber.Config{EnableIPValidation: true, ProxyHeader: "X-Forwarded-For"}, false)
	mk("i", fiber.Config{Immutable: true, UnescapePath: true}, false)
	mk("m", fiber.Config{RequestMethods: customMethods}, false)
	mk("s", fiber.Config{ReadBufferSize: 512, BodyLimit: 64}, false)
	mk("g", fiber.Config{GETOnly: true}, false)
	mk("c", fiber.Config{}, true)
	mk("p", fiber.Config{EnableSplittingOnParsers: true}, false)
	setupPdef()
}

var customMethods = []string{"GET", "BREW", "POST", "PROPFIND"}

// serve sends raw bytes over an in-memory connection; a panic escaping the server is the observation.
func serve(cfg string, raw []byte) (out []byte, panicked string) {
	a := apps[cfg]
	if cfg == "f" {
		// fresh server: no pooled RequestCtx / header buffers, so stored header values have the
		// capacity append gives them for their own length (see gen.go sizeClasses)
		a = fiber.New()
		a.All("/*", func(c fiber.Ctx) error { return op(c) })
		_ = a.Handler()
	}
	if a == nil {
		a = apps["d"]
	}
	c := newConn(raw)
	p := serveWatched(a, c)
	return c.w.Bytes(), p
}

// serveWatched runs one connection in its own goroutine under a watchdog: "neither crashes nor
// hangs" — a request that gets no reply within hangTimeout is the observation "hang" (the stuck
// goroutine cannot be stopped; after maxHangs of them the run stops generating, see main).
// A panic escaping the server is returned as text.
func serveWatched(a *fiber.App, c *memConn) string {
	done := make(chan string, 1)
	go func() {
		defer func() {
			if r := recover(); r != nil {
				done <- strings.ReplaceAll(strings.ReplaceAll(fmt.Sprint(r), "\t", " "), "\n", " ")
			}
		}()
		_ = a.Server().ServeConn(c)
		done <- ""
	}()
	select {
	case p := <-done:
		return p
	case <-time.After(hangTimeout):
		hangs++
		return "hang: no reply within " + hangTimeout.String()
	}
}

const (
	hangTimeout = 4 * time.Second
	maxHangs    = 3
)

var hangs int

func renderReply(raw []byte, panicked string) string {
	if panicked != "" {
		return "panic:" + hex.EncodeToString([]byte(panicked))
	}
	if len(raw) == 0 {
		return "noreply"
	}
	r, err := parseResp(raw)
	if err != nil {
		return "unparsable:" + hex.EncodeToString(raw)
	}
	parts := []string{strconv.Itoa(r.status)}
	for _, h := range r.headers {
		parts = append(parts, h[0]+":"+gen.Hex(h[1]))
	}
	parts = append(parts, "body="+gen.Hex(string(r.body)))
	return strings.Join(parts, "|")
}

func get(cfg string, headers ...string) []byte {
	var b bytes.Buffer
	b.WriteString("GET / HTTP/1.1\r\nHost: example.com\r\n")
	for i := 0; i+1 < len(headers); i += 2 {
		b.WriteString(headers[i] + ": " + headers[i+1] + "\r\n")
	}
	b.WriteString("\r\n")
	return b.Bytes()
}

// bodyOf runs one request whose handler reports through the body; "panic"/"status:n" otherwise
func bodyOf(cfg string, raw []byte) string {
	out, p := serve(cfg, raw)
	if p != "" {
		return "panic"
	}
	r, err := parseResp(out)
	if err != nil {
		return "unparsable"
	}
	if r.status != 200 {
		return "status:" + strconv.Itoa(r.status)
	}
	return string(r.body)
}

// ---- emit ----------------------------------------------------------------------------------------------

func atoiList(s string) []int {
	if s == "-" || s == "" {
		return nil
	}
	var out []int
	for _, x := range strings.Split(s, ",") {
		n, err := strconv.Atoi(x)
		if err != nil {
			panic("bad int list")
		}
		out = append(out, n)
	}
	return out
}

func emitOp(helper string, a []string, n []int) (func(c fiber.Ctx) error, bool) {
	arg := func(i int) string {
		if i < len(a) {
			return a[i]
		}
		return ""
	}
	num := func(i int) int {
		if i < len(n) {
			return n[i]
		}
		return 0
	}
	ok := func(c fiber.Ctx) error { return c.SendString("ok") }
	switch helper {
	case "set":
		return func(c fiber.Ctx) error { c.Set(arg(0), arg(1)); return ok(c) }, len(a) == 2
	case "append":
		return func(c fiber.Ctx) error { c.Append(arg(0), a[1:]...); return ok(c) }, len(a) >= 1
	case "vary":
		return func(c fiber.Ctx) error { c.Vary(a...); return ok(c) }, true
	case "location":
		return func(c fiber.Ctx) error { c.Location(arg(0)); return ok(c) }, len(a) == 1
	case "redirect":
		return func(c fiber.Ctx) error {
			r := c.Redirect()
			for i := 1; i+1 < len(a); i += 2 {
				r.With(a[i], a[i+1], uint8(num((i-1)/2)))
			}
			return r.To(arg(0))
		}, len(a) >= 1 && len(a)%2 == 1 && len(n) == (len(a)-1)/2
	case "cookie":
		return func(c fiber.Ctx) error {
			c.Cookie(&fiber.Cookie{Name: arg(0), Value: arg(1), Path: arg(2), Domain: arg(3), SameSite: arg(4),
				MaxAge: num(0), Secure: num(1) == 1, HTTPOnly: num(2) == 1, Partitioned: num(3) == 1, SessionOnly: num(4) == 1})
			return ok(c)
		}, len(a) == 5 && len(n) == 5
	case "clearcookie":
		return func(c fiber.Ctx) error { c.ClearCookie(a...); return ok(c) }, len(a) >= 1
	case "links":
		return func(c fiber.Ctx) error { c.Links(a...); return ok(c) }, true
	case "attachment":
		return func(c fiber.Ctx) error { c.Attachment(arg(0)); return ok(c) }, len(a) == 1
	case "type":
		return func(c fiber.Ctx) error { c.Type(arg(0), arg(1)); return ok(c) }, len(a) == 2
	case "format":
		return func(c fiber.Ctx) error {
			return c.Format(fiber.ResFmt{MediaType: arg(0), Handler: ok})
		}, len(a) == 1
	case "json":
		return func(c fiber.Ctx) error { return c.JSON("x", arg(0)) }, len(a) == 1
	case "jsonp":
		return func(c fiber.Ctx) error { return c.JSONP("x", arg(0)) }, len(a) == 1
	}
	return nil, false
}

func runEmit(cfg, helper, args, ints string) (string, bool) {
	f, ok := emitOp(helper, gen.UnHexList(args), atoiList(ints))
	if !ok {
		return "", false
	}
	op = f
	out, p := serve(cfg, get(cfg))
	return renderReply(out, p), true
}

// ---- parsers ----------------------------------------------------------------------------------------------

func hexJoin(xs []string) string { return gen.HexList(xs) }

func runRange(cfg, hdr string, size int) string {
	op = func(c fiber.Ctx) error {
		r, err := c.Range(size)
		if err != nil {
			if err == fiber.ErrRangeMalformed {
				return c.SendString("err:malformed|" + gen.Hex(c.Get("Range")))
			}
			return c.SendString("err:unsat|" + gen.Hex(c.Get("Range")))
		}
		var rs []string
		for _, x := range r.Ranges {
			rs = append(rs, fmt.Sprintf("%d-%d", x.Start, x.End))
		}
		return c.SendString("ok:" + gen.Hex(r.Type) + ":" + strings.Join(rs, ",") + "|" + gen.Hex(c.Get("Range")))
	}
	return bodyOf(cfg, get(cfg, "Range", hdr))
}

func runIPs(cfg, hdr string) string {
	op = func(c fiber.Ctx) error {
		return c.SendString("ips=" + hexJoin(c.IPs()) + ";ip=" + gen.Hex(c.IP()) + "|" + gen.Hex(c.Get("X-Forwarded-For")))
	}
	return bodyOf(cfg, get(cfg, "X-Forwarded-For", hdr))
}

func runSubd(cfg, host string, off int) string {
	op = func(c fiber.Ctx) error {
		return c.SendString(gen.Hex(c.Host()) + "|" + hexJoin(c.Subdomains(off)) + "|" + gen.Hex(c.Hostname()))
	}
	return bodyOf(cfg, []byte("GET / HTTP/1.1\r\nHost: "+host+"\r\n\r\n"))
}

func runFresh(cfg, cc, nm, etag string) string {
	op = func(c fiber.Ctx) error {
		if etag != "" {
			c.Set("ETag", etag)
		}
		return c.SendString(gen.Hex(c.Get("Cache-Control")) + "|" + gen.Hex(c.Get("If-None-Match")) + "|" +
			gen.Hex(string(c.Response().Header.Peek("ETag"))) + "|" + gen.B(c.Fresh()))
	}
	var hs []string
	if cc != "" {
		hs = append(hs, "Cache-Control", cc)
	}
	if nm != "" {
		hs = append(hs, "If-None-Match", nm)
	}
	return bodyOf(cfg, get(cfg, hs...))
}

func runEnc(cfg, ce string) string {
	const payload = "plain-body"
	op = func(c fiber.Ctx) error {
		b := string(c.Body())
		class := "other"
		switch b {
		case payload:
			class = "raw"
		case "":
			class = "empty"
		}
		return c.SendString(gen.Hex(string(c.Request().Header.ContentEncoding())) + "|" + class)
	}
	raw := "POST / HTTP/1.1\r\nHost: example.com\r\nContent-Encoding: " + ce + "\r\nContent-Length: " +
		strconv.Itoa(len(payload)) + "\r\n\r\n" + payload
	return bodyOf(cfg, []byte(raw))
}

func runAcc(cfg, hdr string, offers []string) string {
	op = func(c fiber.Ctx) error {
		return c.SendString(gen.Hex(c.Get("Accept-Charset")) + "|" + gen.Hex(c.AcceptsCharsets(offers...)))
	}
	return bodyOf(cfg, get(cfg, "Accept-Charset", hdr))
}

func runOffer(cfg, spec, offer string) string {
	op = func(c fiber.Ctx) error {
		return c.SendString(gen.Hex(c.Get("Accept")) + "|" + gen.B(c.Accepts(offer) != ""))
	}
	return bodyOf(cfg, get(cfg, "Accept", spec))
}

// IP verdict table: utils.IsIPv4 / IsIPv6 (public API of gofiber/utils) on every candidate segment
func ipVerdicts(hdr string) string {
	seen := map[string]bool{}
	var out []string
	add := func(s string) {
		if !seen[s] {
			seen[s] = true
			v := 0
			if utils.IsIPv4(s) {
				v |= 1
			}
			if utils.IsIPv6(s) {
				v |= 2
			}
			out = append(out, hx(s)+":"+strconv.Itoa(v))
		}
	}
	pieces := strings.Split(hdr, ",")
	for i, p := range pieces {
		add(strings.Trim(p, " "))
		if i == 0 && len(pieces) > 1 && p == "" {
			// the scan never looks at byte 0: a leading comma stays in the first segment
			add(strings.TrimRight(","+pieces[1], " "))
			add(strings.Trim(pieces[1], " "))
		}
	}
	if strings.HasPrefix(hdr, ",") {
		rest := hdr[1:]
		if i := strings.IndexByte(rest, ','); i >= 0 {
			rest = rest[:i]
		}
		add(strings.TrimRight(","+rest, " "))
	}
	sort.Strings(out)
	if len(out) == 0 {
		return "-"
	}
	return strings.Join(out, ",")
}

func hx(s string) string {
	if s == "" {
		return "_"
	}
	return hex.EncodeToString([]byte(s))
}

// ---- methods / server errors --------------------------------------------------------------------------------

func runMethod(cfg, method string) string {
	op = func(c fiber.Ctx) error { return c.SendString("ok") }
	out, p := serve(cfg, []byte(method+" / HTTP/1.1\r\nHost: example.com\r\n\r\n"))
	if p != "" {
		return "panic"
	}
	if len(out) == 0 {
		return "noreply"
	}
	r, err := parseRespHead(out, method == "HEAD")
	if err != nil {
		return "unparsable"
	}
	return strconv.Itoa(r.status)
}

func runSrvErr(cfg string, raw []byte) string {
	op = func(c fiber.Ctx) error { return c.SendString("ok") }
	out, p := serve(cfg, raw)
	if p != "" {
		return "panic"
	}
	if len(out) == 0 {
		return "noreply"
	}
	r, err := parseResp(out)
	if err != nil {
		return "unparsable"
	}
	return strconv.Itoa(r.status)
}

// ---- wire-level validation run -----------------------------------------------------------------------------------

func everything(c fiber.Ctx) error {
	_ = c.Accepts("html", "json", "text/plain")
	_ = c.AcceptsCharsets("utf-8", "iso-8859-1")
	_ = c.AcceptsEncodings("gzip", "br")
	_ = c.AcceptsLanguages("en", "de")
	_ = c.BaseURL()
	_ = c.Body()
	_ = c.BodyRaw()
	_ = c.Cookies("a")
	_ = c.FormValue("a")
	_ = c.Fresh()
	_ = c.Get("X")
	_ = c.GetReqHeaders()
	_ = c.Host()
	_ = c.Hostname()
	_ = c.IP()
	_ = c.IPs()
	_ = c.Is("json")
	_ = c.Method()
	_ = c.OriginalURL()
	_ = c.Params("*")
	_ = c.Path()
	_ = c.Protocol()
	_ = c.Queries()
	_ = c.Query("a")
	_, _ = c.Range(1000)
	_ = c.Scheme()
	_ = c.Secure()
	_ = c.Stale()
	_ = c.Subdomains()
	_ = c.XHR()
	_ = c.String()
	_, _ = c.MultipartForm()
	_, _ = c.FormFile("f")
	m := map[string]string{}
	_ = c.Bind().Query(&m)
	c.Set("X-Echo", c.Get("X-Echo"))
	c.Append("Vary", c.Get("X-Vary"), "Accept")
	c.Links(c.Get("X-Link"), "next")
	c.Cookie(&fiber.Cookie{Name: "n", Value: c.Get("X-Cookie"), Path: "/"})
	c.Location(c.Query("to"))
	c.Type("html", "utf-8")
	return c.Redirect().With("k", "v", 65).WithInput().To(c.Get("Referer", "/"))
}

func runWire(cfg string, raw []byte) (string, uint64) {
	op = everything
	var m1, m2 runtime.MemStats
	runtime.ReadMemStats(&m1)
	out, p := serve(cfg, raw)
	runtime.ReadMemStats(&m2)
	// several pipelined requests may have been answered: check every reply in turn
	if p != "" {
		return "panic:" + hex.EncodeToString([]byte(p)), m2.TotalAlloc - m1.TotalAlloc
	}
	if len(out) == 0 {
		return "noreply", m2.TotalAlloc - m1.TotalAlloc
	}
	var sts []string
	rest := out
	// the reply to a HEAD request carries Content-Length but no body
	head := bytes.HasPrefix(bytes.TrimLeft(raw, "\r\n"), []byte("HEAD ")) // fasthttp skips leading empty lines
	for len(rest) > 0 {
		r, n, err := parseRespPrefix2(rest, head)
		if err == nil && head && n != len(rest) {
			// an error reply (Connection: close) to a HEAD request the server could not parse carries a
			// body; the connection is closed after it, so a client is not confused by it
			if r2, n2, err2 := parseRespPrefix2(rest, false); err2 == nil && n2 == len(rest) && len(r2.get("Connection")) == 1 {
				r, n = r2, n2
			}
		}
		head = false
		if err != nil {
			return "unparsable:" + hex.EncodeToString(out), m2.TotalAlloc - m1.TotalAlloc
		}
		sts = append(sts, strconv.Itoa(r.status))
		rest = rest[n:]
	}
	return "ok:" + strings.Join(sts, ","), m2.TotalAlloc - m1.TotalAlloc
}

// ---- plumbing -------------------------------------------------------------------------------------------------------

func runCase(w *gen.Writer, id, kind string, in []string) {
	defer func() {
		if r := recover(); r != nil {
			// mangled replay line (bad hex / ints): skip it, never crash
			_ = r
		}
	}()
	need := func(n int) bool { return len(in) >= n }
	if runCase2(w, id, kind, in) {
		return
	}
	switch kind {
	case "emit":
		if !need(4) {
			return
		}
		if obs, ok := runEmit(in[0], in[1], in[2], in[3]); ok {
			w.Case(id, kind, in[0], in[1], in[2], in[3], obs)
		}
	case "range":
		if !need(3) {
			return
		}
		size, err := strconv.Atoi(in[2])
		if err != nil {
			return
		}
		w.Case(id, kind, in[0], in[1], in[2], runRange(in[0], gen.UnHex(in[1]), size))
	case "ips":
		if !need(2) {
			return
		}
		h := gen.UnHex(in[1])
		w.Case(id, kind, in[0], in[1], ipVerdicts(h), runIPs(in[0], h))
	case "subd":
		if !need(3) {
			return
		}
		off, err := strconv.Atoi(in[2])
		if err != nil || off < 0 {
			return
		}
		w.Case(id, kind, in[0], in[1], in[2], runSubd(in[0], gen.UnHex(in[1]), off))
	case "fresh":
		if !need(4) {
			return
		}
		w.Case(id, kind, in[0], in[1], in[2], in[3], runFresh(in[0], gen.UnHex(in[1]), gen.UnHex(in[2]), gen.UnHex(in[3])))
	case "enc":
		if !need(2) {
			return
		}
		w.Case(id, kind, in[0], in[1], runEnc(in[0], gen.UnHex(in[1])))
	case "acc":
		if !need(3) {
			return
		}
		w.Case(id, kind, in[0], in[1], in[2], runAcc(in[0], gen.UnHex(in[1]), gen.UnHexList(in[2])))
	case "offer":
		if !need(3) {
			return
		}
		w.Case(id, kind, in[0], in[1], in[2], runOffer(in[0], gen.UnHex(in[1]), gen.UnHex(in[2])))
	case "method":
		if !need(2) {
			return
		}
		w.Case(id, kind, in[0], in[1], runMethod(in[0], gen.UnHex(in[1])))
	case "srverr":
		if !need(3) {
			return
		}
		w.Case(id, kind, in[0], in[1], in[2], runSrvErr(in[0], []byte(gen.UnHex(in[2]))))
	case "wire":
		if !need(2) {
			return
		}
		obs, alloc := runWire(in[0], []byte(gen.UnHex(in[1])))
		w.Case(id, kind, in[0], in[1], obs, strconv.FormatUint(alloc, 10))
	}
}

func main() {
	log.SetOutput(io.Discard)
	o := gen.ParseFlags()
	w := gen.NewWriter(o.Out)
	defer w.Close()
	setup()
	for cfg := range apps { // warm pools
		op = func(c fiber.Ctx) error { return c.SendString("ok") }
		for i := 0; i < 4; i++ {
			serve(cfg, get(cfg))
		}
	}
	if o.Replay != "" {
		for _, f := range gen.ReplayInputs(o.Replay) {
			if len(f) < 2 {
				continue
			}
			runCase(w, f[0], f[1], f[2:])
		}
		return
	}
	root := gen.New(o.Seed)
	for i := 0; i < o.N; i++ {
		r := root.Fork(uint64(i))
		id := fmt.Sprintf("s%d.%d", o.Seed, i)
		if hangs >= maxHangs {
			w.Count("stopped-after-hangs")
			break
		}
		kind, in := genCase(r, w)
		w.Count("kind-" + kind)
		runCase(w, id, kind, in)
	}
}
