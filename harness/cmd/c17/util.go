package main

import (
	"encoding/json"
	"sort"
)

func mergeDist(into map[string]int, js string) {
	m := map[string]int{}
	if json.Unmarshal([]byte(js), &m) == nil {
		for k, v := range m {
			into[k] += v
		}
	}
}

func distJSON(m map[string]int) string {
	keys := make([]string, 0, len(m))
	for k := range m {
		keys = append(keys, k)
	}
	sort.Strings(keys)
	out := "{"
	for i, k := range keys {
		if i > 0 {
			out += ","
		}
		kb, _ := json.Marshal(k)
		vb, _ := json.Marshal(m[k])
		out += string(kb) + ":" + string(vb)
	}
	return out + "}"
}
