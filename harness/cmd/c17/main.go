// Harness for C17 (idempotency middleware). Built with `-tags "verif faketime"`: virtual clock,
// deterministic schedules. One case = one middleware instance + request threads + scheduler actions.
// The real middleware runs in-process with an injected fiber.Storage and an injected Locker that wraps
// the real idempotency.MemoryLock; both park the calling request at a turnstile before every call and
// can make the call fail. The downstream handler is a yield point too.
//
// Case line:  case id cfg threads actions  obs
//
//	cfg      st=X|M;life=<s>;keep=all|a|m|am;split=0|1;t0=<unix s at case start>
//	         st: X = injected storage + injected locker (yield points, faults), M = the built-in ones,
//	         F = as X plus the three yield points inside the real MemoryLock (verif hook in locker.go)
//	         keep: KeepResponseHeaders nil / [X-A] / [X-M, Set-Cookie] / [x-a, X-M, X-C, Set-Cookie] / e = empty
//	         non-nil list (configDefault turns it into nil = keep all)
//	         st=M with life=1800 and keep=all is idempotency.New() without any Config (ConfigDefault path)
//	         optional nx=1: custom Config.Next (steps aside for DELETE and OPTIONS only, so GET/HEAD/TRACE with a
//	         key go through the middleware); kh=1: custom Config.KeyHeader "Idem-Key" (every request then also
//	         carries a valid X-Idempotency-Key that must be ignored); kv=1: custom Config.KeyHeaderValidate
//	         (at least 36 characters: the 37-character key `?` is valid and a key of its own)
//	         keep c = [Content-Type], ac = [X-A, content-type]
//	threads  method:key:status:body:hdrs:err , ...
//	         method G|H|O|T (safe: GET, HEAD, OPTIONS, TRACE) | P|D|U|A (POST, DELETE, PUT, PATCH); key - (no header) | ! (too short) | ? (too long) | one letter
//	         body 0|1 (empty / "body<t>"); hdrs 0..4 (response header preset); err 1 = handler returns an error
//	actions  s<t> | r<t> | f<t> (release and make the pending Get/Lock/Set/Unlock call fail; a failing Unlock
//	         does not release the lock) | c<t> (release a pending Get and return bytes that do not unmarshal) | t<d> , ...
//	obs      <pos after action 1>,...|<result thread 0>,...
//	         pos: - unstarted, G/S parked at Storage.Get/Set, L/U parked at Locker.Lock/Unlock, H parked
//	              in the handler, B blocked inside MemoryLock, D done, P panicked; st=F only: a parked in
//	              MemoryLock.Lock between the block under l.mu (locked++) and lock.mu.Lock(), u parked in
//	              MemoryLock.Unlock before lock.mu.Unlock(), d parked behind it (before locked-- / delete)
//	         result = status:ran:class:bodyhex:hdrs   class = ok | E<where> ; hdrs = name=valuehex;... of the
//	              watched response headers in wire order
package main

import (
	"errors"
	"fmt"
	"io"
	"os"
	"os/exec"
	"runtime/debug"
	"sort"
	"strconv"
	"strings"
	"sync"
	"time"

	"github.com/gofiber/fiber/v3"
	"github.com/gofiber/fiber/v3/log"
	"github.com/gofiber/fiber/v3/middleware/idempotency"
	"github.com/gofiber/utils/v2"
	"github.com/valyala/fasthttp"

	"verifharness/internal/gen"
)

type cfgIn struct {
	st    string
	life  int
	keep  string
	split bool
	t0    uint32
	nx    bool // custom Next
	kh    bool // custom KeyHeader
	kv    bool // custom KeyHeaderValidate
}

type thrIn struct {
	method, key string
	status      int
	body, hdrs  int
	err         bool
}

func (c cfgIn) String() string {
	s := fmt.Sprintf("st=%s;life=%d;keep=%s;split=%s;t0=%d", c.st, c.life, c.keep, gen.B(c.split), c.t0)
	if c.nx || c.kh || c.kv {
		s += fmt.Sprintf(";nx=%s;kh=%s;kv=%s", gen.B(c.nx), gen.B(c.kh), gen.B(c.kv))
	}
	return s
}

func parseCfg(s string) (c cfgIn, ok bool) {
	kv := map[string]string{}
	for _, p := range strings.Split(s, ";") {
		i := strings.IndexByte(p, '=')
		if i < 0 {
			return c, false
		}
		kv[p[:i]] = p[i+1:]
	}
	for _, k := range []string{"st", "life", "keep", "split"} {
		if _, ok := kv[k]; !ok {
			return c, false
		}
	}
	c.st, c.keep, c.split = kv["st"], kv["keep"], kv["split"] == "1"
	for _, k := range []string{"nx", "kh", "kv"} {
		if v, ok := kv[k]; ok && v != "0" && v != "1" {
			return c, false
		}
	}
	c.nx, c.kh, c.kv = kv["nx"] == "1", kv["kh"] == "1", kv["kv"] == "1"
	var err error
	c.life, err = strconv.Atoi(kv["life"])
	if err != nil || c.life < 1 || c.life > 100000 || (c.st != "X" && c.st != "M" && c.st != "F") {
		return c, false
	}
	switch c.keep {
	case "all", "a", "m", "am", "e", "c", "ac":
	default:
		return c, false
	}
	return c, true
}

func threadsString(ts []thrIn) string {
	if len(ts) == 0 {
		return "-"
	}
	p := make([]string, len(ts))
	for i, t := range ts {
		p[i] = fmt.Sprintf("%s:%s:%d:%d:%d:%s", t.method, t.key, t.status, t.body, t.hdrs, gen.B(t.err))
	}
	return strings.Join(p, ",")
}

func parseThreads(s string) ([]thrIn, bool) {
	if s == "-" || s == "" {
		return nil, true
	}
	var out []thrIn
	for _, p := range strings.Split(s, ",") {
		f := strings.Split(p, ":")
		if len(f) != 6 || len(f[0]) != 1 || len(f[1]) != 1 || !strings.Contains("GHOTPDUA", f[0]) {
			return nil, false
		}
		st, e1 := strconv.Atoi(f[2])
		b, e2 := strconv.Atoi(f[3])
		h, e3 := strconv.Atoi(f[4])
		if e1 != nil || e2 != nil || e3 != nil || st < 200 || st > 599 || b < 0 || b > 1 || h < 0 || h > 6 {
			return nil, false
		}
		k := f[1]
		if !(k == "-" || k == "!" || k == "?" || (k[0] >= 'a' && k[0] <= 'z') || (k[0] >= 'A' && k[0] <= 'Z')) {
			return nil, false
		}
		out = append(out, thrIn{f[0], k, st, b, h, f[5] == "1"})
	}
	return out, true
}

var methods = map[string]string{"G": "GET", "H": "HEAD", "O": "OPTIONS", "T": "TRACE", "P": "POST", "D": "DELETE", "U": "PUT", "A": "PATCH"}

func keyValue(k string) string {
	switch k {
	case "-":
		return ""
	case "!":
		return "too-short"
	case "?":
		return "00000000-0000-0000-0000-000000000000x" // 37 characters
	}
	return "00000000-0000-0000-0000-00000000000" + k // 36 characters
}

var errInjected = errors.New("injected fault")

// ---- injected storage and locker -----------------------------------------------------------------

type ent struct {
	val []byte
	exp uint32
}

type store struct {
	s  *Sched
	mu sync.Mutex
	m  map[string]ent
}

func (st *store) Get(key string) ([]byte, error) {
	switch st.s.Park('G') {
	case 1:
		return nil, errInjected
	case 2:
		return []byte{0xc1}, nil // never a valid msgpack response
	}
	st.mu.Lock()
	defer st.mu.Unlock()
	e, ok := st.m[key]
	if !ok {
		return nil, nil
	}
	if e.exp != 0 && e.exp <= utils.Timestamp() {
		delete(st.m, key)
		return nil, nil
	}
	return append([]byte(nil), e.val...), nil
}

func (st *store) Set(key string, val []byte, ttl time.Duration) error {
	if st.s.Park('S') == 1 {
		return errInjected
	}
	st.mu.Lock()
	defer st.mu.Unlock()
	var exp uint32
	if ttl != 0 {
		exp = uint32(ttl.Seconds()) + utils.Timestamp()
	}
	st.m[key] = ent{append([]byte(nil), val...), exp}
	return nil
}

func (st *store) Delete(key string) error {
	st.mu.Lock()
	defer st.mu.Unlock()
	delete(st.m, key)
	return nil
}
func (*store) Reset() error { return nil }
func (*store) Close() error { return nil }

type locker struct {
	s    *Sched
	real *idempotency.MemoryLock
}

func (l *locker) Lock(key string) error {
	if l.s.Park('L') == 1 {
		return errInjected
	}
	return l.real.Lock(key)
}

func (l *locker) Unlock(key string) error {
	if l.s.Park('U') == 1 {
		return errInjected // failed without releasing
	}
	return l.real.Unlock(key)
}

// ---- running one case -----------------------------------------------------------------------------

type caseRun struct {
	id      string // case id and index (for the crash journal)
	idx     int
	cfg     cfgIn
	th      []thrIn
	s       *Sched
	h       fasthttp.RequestHandler
	res     []string
	actions []string
	pos     []string
}

var watched = []string{"X-A", "X-M", "X-C", "Set-Cookie", "Content-Type"}

func keepList(k string) []string {
	switch k {
	case "a":
		return []string{"X-A"}
	case "m":
		return []string{"X-M", "Set-Cookie"}
	case "am":
		return []string{"x-a", "X-M", "X-C", "Set-Cookie"}
	case "e":
		return []string{}
	case "c":
		return []string{"Content-Type"}
	case "ac":
		return []string{"X-A", "content-type"}
	}
	return nil
}

// setHeaders writes the response header preset of thread t.
func setHeaders(c fiber.Ctx, preset, t int) {
	v := strconv.Itoa(t)
	switch preset {
	case 1:
		c.Set("X-A", "v"+v)
	case 2:
		c.Response().Header.Add("X-M", "m1-"+v)
		c.Response().Header.Add("X-M", "m2-"+v)
	case 3:
		c.Set("X-C", "a"+v+",b, c")
		c.Set("X-A", "")
	case 4:
		c.Response().Header.Add("Set-Cookie", "s="+v+"; Path=/")
		c.Response().Header.Add("Set-Cookie", "u=1,2; Path=/")
		c.Set("X-A", "w"+v)
	case 5:
		c.Set("Content-Type", "application/x-custom")
		c.Set("X-A", "t"+v)
	case 6:
		c.Set("Content-Type", "application/json; charset=utf-8")
	}
}

func classify(status int, body string) string {
	switch {
	case strings.HasPrefix(body, "failed to write cached response at fastpath"):
		return "Eget1"
	case strings.HasPrefix(body, "failed to lock"):
		return "Elock"
	case strings.HasPrefix(body, "failed to write cached response while locked"):
		return "Eget2"
	case strings.HasPrefix(body, "failed to save response"):
		return "Eset"
	case strings.HasPrefix(body, "handler failed"):
		return "Ehandler"
	case strings.HasPrefix(body, "invalid idempotency key"):
		return "Ekey"
	case strings.HasPrefix(body, "failed to"):
		return "Eother"
	}
	return "ok"
}

func newCase(c cfgIn, th []thrIn) *caseRun {
	cr := &caseRun{cfg: c, th: th, s: NewSched(len(th)), res: make([]string, len(th))}
	cr.cfg.t0 = utils.Timestamp()
	ic := idempotency.Config{Lifetime: time.Duration(c.life) * time.Second, KeepResponseHeaders: keepList(c.keep)}
	idempotency.VerifYield = nil
	if c.st == "F" {
		idempotency.VerifYield = func(point byte, _ string) { cr.s.Park(point) }
	}
	if c.st == "X" || c.st == "F" {
		ic.Storage = &store{s: cr.s, m: map[string]ent{}}
		ic.Lock = &locker{s: cr.s, real: idempotency.NewMemoryLock()}
	}
	if c.nx {
		ic.Next = func(c fiber.Ctx) bool { return c.Method() == fiber.MethodDelete || c.Method() == fiber.MethodOptions }
	}
	if c.kh {
		ic.KeyHeader = "Idem-Key"
	}
	if c.kv {
		ic.KeyHeaderValidate = func(k string) error {
			if len(k) < 36 {
				return fmt.Errorf("%w: shorter than 36", idempotency.ErrInvalidIdempotencyKey)
			}
			return nil
		}
	}
	app := fiber.New(fiber.Config{EnableSplittingOnParsers: c.split})
	if c.st == "M" && c.life == 1800 && c.keep == "all" && !c.nx && !c.kh && !c.kv {
		app.Use(idempotency.New()) // ConfigDefault: 30 min, keep all
	} else {
		app.Use(idempotency.New(ic))
	}
	app.Use(func(c fiber.Ctx) error {
		t := cr.s.Tid()
		cr.s.Park('H')
		if t < 0 {
			return c.SendStatus(500)
		}
		cr.s.mu.Lock()
		cr.s.th[t].extra = true
		cr.s.mu.Unlock()
		in := cr.th[t]
		if in.err {
			return fiber.NewError(in.status, "handler failed")
		}
		setHeaders(c, in.hdrs, t)
		c.Status(in.status)
		if in.body == 1 {
			return c.SendString("body" + strconv.Itoa(t))
		}
		return nil
	})
	cr.h = app.Handler()
	return cr
}

func (cr *caseRun) body(t int) func() {
	return func() {
		var fctx fasthttp.RequestCtx
		var req fasthttp.Request
		req.Header.SetMethod(methods[cr.th[t].method])
		req.SetRequestURI("/")
		keyHeader := "X-Idempotency-Key"
		if cr.cfg.kh {
			keyHeader = "Idem-Key"
			req.Header.Set("X-Idempotency-Key", keyValue("z")) // not the configured header: must be ignored
		}
		if k := keyValue(cr.th[t].key); k != "" {
			req.Header.Set(keyHeader, k)
		}
		fctx.Init(&req, nil, nil)
		cr.h(&fctx)
		rh := &fctx.Response.Header
		cr.s.mu.Lock()
		ran := cr.s.th[t].extra != nil
		cr.s.mu.Unlock()
		body := string(fctx.Response.Body())
		cls := classify(fctx.Response.StatusCode(), body)
		type hv struct{ n, v string }
		var hs []hv
		rh.VisitAll(func(k, v []byte) {
			for _, w := range watched {
				if w == "Content-Type" && cls != "ok" {
					continue // an error answer is rendered by fiber's error handler (text/plain); its body is not compared either
				}
				if strings.EqualFold(string(k), w) {
					hs = append(hs, hv{w, string(v)})
				}
			}
		})
		// order between different names is not meaningful (recorded headers travel through a Go map)
		sort.SliceStable(hs, func(i, j int) bool { return hs[i].n < hs[j].n })
		hl := "-"
		if len(hs) > 0 {
			parts := make([]string, len(hs))
			for i, h := range hs {
				parts[i] = h.n + "=" + gen.Hex(h.v)
			}
			hl = strings.Join(parts, ";")
		}
		if cls != "ok" {
			body = ""
		}
		cr.res[t] = fmt.Sprintf("%d:%s:%s:%s:%s", fctx.Response.StatusCode(), gen.B(ran), cls, gen.Hex(body), hl)
	}
}

// journal writes what is known about the running case before an action is carried out. A mutated
// MemoryLock can die with a Go runtime fatal error ("sync: unlock of unlocked mutex") that no recover()
// catches: the parent process then turns the journal into a case line whose unfinished requests have
// the result "panic" (they were never answered) and goes on behind that case.
func (cr *caseRun) journal(next string) {
	if journalPath == "" {
		return
	}
	acts := append(append([]string(nil), cr.actions...), next)
	res := make([]string, len(cr.res))
	p := cr.s.Pos()
	for i := range res {
		res[i] = "panic"
		if p[i] == 'D' && cr.res[i] != "" {
			res[i] = cr.res[i]
		}
	}
	line := strings.Join([]string{strconv.Itoa(cr.idx), cr.id, cr.cfg.String(), threadsString(cr.th), strings.Join(acts, ","),
		strings.Join(cr.pos, ","), p, strings.Join(res, ",")}, "\t")
	if journalFile == nil {
		journalFile, _ = os.Create(journalPath)
	}
	if journalFile != nil {
		_, _ = journalFile.WriteAt([]byte(line+"\n"), 0) // one write; whatever follows the first newline is stale
	}
}

var (
	journalPath string
	journalFile *os.File
)

func (cr *caseRun) do(a string) bool {
	if len(a) < 2 {
		return false
	}
	cr.journal(a)
	n, err := strconv.Atoi(a[1:])
	if err != nil || n < 0 {
		return false
	}
	switch a[0] {
	case 's':
		if n >= len(cr.th) || cr.s.PosOf(n) != '-' {
			return false
		}
		cr.s.Start(n, cr.body(n))
	case 'r':
		if n >= len(cr.th) || !cr.s.Release(n, 0) {
			return false
		}
	case 'f':
		if n >= len(cr.th) {
			return false
		}
		if p := cr.s.PosOf(n); p != 'G' && p != 'S' && p != 'L' && p != 'U' {
			return false
		}
		cr.s.Release(n, 1)
	case 'c':
		if n >= len(cr.th) || cr.s.PosOf(n) != 'G' {
			return false
		}
		cr.s.Release(n, 2)
	case 't':
		if n > 100000 {
			return false
		}
		time.Sleep(time.Duration(n) * time.Second)
		cr.s.Settle()
	default:
		return false
	}
	cr.actions = append(cr.actions, a)
	cr.pos = append(cr.pos, cr.s.Pos())
	return true
}

func (cr *caseRun) drain() {
	for guard := 0; guard < 10000; guard++ {
		p := cr.s.Pos()
		act := ""
		for i := 0; i < len(p) && act == ""; i++ {
			if parked(p[i]) {
				act = "r" + strconv.Itoa(i)
			}
		}
		for i := 0; i < len(p) && act == ""; i++ {
			if p[i] == '-' {
				act = "s" + strconv.Itoa(i)
			}
		}
		if act == "" || !cr.do(act) {
			return
		}
	}
}

func (cr *caseRun) finish(w *gen.Writer, id string) {
	cr.drain()
	p := cr.s.Pos()
	for i := range cr.th {
		switch p[i] {
		case 'P':
			cr.res[i] = "panic"
		case 'D':
		default:
			cr.res[i] = "stuck"
		}
	}
	acts, poss, res := "-", "-", "-"
	if len(cr.actions) > 0 {
		acts, poss = strings.Join(cr.actions, ","), strings.Join(cr.pos, ",")
	}
	if len(cr.res) > 0 {
		res = strings.Join(cr.res, ",")
	}
	w.Case(id, cr.cfg.String(), threadsString(cr.th), acts, poss+"|"+res)
}

// ---- generation -----------------------------------------------------------------------------------

func genCfg(r *gen.Rand) cfgIn {
	c := cfgIn{st: "X", life: gen.Pick(r, []int{2, 3, 5, 10, 1800}), keep: gen.Pick(r, []string{"all", "all", "a", "m", "am", "am", "e", "c", "ac"})}
	switch r.Intn(12) {
	case 0, 1:
		c.st = "M"
	case 2, 3, 4, 5, 6:
		c.st = "F"
	}
	c.split = r.Chance(1, 4)
	if r.Chance(1, 4) {
		c.nx, c.kh, c.kv = r.Bool(), r.Bool(), r.Bool()
	}
	return c
}

func genThread(r *gen.Rand) thrIn {
	t := thrIn{method: "P", key: "a", status: gen.Pick(r, []int{200, 200, 201, 204, 404, 500}), body: r.Intn(2), hdrs: r.Intn(7)}
	switch r.Intn(12) {
	case 0:
		t.method = gen.Pick(r, []string{"G", "G", "H", "O", "T"})
	case 1, 2:
		t.method = gen.Pick(r, []string{"D", "U", "A"})
	}
	switch r.Intn(12) {
	case 0:
		t.key = "-"
	case 1:
		t.key = gen.Pick(r, []string{"!", "?"})
	case 2, 3:
		t.key = "b"
	case 4:
		t.key = "A" // differs from key a only in the case of one letter
	}
	t.err = r.Chance(1, 8)
	return t
}

func runGenerated(w *gen.Writer, id string, idx int, r *gen.Rand) {
	c := genCfg(r)
	n := 2 + r.Intn(5)
	var th []thrIn
	for i := 0; i < n; i++ {
		th = append(th, genThread(r))
	}
	cr := newCase(c, th)
	cr.id, cr.idx = id, idx
	w.Count("st=" + c.st)
	faultP := gen.Pick(r, []int{0, 0, 1, 3}) // out of 20 per release
	next := 0
	for step := 0; step < 400; step++ {
		p := cr.s.Pos()
		var pk []int
		live := 0
		for i := 0; i < len(p); i++ {
			if parked(p[i]) {
				pk = append(pk, i)
			}
			if p[i] != '-' && p[i] != 'D' && p[i] != 'P' {
				live++
			}
		}
		if len(pk) == 0 && next >= n {
			break
		}
		x := r.Intn(20)
		switch {
		case x < 2:
			cr.do("t" + strconv.Itoa(gen.Pick(r, []int{1, 1, c.life - 1, c.life - 1, c.life, c.life, c.life + 1})))
		case (x < 9 || len(pk) == 0) && next < n && live < 4:
			cr.do("s" + strconv.Itoa(next))
			next++
		case len(pk) > 0:
			t := gen.Pick(r, pk)
			pos := p[t]
			if (pos == 'G' || pos == 'L' || pos == 'S') && r.Intn(20) < faultP {
				if pos == 'G' && r.Chance(1, 3) {
					cr.do("c" + strconv.Itoa(t))
					w.Count("corrupt-G")
				} else {
					cr.do("f" + strconv.Itoa(t))
					w.Count("fault-" + string(pos))
				}
			} else if pos == 'U' && faultP > 0 && r.Intn(40) < faultP {
				cr.do("f" + strconv.Itoa(t))
				w.Count("fault-U")
			} else {
				cr.do("r" + strconv.Itoa(t))
			}
		default:
			if len(pk) == 0 {
				step = 400
			}
		}
	}
	cr.finish(w, id)
}

func runReplay(w *gen.Writer, f []string, idx int) {
	if len(f) < 4 {
		return
	}
	c, ok := parseCfg(f[1])
	th, ok2 := parseThreads(f[2])
	if !ok || !ok2 || len(th) > 64 {
		return
	}
	cr := newCase(c, th)
	cr.id, cr.idx = f[0], idx
	if f[3] != "-" {
		acts := strings.Split(f[3], ",")
		if len(acts) > 5000 {
			return
		}
		for _, a := range acts {
			cr.do(a)
		}
	}
	cr.finish(w, f[0])
}

const chunk = 100

func main() {
	log.SetOutput(io.Discard)
	debug.SetGCPercent(-1) // see c13: the background sweeper can live-lock under faketime
	o := gen.ParseFlags()
	child := os.Getenv("C17_CHILD")
	if child == "" {
		// every case runs in a child process: a fatal runtime error costs one case, not the run
		total := o.N
		if o.Replay != "" {
			total = len(gen.ReplayInputs(o.Replay))
		}
		parent(o, total)
		return
	}
	lo, hi := 0, 0
	fmt.Sscanf(child, "%d:%d", &lo, &hi)
	journalPath = o.Out + ".journal"
	utils.StartTimeStampUpdater()
	time.Sleep(500 * time.Millisecond)
	w := gen.NewWriter(o.Out)
	defer w.Close()
	if o.Replay != "" {
		for i, f := range gen.ReplayInputs(o.Replay) {
			if i >= lo && i < hi {
				runReplay(w, f, i)
			}
		}
		return
	}
	root := gen.New(o.Seed)
	for i := lo; i < hi; i++ {
		runGenerated(w, fmt.Sprintf("s%d.%d", o.Seed, i), i, root.Fork(uint64(i)))
	}
}

// crashLine turns the journal of a child that died into the case line of the case it died in.
func crashLine(journal string) (idx int, line string, ok bool) {
	if i := strings.IndexByte(journal, '\n'); i >= 0 {
		journal = journal[:i]
	}
	f := strings.Split(journal, "\t")
	if len(f) != 8 {
		return 0, "", false
	}
	idx, err := strconv.Atoi(f[0])
	if err != nil {
		return 0, "", false
	}
	// positions after the fatal action: whoever was under way is gone
	last := []byte(f[6])
	for i, c := range last {
		if c != '-' && c != 'D' {
			last[i] = 'P'
		}
	}
	poss := string(last)
	if f[5] != "" {
		poss = f[5] + "," + poss
	}
	return idx, strings.Join([]string{"case", f[1], f[2], f[3], f[4], poss + "|" + f[7]}, "\t"), true
}

var partSeq struct {
	sync.Mutex
	n int
}

// runRange runs the cases lo..hi-1 in a child process and returns its lines; when the child dies the
// cases before the fatal one are run again (the buffered output of the dead child is lost), the fatal
// case is reported from the journal, and the rest follows.
func runRange(o gen.Opts, lo, hi, budget int) ([]string, bool) {
	if lo >= hi {
		return nil, true
	}
	partSeq.Lock()
	partSeq.n++
	part := fmt.Sprintf("%s.part%d", o.Out, partSeq.n)
	partSeq.Unlock()
	args := []string{"-seed", strconv.FormatUint(o.Seed, 10), "-n", strconv.Itoa(o.N), "-tier", o.Tier, "-out", part}
	if o.Replay != "" {
		args = append(args, "-replay", o.Replay)
	}
	cmd := exec.Command(os.Args[0], args...)
	cmd.Env = append(os.Environ(), fmt.Sprintf("C17_CHILD=%d:%d", lo, hi))
	err := cmd.Run()
	data, _ := os.ReadFile(part)
	jr, jerr := os.ReadFile(part + ".journal")
	os.Remove(part)
	os.Remove(part + ".journal")
	if err == nil {
		return strings.Split(string(data), "\n"), true
	}
	idx, line, ok := crashLine(string(jr))
	if jerr != nil || !ok || idx < lo || idx >= hi || budget <= 0 {
		return nil, false
	}
	before, ok1 := runRange(o, lo, idx, budget-1)
	after, ok2 := runRange(o, idx+1, hi, budget-1)
	if !ok1 || !ok2 {
		return nil, false
	}
	return append(append(before, line, "dist\t{\"crashed\":1}"), after...), true
}

func parent(o gen.Opts, total int) {
	type job struct{ lo, hi int }
	var jobs []job
	for lo := 0; lo < total; lo += chunk {
		hi := lo + chunk
		if hi > total {
			hi = total
		}
		jobs = append(jobs, job{lo, hi})
	}
	outs := make([][]string, len(jobs))
	oks := make([]bool, len(jobs))
	sem := make(chan struct{}, 12)
	var wg sync.WaitGroup
	for i, j := range jobs {
		wg.Add(1)
		sem <- struct{}{}
		go func(i int, j job) {
			defer wg.Done()
			defer func() { <-sem }()
			outs[i], oks[i] = runRange(o, j.lo, j.hi, 40)
		}(i, j)
	}
	wg.Wait()
	out, err := os.Create(o.Out)
	if err != nil {
		os.Exit(2)
	}
	dist := map[string]int{}
	for i, lines := range outs {
		if !oks[i] {
			os.Exit(3)
		}
		for _, l := range lines {
			if strings.HasPrefix(l, "case\t") {
				out.WriteString(l + "\n")
			} else if strings.HasPrefix(l, "dist\t") {
				mergeDist(dist, l[5:])
			}
		}
	}
	out.WriteString("dist\t" + distJSON(dist) + "\n")
	out.Close()
}
