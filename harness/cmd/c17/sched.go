// Deterministic schedule control under `-tags faketime` (DESIGN.md §2): request goroutines park at
// yield points (injected storage calls, the downstream handler); the scheduler goroutine releases
// exactly one of them per action and then sleeps 1 ns of virtual time, which returns only once every
// other goroutine is blocked (parked at one of our turnstiles or waiting for one of fiber's mutexes).
package main

import (
	"bytes"
	"runtime"
	"strconv"
	"sync"
	"time"
)

type thread struct {
	pos   byte // '-' not started, 'B' running/blocked on a fiber mutex, 'D' done, 'P' panicked, else park label
	gate  chan int
	extra any
}

type Sched struct {
	mu   sync.Mutex
	th   []*thread
	gids map[int64]int
}

func NewSched(n int) *Sched {
	s := &Sched{gids: map[int64]int{}}
	for i := 0; i < n; i++ {
		s.th = append(s.th, &thread{pos: '-', gate: make(chan int)})
	}
	return s
}

func goid() int64 {
	var buf [64]byte
	b := buf[:runtime.Stack(buf[:], false)]
	b = bytes.TrimPrefix(b, []byte("goroutine "))
	if i := bytes.IndexByte(b, ' '); i > 0 {
		b = b[:i]
	}
	n, _ := strconv.ParseInt(string(b), 10, 64)
	return n
}

// Tid of the calling goroutine (-1 = not one of ours).
func (s *Sched) Tid() int {
	g := goid()
	s.mu.Lock()
	defer s.mu.Unlock()
	if t, ok := s.gids[g]; ok {
		return t
	}
	return -1
}

// Park blocks the calling request goroutine at a yield point until the scheduler releases it.
// Returns the argument of the release (used for fault injection).
func (s *Sched) Park(label byte) int {
	t := s.Tid()
	if t < 0 {
		return 0
	}
	s.mu.Lock()
	s.th[t].pos = label
	s.mu.Unlock()
	arg := <-s.th[t].gate
	return arg
}

// Start launches thread t running f; settles.
func (s *Sched) Start(t int, f func()) {
	s.mu.Lock()
	s.th[t].pos = 'B'
	s.mu.Unlock()
	ready := make(chan struct{})
	go func() {
		g := goid()
		s.mu.Lock()
		s.gids[g] = t
		s.mu.Unlock()
		<-ready
		defer func() {
			r := recover()
			s.mu.Lock()
			if r != nil {
				s.th[t].pos = 'P'
			} else {
				s.th[t].pos = 'D'
			}
			delete(s.gids, g)
			s.mu.Unlock()
		}()
		f()
	}()
	ready <- struct{}{}
	s.Settle()
}

// Release lets a parked thread continue (no-op if it is not parked); settles.
func (s *Sched) Release(t int, arg int) bool {
	s.mu.Lock()
	if t < 0 || t >= len(s.th) || !parked(s.th[t].pos) {
		s.mu.Unlock()
		return false
	}
	s.th[t].pos = 'B'
	s.mu.Unlock()
	s.th[t].gate <- arg
	s.Settle()
	return true
}

func parked(p byte) bool { return p != '-' && p != 'B' && p != 'D' && p != 'P' }

// Settle returns when every other goroutine is blocked (faketime quiescence).
func (s *Sched) Settle() { time.Sleep(1) }

func (s *Sched) Pos() string {
	s.mu.Lock()
	defer s.mu.Unlock()
	b := make([]byte, len(s.th))
	for i, t := range s.th {
		b[i] = t.pos
	}
	return string(b)
}

func (s *Sched) PosOf(t int) byte {
	s.mu.Lock()
	defer s.mu.Unlock()
	return s.th[t].pos
}
