package main

import (
	"fmt"
	"math"
	"reflect"
	"strconv"
	"strings"

	"verifharness/internal/gen"
)

// T is the struct every round trip uses: one field per supported scalar kind and slices of them.
// The client side reads the `param` (query), `form`, `cookie` and (through the harness' header adapter)
// `header` tags; the server side reads `query`, `form`, `header`, `cookie`. TS has a `query` tag that
// differs from all others on purpose: binder/mapping.go equalFieldType always consults the `query`
// tag, whatever the source. (Its client-side `param` tag equals the `query` tag: that pair is one source.)
type T struct {
	S    string    `param:"s" query:"s" form:"s" header:"X-S" cookie:"s" json:"s" xml:"s" cbor:"s"`
	I    int       `param:"i" query:"i" form:"i" header:"X-I" cookie:"i" json:"i" xml:"i" cbor:"i"`
	I8   int8      `param:"i8" query:"i8" form:"i8" header:"X-I8" cookie:"i8" json:"i8" xml:"i8" cbor:"i8"`
	I64  int64     `param:"i64" query:"i64" form:"i64" header:"X-I64" cookie:"i64" json:"i64" xml:"i64" cbor:"i64"`
	U    uint      `param:"u" query:"u" form:"u" header:"X-U" cookie:"u" json:"u" xml:"u" cbor:"u"`
	U16  uint16    `param:"u16" query:"u16" form:"u16" header:"X-U16" cookie:"u16" json:"u16" xml:"u16" cbor:"u16"`
	U64  uint64    `param:"u64" query:"u64" form:"u64" header:"X-U64" cookie:"u64" json:"u64" xml:"u64" cbor:"u64"`
	B    bool      `param:"b" query:"b" form:"b" header:"X-B" cookie:"b" json:"b" xml:"b" cbor:"b"`
	F32  float32   `param:"f32" query:"f32" form:"f32" header:"X-F32" cookie:"f32" json:"f32" xml:"f32" cbor:"f32"`
	F64  float64   `param:"f64" query:"f64" form:"f64" header:"X-F64" cookie:"f64" json:"f64" xml:"f64" cbor:"f64"`
	SS   []string  `param:"ss" query:"ss" form:"ss" header:"X-Ss" cookie:"ss" json:"ss" xml:"ss" cbor:"ss"`
	IS   []int     `param:"is" query:"is" form:"is" header:"X-Is" cookie:"is" json:"is" xml:"is" cbor:"is"`
	I64S []int64   `param:"i64s" query:"i64s" form:"i64s" header:"X-I64s" cookie:"i64s" json:"i64s" xml:"i64s" cbor:"i64s"`
	US   []uint    `param:"us" query:"us" form:"us" header:"X-Us" cookie:"us" json:"us" xml:"us" cbor:"us"`
	BS   []bool    `param:"bs" query:"bs" form:"bs" header:"X-Bs" cookie:"bs" json:"bs" xml:"bs" cbor:"bs"`
	FS   []float64 `param:"fs" query:"fs" form:"fs" header:"X-Fs" cookie:"fs" json:"fs" xml:"fs" cbor:"fs"`
	TS   []string  `param:"qt" query:"qt" form:"ts" header:"X-Ts" cookie:"ts" json:"ts" xml:"ts" cbor:"ts"`
	// the remaining integer widths, scalar and as slice elements, and float32 elements
	I16  int16     `param:"i16" query:"i16" form:"i16" header:"X-I16" cookie:"i16" json:"i16" xml:"i16" cbor:"i16"`
	I32  int32     `param:"i32" query:"i32" form:"i32" header:"X-I32" cookie:"i32" json:"i32" xml:"i32" cbor:"i32"`
	U8   uint8     `param:"u8" query:"u8" form:"u8" header:"X-U8" cookie:"u8" json:"u8" xml:"u8" cbor:"u8"`
	U32  uint32    `param:"u32" query:"u32" form:"u32" header:"X-U32" cookie:"u32" json:"u32" xml:"u32" cbor:"u32"`
	I8S  []int8    `param:"i8s" query:"i8s" form:"i8s" header:"X-I8s" cookie:"i8s" json:"i8s" xml:"i8s" cbor:"i8s"`
	U16S []uint16  `param:"u16s" query:"u16s" form:"u16s" header:"X-U16s" cookie:"u16s" json:"u16s" xml:"u16s" cbor:"u16s"`
	F32S []float32 `param:"f32s" query:"f32s" form:"f32s" header:"X-F32s" cookie:"f32s" json:"f32s" xml:"f32s" cbor:"f32s"`
	// NT has no `param`/`query` tag: the query source and equalFieldType fall back to the Go name "NT"
	// (compared case-insensitively with the key, so the form key "nt" is a slice key under splitting).
	// Its header tag is not in canonical spelling: fasthttp sends and delivers it as "X-Nt".
	NT []string `form:"nt" header:"x-nt" cookie:"nt" json:"nt" xml:"nt" cbor:"nt"`
	// N has no tags at all: every source uses the Go name.
	N string
	// named types over the supported kinds: SetValWithStruct and gofiber/schema both go by reflect.Kind
	MS  MyStr   `param:"ms" query:"ms" form:"ms" header:"X-Ms" cookie:"ms" json:"ms" xml:"ms" cbor:"ms"`
	MIS []MyI16 `param:"mis" query:"mis" form:"mis" header:"X-Mis" cookie:"mis" json:"mis" xml:"mis" cbor:"mis"`
	MF  MyF32   `param:"mf" query:"mf" form:"mf" header:"X-Mf" cookie:"mf" json:"mf" xml:"mf" cbor:"mf"`
}

type (
	MyStr string
	MyI16 int16
	MyF32 float32
)

const nFields = 29

// serverTag is the struct tag the server-side binder of each source reads.
func serverTag(source string) string {
	switch source {
	case "query":
		return "query"
	case "form", "multipart":
		return "form"
	case "header":
		return "header"
	case "cookie":
		return "cookie"
	}
	return source // json xml cbor
}

// clientTag is the struct tag SetValWithStruct is called with for each source.
func clientTag(source string) string {
	switch source {
	case "query":
		return "param"
	case "form", "multipart":
		return "form"
	case "header":
		return "header"
	case "cookie":
		return "cookie"
	}
	return source
}

func kindName(t reflect.Type) (string, int, bool) {
	sl := false
	if t.Kind() == reflect.Slice {
		sl = true
		t = t.Elem()
	}
	switch t.Kind() {
	case reflect.String:
		return "str", 0, sl
	case reflect.Bool:
		return "bool", 0, sl
	case reflect.Float32, reflect.Float64:
		return "float", t.Bits(), sl
	case reflect.Int, reflect.Int8, reflect.Int16, reflect.Int32, reflect.Int64:
		return "int", t.Bits(), sl
	case reflect.Uint, reflect.Uint8, reflect.Uint16, reflect.Uint32, reflect.Uint64:
		return "uint", t.Bits(), sl
	}
	panic("unsupported kind " + t.String())
}

// schemaFor derives, by reflection from T, what the Lean model needs to know about the struct for a
// source: per field  clientAlias:serverAlias:queryAlias:goName:kind:bits:slice  (hex names).
// queryAlias is what equalFieldType compares the key with (query tag, else the Go name).
func schemaFor(source string) string {
	rt := reflect.TypeOf(T{})
	var parts []string
	for i := 0; i < rt.NumField(); i++ {
		f := rt.Field(i)
		al := func(tag string) string {
			a := strings.Split(f.Tag.Get(tag), ",")[0]
			if a == "" {
				a = f.Name
			}
			return a
		}
		k, bits, sl := kindName(f.Type)
		parts = append(parts, fmt.Sprintf("%s:%s:%s:%s:%s:%d:%s", gen.Hex(al(clientTag(source))), gen.Hex(al(serverTag(source))),
			gen.Hex(al("query")), gen.Hex(f.Name), k, bits, gen.B(sl)))
	}
	return strings.Join(parts, "|")
}

// ---- canonical text of values ("field ↦ list of text values") ---------------------------------

func fmtFloat(f float64) string { return strconv.FormatFloat(f, 'f', -1, 64) }

// texts returns the text values of field i of v (one per element; scalars have exactly one).
// Strings are returned raw.
func texts(v *T, i int) []string {
	f := reflect.ValueOf(v).Elem().Field(i)
	one := func(x reflect.Value) string {
		switch x.Kind() {
		case reflect.String:
			return x.String()
		case reflect.Bool:
			return strconv.FormatBool(x.Bool())
		case reflect.Float32, reflect.Float64:
			return fmtFloat(x.Float())
		case reflect.Int, reflect.Int8, reflect.Int16, reflect.Int32, reflect.Int64:
			return strconv.FormatInt(x.Int(), 10)
		default:
			return strconv.FormatUint(x.Uint(), 10)
		}
	}
	if f.Kind() == reflect.Slice {
		out := make([]string, f.Len())
		for j := range out {
			out[j] = one(f.Index(j))
		}
		return out
	}
	return []string{one(f)}
}

// encodeStruct renders a struct value as protocol fields (one per struct field, hex lists).
func encodeStruct(v *T) []string {
	out := make([]string, nFields)
	for i := range out {
		out[i] = gen.HexList(texts(v, i))
	}
	return out
}

// canon renders a decoded struct as ONE observation field: fields separated by '/', each a hex list.
func canon(v *T) string {
	return strings.Join(encodeStruct(v), "/")
}

var errDomain = fmt.Errorf("outside-domain")

// decodeStruct rebuilds a struct value from protocol fields (replay). Values that do not fit the
// field's type make the case unusable (errDomain).
func decodeStruct(fs []string) (v *T, err error) {
	defer func() {
		if r := recover(); r != nil {
			v, err = nil, errDomain
		}
	}()
	if len(fs) != nFields {
		return nil, errDomain
	}
	v = &T{}
	rv := reflect.ValueOf(v).Elem()
	for i := 0; i < nFields; i++ {
		f := rv.Field(i)
		vals := gen.UnHexList(fs[i])
		set := func(x reflect.Value, s string) error {
			switch x.Kind() {
			case reflect.String:
				x.SetString(s)
			case reflect.Bool:
				b, e := strconv.ParseBool(s)
				if e != nil || (s != "true" && s != "false") {
					return errDomain
				}
				x.SetBool(b)
			case reflect.Float32, reflect.Float64:
				fl, e := strconv.ParseFloat(s, x.Type().Bits())
				if e != nil && !math.IsInf(fl, 0) {
					return errDomain
				}
				x.SetFloat(fl)
				if fmtFloat(x.Float()) != s {
					return errDomain
				}
			case reflect.Int, reflect.Int8, reflect.Int16, reflect.Int32, reflect.Int64:
				n, e := strconv.ParseInt(s, 10, x.Type().Bits())
				if e != nil || strconv.FormatInt(n, 10) != s {
					return errDomain
				}
				x.SetInt(n)
			default:
				n, e := strconv.ParseUint(s, 10, x.Type().Bits())
				if e != nil || strconv.FormatUint(n, 10) != s {
					return errDomain
				}
				x.SetUint(n)
			}
			return nil
		}
		if f.Kind() == reflect.Slice {
			if len(vals) == 0 {
				continue
			}
			sl := reflect.MakeSlice(f.Type(), len(vals), len(vals))
			for j, s := range vals {
				if e := set(sl.Index(j), s); e != nil {
					return nil, e
				}
			}
			f.Set(sl)
		} else {
			if len(vals) != 1 {
				return nil, errDomain
			}
			if e := set(f, vals[0]); e != nil {
				return nil, e
			}
		}
	}
	return v, nil
}
