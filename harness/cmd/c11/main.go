// Harness for C11: the bundled client sends a struct over each source to a real fiber server
// (in-memory listener, no sockets) whose handler binds from the same source; plus a raw stream that
// feeds arbitrary bytes to the binders (totality, content-type dispatch, key normalisation).
package main

import (
	"fmt"
	"io"
	"sort"
	"strings"
	"time"

	"github.com/gofiber/fiber/v3/binder"
	"github.com/gofiber/fiber/v3/client"
	"github.com/gofiber/fiber/v3/log"
	"github.com/valyala/fasthttp"

	"verifharness/internal/gen"
)

// hdrAdapter lets SetValWithStruct drive Request.AddHeader (client.WithStruct).
type hdrAdapter struct{ r *client.Request }

func (h hdrAdapter) Add(name, val string) { h.r.AddHeader(name, val) }
func (h hdrAdapter) Del(name string)      {}

func isSource(s string) bool {
	for _, x := range sources {
		if x == s {
			return true
		}
	}
	return false
}

// roundTrip sends v with the real client and returns the observation.
func roundTrip(source string, split, auto bool, v *T) string {
	e := envs[b2i(split)]
	resetCur(source, auto, "struct")
	req := client.AcquireRequest().SetClient(e.client).SetTimeout(3 * time.Second)
	method := "POST"
	switch source {
	case "query":
		req.SetParamsWithStruct(v)
		method = "GET"
	case "form":
		req.SetFormDataWithStruct(v)
	case "multipart":
		req.SetFormDataWithStruct(v)
		req.AddFileWithReader("f.txt", io.NopCloser(strings.NewReader("file-content")))
	case "header":
		client.SetValWithStruct(hdrAdapter{req}, "header", v)
		method = "GET"
	case "cookie":
		req.SetCookiesWithStruct(v)
		method = "GET"
	case "json":
		req.SetJSON(v)
	case "xml":
		req.SetXML(v)
	case "cbor":
		req.SetCBOR(v)
	}
	resp, err := req.Custom("http://example.com/bind", method)
	if err != nil {
		client.ReleaseRequest(req)
		return obsString(0, err.Error())
	}
	st := resp.StatusCode()
	resp.Close()
	return obsString(st, "")
}

func b2i(b bool) int {
	if b {
		return 1
	}
	return 0
}

// rawBind feeds raw bytes to the binder of a source through the real app handler.
// source: query (payload = raw query string), cookie (payload = raw Cookie header value),
// header (payload = hex list of "Name: value"), body (ctype + payload = body bytes).
func rawBind(source string, split, auto bool, target, ctype, payload string, hdrs []string) string {
	e := envs[b2i(split)]
	resetCur(source, auto, target)
	if source == "body" {
		cur.source = "bodyraw"
	}
	var fctx fasthttp.RequestCtx
	var req fasthttp.Request
	req.Header.SetMethod("POST")
	req.Header.SetHost("example.com")
	uri := "/bind"
	switch source {
	case "query":
		uri += "?" + payload
	case "cookie":
		req.Header.Set("Cookie", payload)
	case "header":
		for _, h := range hdrs {
			k, v, _ := strings.Cut(h, ": ")
			req.Header.Add(k, v)
		}
	case "body":
		if ctype != "" {
			req.Header.SetContentType(ctype)
		}
		req.SetBody([]byte(payload))
	}
	req.SetRequestURI(uri)
	fctx.Init(&req, nil, nil)
	func() {
		defer func() {
			if r := recover(); r != nil {
				cur.ran, cur.panicked = true, fmt.Sprint(r)
			}
		}()
		e.h(&fctx)
	}()
	return obsString(fctx.Response.StatusCode(), "")
}

func emitRT(w *gen.Writer, id, source string, split, auto bool, v *T) {
	obs := roundTrip(source, split, auto, v)
	f := []string{"rt", source, gen.B(split), gen.B(auto), schemaFor(source)}
	f = append(f, encodeStruct(v)...)
	f = append(f, obs)
	w.Case(id, f...)
	w.Count("rt-" + source)
}

// mpInfo is a parameter of the model, recomputed on every run and replay: what fasthttp's multipart
// reader (mime/multipart underneath; neither is the code under test) finds in the body, read from a
// second, untouched request. "-" = the form binder does not take its multipart branch;
// "err" = Request.MultipartForm fails; otherwise "ok:" + sorted `hex(name)=hexlist(values)` entries
// and `f:hex(name)` for file parts, joined by '/'.
func mpInfo(source, ctype, payload string) string {
	if source != "body" || binder.FilterFlags(ctype) != binder.MIMEMultipartForm {
		return "-"
	}
	var req fasthttp.Request
	req.Header.SetMethod("POST")
	req.Header.SetContentType(ctype)
	req.SetBody([]byte(payload))
	f, err := req.MultipartForm()
	if err != nil {
		return "err"
	}
	defer req.RemoveMultipartFormFiles()
	var parts []string
	for k, vs := range f.Value {
		parts = append(parts, gen.Hex(k)+"="+gen.HexList(vs))
	}
	for k := range f.File {
		parts = append(parts, "f:"+gen.Hex(k))
	}
	sort.Strings(parts)
	return "ok:" + strings.Join(parts, "/")
}

func emitRaw(w *gen.Writer, id, source string, split, auto bool, target, ctype, payload string, hdrs []string) {
	obs := rawBind(source, split, auto, target, ctype, payload, hdrs)
	sch := "query"
	switch source {
	case "header", "cookie":
		sch = source
	case "body":
		sch = "form"
	}
	w.Case(id, "raw", source, gen.B(split), gen.B(auto), target, schemaFor(sch), gen.Hex(ctype), gen.Hex(payload), gen.HexList(hdrs),
		mpInfo(source, ctype, payload), obs)
	w.Count("raw-" + source)
}

func replay(w *gen.Writer, f []string) {
	defer func() {
		if r := recover(); r != nil {
			w.Count("replay-skipped")
		}
	}()
	if len(f) < 3 {
		return
	}
	id, kind := f[0], f[1]
	switch kind {
	case "rt":
		if len(f) < 6+nFields || !isSource(f[2]) {
			w.Count("replay-skipped")
			return
		}
		v, err := decodeStruct(f[6 : 6+nFields])
		if err != nil {
			w.Count("replay-skipped")
			return
		}
		emitRT(w, id, f[2], f[3] == "1", f[4] == "1", v)
	case "raw":
		if len(f) < 10 {
			w.Count("replay-skipped")
			return
		}
		src := f[2]
		if src != "query" && src != "cookie" && src != "header" && src != "body" {
			w.Count("replay-skipped")
			return
		}
		if f[5] != "struct" && f[5] != "map" {
			w.Count("replay-skipped")
			return
		}
		emitRaw(w, id, src, f[3] == "1", f[4] == "1", f[5], gen.UnHex(f[7]), gen.UnHex(f[8]), gen.UnHexList(f[9]))
	default:
		w.Count("replay-skipped")
	}
}

func main() {
	log.SetOutput(io.Discard)
	o := gen.ParseFlags()
	w := gen.NewWriter(o.Out)
	defer w.Close()
	envs[0], envs[1] = newEnv(false), newEnv(true)
	if o.Replay != "" {
		for _, f := range gen.ReplayInputs(o.Replay) {
			replay(w, f)
		}
		return
	}
	root := gen.New(o.Seed)
	for i := 0; i < o.N; i++ {
		r := root.Fork(uint64(i))
		id := fmt.Sprintf("s%d.%d", o.Seed, i)
		split, auto := r.Bool(), r.Bool()
		if r.Chance(3, 5) {
			source := sources[i%len(sources)]
			wild := r.Chance(1, 16)
			v := genValue(r, source, wild)
			if !wild || r.Chance(1, 2) {
				fixValue(v, source)
			} else if source == "header" || source == "cookie" {
				noCRLF(v) // CR/LF in a header value only breaks HTTP framing (request never reaches the binder)
			}
			emitRT(w, id, source, split, auto, v)
		} else {
			genRaw(w, r, id, split, auto)
		}
	}
}

func noCRLF(v *T) {
	f := func(s string) string { return strings.NewReplacer("\r", ".", "\n", ".").Replace(s) }
	v.S = f(v.S)
	for i := range v.SS {
		v.SS[i] = f(v.SS[i])
	}
	for i := range v.TS {
		v.TS[i] = f(v.TS[i])
	}
	for i := range v.NT {
		v.NT[i] = f(v.NT[i])
	}
	v.N = f(v.N)
	v.MS = MyStr(f(string(v.MS)))
}
