package main

import (
	"errors"
	"fmt"
	"net"
	"sort"
	"strings"

	"github.com/gofiber/fiber/v3"
	"github.com/gofiber/fiber/v3/client"
	"github.com/valyala/fasthttp"
	"github.com/valyala/fasthttp/fasthttputil"

	"verifharness/internal/gen"
)

// cur describes the case the (single) in-flight request belongs to; the handler reads it and
// writes what it observed. The harness is single-threaded: one request at a time.
var cur struct {
	source string
	auto   bool
	target string // "struct" | "map"
	// written by the handler
	ran      bool
	wire     string
	dec      string
	err      bool
	errCode  int
	panicked string
	codec    string // which body decoder fiber selected (recorded by the instrumented decoders)
}

// sent records what the client wrote on the connection for the current case.
var sent strings.Builder

type teeConn struct{ net.Conn }

func (c teeConn) Write(p []byte) (int, error) {
	sent.Write(p)
	return c.Conn.Write(p)
}

type env struct {
	app    *fiber.App
	ln     *fasthttputil.InmemoryListener
	client *client.Client
	h      fasthttp.RequestHandler
}

var envs [2]*env // index: EnableSplittingOnParsers

func bindInto(c fiber.Ctx, out any) error {
	b := c.Bind()
	if cur.auto {
		b = b.WithAutoHandling()
	} else {
		b = b.WithoutAutoHandling()
	}
	switch cur.source {
	case "query":
		return b.Query(out)
	case "header":
		return b.Header(out)
	case "cookie":
		return b.Cookie(out)
	default: // form multipart json xml cbor and the content-type dispatch cases
		return b.Body(out)
	}
}

func sortedCookie(raw string) string {
	if raw == "" {
		return ""
	}
	parts := strings.Split(raw, "; ")
	sort.Strings(parts)
	return strings.Join(parts, "; ")
}

// wireOf is the part of the request the model predicts byte for byte.
func wireOf(c fiber.Ctx) string {
	req := c.Request()
	switch cur.source {
	case "query":
		return gen.Hex(string(req.URI().QueryString()))
	case "form":
		return gen.Hex(string(req.Body()))
	case "header":
		var kv []string
		req.Header.VisitAll(func(k, v []byte) {
			if len(k) > 2 && k[0] == 'X' && k[1] == '-' {
				kv = append(kv, string(k)+": "+string(v))
			}
		})
		return gen.HexList(kv)
	case "cookie":
		return gen.Hex(sortedCookie(string(req.Header.Peek("Cookie"))))
	default:
		ct := string(req.Header.ContentType())
		if cur.source == "multipart" {
			// The boundary is random: the model takes it from here (a parameter) and predicts the body.
			// The body is what the client wrote on the connection (the server pre-parses a multipart
			// body and Request.Body() would re-marshal it from a Go map, in any order).
			body := ""
			if i := strings.Index(sent.String(), "\r\n\r\n"); i >= 0 {
				body = sent.String()[i+4:]
			}
			// length and a rolling checksum of the body (the bodies are large; the model computes the same)
			h := uint64(0)
			for i := 0; i < len(body); i++ {
				h = (h*257 + uint64(body[i]) + 1) % 1000000007
			}
			return fmt.Sprintf("%s:%d.%d", gen.Hex(ct), len(body), h)
		}
		return gen.Hex(ct)
	}
}

func mapCanon(m map[string][]string) string {
	keys := make([]string, 0, len(m))
	for k := range m {
		keys = append(keys, k)
	}
	sort.Strings(keys)
	var parts []string
	for _, k := range keys {
		parts = append(parts, gen.Hex(k)+"="+gen.HexList(m[k]))
	}
	if len(parts) == 0 {
		return "-"
	}
	return strings.Join(parts, "/")
}

var skipKeys = map[string]bool{"Host": true, "User-Agent": true, "Content-Type": true, "Content-Length": true}

func handler(c fiber.Ctx) (err error) {
	cur.ran = true
	cur.wire = wireOf(c)
	defer func() {
		if r := recover(); r != nil {
			cur.panicked = fmt.Sprint(r)
			err = nil
		}
	}()
	var e error
	if cur.target == "map" {
		m := map[string][]string{}
		e = bindInto(c, &m)
		if cur.source == "header" {
			for k := range skipKeys {
				delete(m, k)
			}
		}
		cur.dec = mapCanon(m)
	} else {
		var out T
		e = bindInto(c, &out)
		cur.dec = canon(&out)
	}
	if e != nil {
		cur.err = true
		var fe *fiber.Error
		if errors.As(e, &fe) {
			cur.errCode = fe.Code
		}
	}
	return e
}

func newEnv(split bool) *env {
	rec := func(name string, f func([]byte, any) error) func([]byte, any) error {
		return func(b []byte, v any) error { cur.codec = name; return f(b, v) }
	}
	def := fiber.New().Config()
	app := fiber.New(fiber.Config{
		EnableSplittingOnParsers: split,
		ReadBufferSize:           1 << 20, // header section limit (default 4096) is a server setting, not part of the property
		JSONDecoder:              rec("json", def.JSONDecoder),
		XMLDecoder:               rec("xml", def.XMLDecoder),
		CBORDecoder:              rec("cbor", def.CBORDecoder),
	})
	app.All("/*", handler)
	ln := fasthttputil.NewInmemoryListener()
	go func() { _ = app.Listener(ln, fiber.ListenConfig{DisableStartupMessage: true}) }()
	cl := client.New().SetDial(func(string) (net.Conn, error) {
		c, err := ln.Dial()
		if err != nil {
			return nil, err
		}
		return teeConn{c}, nil
	})
	return &env{app: app, ln: ln, client: cl, h: app.Handler()}
}

func resetCur(source string, auto bool, target string) {
	cur.source, cur.auto, cur.target = source, auto, target
	sent.Reset()
	cur.ran, cur.wire, cur.dec, cur.err, cur.errCode, cur.panicked, cur.codec = false, "-", "-", false, 0, "", "-"
}

// obsString is the implementation's observation field.
func obsString(status int, sendErr string) string {
	if sendErr != "" {
		return "senderr=" + gen.Hex(sendErr)
	}
	if !cur.ran {
		return fmt.Sprintf("notrun;status=%d", status)
	}
	if cur.panicked != "" {
		return "panic=" + gen.Hex(cur.panicked)
	}
	return fmt.Sprintf("wire=%s;dec=%s;err=%s;code=%d;status=%d;codec=%s", cur.wire, cur.dec, gen.B(cur.err), cur.errCode, status, cur.codec)
}
