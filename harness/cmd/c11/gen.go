package main

import (
	"math"
	"strings"
	"unicode/utf8"

	"verifharness/internal/gen"
)

var sources = []string{"query", "form", "multipart", "header", "cookie", "json", "xml", "cbor"}

var palette = []string{
	"", "a", "abc", "hello world", "héllo wörld", "日本語テキスト", "emoji 😀 ok", "Ünïcödé",
	"a&b=c", "a+b", "100%", "%41", "%zz", "%", "%4", "a%20b", "x?y#z", "/path/to;x", "a;b", "k=v",
	"a,b", ",", "a,,b", "1,2,3", " lead", "trail ", " both ", "\ttab", "tab\t", "a\tb",
	"\"quoted\"", "\"", "it's", "<tag attr=\"v\">&amp;</tag>", "]]>", "[x]", "a[b]", "a[", "]", "[]",
	"true", "false", "on", "0", "-1", "+1", "1e5", "NaN", "null", "{}", "~-._", "*", "@:$!'()",
	"a=b&c=d", "&&", "==", "\\", "\\n", "back\\slash", "\u00a0nbsp", "\u2028ls", "\ufeffbom", "\u0085nel",
	// a multipart delimiter line for the client's boundary prefix (the client appends 16 random characters)
	"a\r\n----FiberFormBoundary\r\nb", "\r\n----FiberFormBoundary--\r\n",
}

var weird = []string{
	"\x00", "a\x00b", "\r\n", "a\r\nX-Injected: 1", "\n", "\r", "\x01\x02", "\x7f", "\x1f", "\xff\xfe", "\xc3", "a\xe2\x82", "\x80",
	"\x0b\x0c", "\x1b[0m",
}

func genString(r *gen.Rand, source string, wild bool) string {
	var s string
	switch r.Intn(12) {
	case 0:
		s = strings.Repeat(gen.Pick(r, []string{"a", "é", "&", "%", " ", "+", ","}), 1+r.Intn(300))
	case 1, 2:
		// random bytes from a class
		n := r.Intn(12)
		b := make([]byte, n)
		for i := range b {
			switch r.Intn(4) {
			case 0:
				b[i] = byte(0x20 + r.Intn(0x5f))
			case 1:
				const resv = "&=+%#?/;, []\"'<>.~_-"
				b[i] = resv[r.Intn(len(resv))]
			case 2:
				b[i] = byte('a' + r.Intn(26))
			default:
				b[i] = byte('0' + r.Intn(10))
			}
		}
		s = string(b)
	case 3:
		s = gen.Pick(r, palette) + gen.Pick(r, palette)
	default:
		s = gen.Pick(r, palette)
	}
	if wild {
		switch r.Intn(3) {
		case 0:
			s = gen.Pick(r, weird)
		case 1:
			s += gen.Pick(r, weird)
		default:
			n := 1 + r.Intn(8)
			b := make([]byte, n)
			for i := range b {
				b[i] = byte(r.Intn(256))
			}
			s = string(b)
		}
	}
	_ = source
	return s
}

func genInt(r *gen.Rand, bits int) int64 {
	mx := int64(math.MaxInt64)
	mn := int64(math.MinInt64)
	if bits < 64 {
		mx = int64(1)<<(bits-1) - 1
		mn = -mx - 1
	}
	switch r.Intn(8) {
	case 0:
		return mx
	case 1:
		return mn
	case 2:
		return 0
	case 3:
		return -1
	case 4:
		return mx - int64(r.Intn(3))
	case 5:
		return mn + int64(r.Intn(3))
	default:
		v := int64(r.U64())
		if bits < 64 {
			v >>= (64 - bits)
		}
		if r.Bool() {
			v = int64(r.Intn(2000)) - 1000
			if v > mx {
				v = mx
			}
			if v < mn {
				v = mn
			}
		}
		return v
	}
}

func genUint(r *gen.Rand, bits int) uint64 {
	mx := uint64(math.MaxUint64)
	if bits < 64 {
		mx = uint64(1)<<bits - 1
	}
	switch r.Intn(6) {
	case 0:
		return mx
	case 1:
		return 0
	case 2:
		return mx - uint64(r.Intn(3))
	case 3:
		return uint64(r.Intn(1000)) & mx
	default:
		return r.U64() & mx
	}
}

var floats64 = []float64{0, 1, -1, 0.1, -0.5, 3.141592653589793, 1e21, 1e-7, 123456789.125, math.MaxFloat64, math.SmallestNonzeroFloat64,
	-math.MaxFloat64, 1e308, 2.5e-300, 4294967296, 0.30000000000000004}
var floats32 = []float32{0, 1, -1, 0.1, -0.5, 3.1415927, 1e21, 1e-7, 16777216, math.MaxFloat32, math.SmallestNonzeroFloat32, 0.3}

func genF64(r *gen.Rand, wild bool) float64 {
	if wild && r.Chance(1, 2) {
		return gen.Pick(r, []float64{math.NaN(), math.Inf(1), math.Inf(-1), math.Copysign(0, -1)})
	}
	if r.Chance(1, 3) {
		return math.Float64frombits(r.U64()&^(0x7ff<<52) | uint64(r.Intn(2046)+1)<<52) // finite, any exponent
	}
	if r.Chance(1, 3) {
		return dyadic(r, 50)
	}
	return gen.Pick(r, floats64)
}

// dyadic draws ±m·2^e with a short mantissa: values whose full decimal expansion is short (integers,
// halves, quarters, … — the class for which the float round trip is proved without assumption) next
// to ones whose expansion is long (small negative e with a wide m, large positive e).
func dyadic(r *gen.Rand, mbits int) float64 {
	m := float64(r.U64() >> (64 - uint(1+r.Intn(mbits))))
	e := 0
	switch r.Intn(4) {
	case 0:
		e = -r.Intn(12)
	case 1:
		e = -r.Intn(60)
	case 2:
		e = r.Intn(30)
	}
	v := math.Ldexp(m, e)
	if r.Bool() {
		v = -v
	}
	return v
}

func genF32(r *gen.Rand, wild bool) float32 {
	if wild && r.Chance(1, 2) {
		return float32(gen.Pick(r, []float64{math.NaN(), math.Inf(1), math.Inf(-1)}))
	}
	if r.Chance(1, 3) {
		return math.Float32frombits(uint32(r.U64())&^(0xff<<23) | uint32(r.Intn(254)+1)<<23)
	}
	if r.Chance(1, 3) {
		return float32(dyadic(r, 22))
	}
	return gen.Pick(r, floats32)
}

func sliceLen(r *gen.Rand) int {
	switch r.Intn(8) {
	case 0, 1:
		return 0
	case 2, 3:
		return 1
	case 4:
		return 20 + r.Intn(40)
	default:
		return 2 + r.Intn(4)
	}
}

// genValue draws a struct value. `wild` admits strings/floats outside every transport's
// well-formedness predicate (controls, CR/LF, invalid UTF-8, NaN/Inf).
func genValue(r *gen.Rand, source string, wild bool) *T {
	v := &T{}
	sparse := r.Chance(1, 4) // mostly-zero structs exercise the empty-value paths
	on := func() bool { return !sparse || r.Chance(1, 4) }
	w := func() bool { return wild && r.Chance(1, 3) }
	if on() {
		v.S = genString(r, source, w())
	}
	if on() {
		v.I = int(genInt(r, 64))
	}
	if on() {
		v.I8 = int8(genInt(r, 8))
	}
	if on() {
		v.I64 = genInt(r, 64)
	}
	if on() {
		v.U = uint(genUint(r, 64))
	}
	if on() {
		v.U16 = uint16(genUint(r, 16))
	}
	if on() {
		v.U64 = genUint(r, 64)
	}
	if on() {
		v.B = r.Bool()
	}
	if on() {
		v.F32 = genF32(r, w())
	}
	if on() {
		v.F64 = genF64(r, w())
	}
	if on() {
		for i := sliceLen(r); i > 0; i-- {
			v.SS = append(v.SS, genString(r, source, w()))
		}
	}
	if on() {
		for i := sliceLen(r); i > 0; i-- {
			v.IS = append(v.IS, int(genInt(r, 64)))
		}
	}
	if on() {
		for i := sliceLen(r); i > 0; i-- {
			v.I64S = append(v.I64S, genInt(r, 64))
		}
	}
	if on() {
		for i := sliceLen(r); i > 0; i-- {
			v.US = append(v.US, uint(genUint(r, 64)))
		}
	}
	if on() {
		for i := sliceLen(r); i > 0; i-- {
			v.BS = append(v.BS, r.Bool())
		}
	}
	if on() {
		for i := sliceLen(r); i > 0; i-- {
			v.FS = append(v.FS, genF64(r, w()))
		}
	}
	if on() {
		for i := sliceLen(r); i > 0; i-- {
			v.TS = append(v.TS, genString(r, source, w()))
		}
	}
	if on() {
		v.I16 = int16(genInt(r, 16))
	}
	if on() {
		v.I32 = int32(genInt(r, 32))
	}
	if on() {
		v.U8 = uint8(genUint(r, 8))
	}
	if on() {
		v.U32 = uint32(genUint(r, 32))
	}
	if on() {
		for i := sliceLen(r); i > 0; i-- {
			v.I8S = append(v.I8S, int8(genInt(r, 8)))
		}
	}
	if on() {
		for i := sliceLen(r); i > 0; i-- {
			v.U16S = append(v.U16S, uint16(genUint(r, 16)))
		}
	}
	if on() {
		for i := sliceLen(r); i > 0; i-- {
			v.F32S = append(v.F32S, genF32(r, w()))
		}
	}
	if on() {
		for i := sliceLen(r); i > 0; i-- {
			v.NT = append(v.NT, genString(r, source, w()))
		}
	}
	if on() {
		v.N = genString(r, source, w())
	}
	if on() {
		v.MS = MyStr(genString(r, source, w()))
	}
	if on() {
		for i := sliceLen(r); i > 0; i-- {
			v.MIS = append(v.MIS, MyI16(genInt(r, 16)))
		}
	}
	if on() {
		v.MF = MyF32(genF32(r, w()))
	}
	return v
}

// ---- repair towards a transport's well-formedness predicate (used for most generated cases) -----

func validHeaderByte(c byte) bool { return c == 9 || (c >= 0x20 && c != 0x7f) }

func fixString(s, source string) string {
	switch source {
	case "header", "cookie":
		b := []byte(s)
		for i, c := range b {
			if !validHeaderByte(c) || c == 9 {
				b[i] = '.'
			}
			if source == "cookie" && c == ';' {
				b[i] = ':'
			}
		}
		s = strings.Trim(string(b), " ")
		if source == "cookie" && len(s) > 1 && s[0] == '"' && s[len(s)-1] == '"' {
			s = "q" + s
		}
		return s
	case "json", "xml", "cbor":
		if !utf8.ValidString(s) {
			s = strings.ToValidUTF8(s, "?")
		}
		if source == "xml" {
			s = strings.Map(func(r rune) rune {
				if r == 0x9 || r == 0xA || r == 0xD || (r >= 0x20 && r <= 0xD7FF) || (r >= 0xE000 && r <= 0xFFFD && r != 0xFFFE) || r >= 0x10000 {
					return r
				}
				return '?'
			}, s)
		}
		return s
	}
	return s
}

func fixValue(v *T, source string) {
	v.S = fixString(v.S, source)
	for i := range v.SS {
		v.SS[i] = fixString(v.SS[i], source)
	}
	for i := range v.TS {
		v.TS[i] = fixString(v.TS[i], source)
	}
	for i := range v.NT {
		v.NT[i] = fixString(v.NT[i], source)
	}
	v.N = fixString(v.N, source)
	v.MS = MyStr(fixString(string(v.MS), source))
	ff := func(f float64) float64 {
		if math.IsNaN(f) || math.IsInf(f, 0) {
			return 0
		}
		return f
	}
	if source == "json" || source == "xml" || source == "cbor" {
		v.F32, v.F64 = float32(ff(float64(v.F32))), ff(v.F64)
		v.MF = MyF32(ff(float64(v.MF)))
		for i := range v.FS {
			v.FS[i] = ff(v.FS[i])
		}
		for i := range v.F32S {
			v.F32S[i] = float32(ff(float64(v.F32S[i])))
		}
	}
}
