package main

import (
	"bytes"
	"encoding/json"
	"encoding/xml"
	"mime/multipart"
	"strings"

	"github.com/fxamacker/cbor/v2"

	"verifharness/internal/gen"
)

var aliases = []string{"s", "i", "i8", "i64", "u", "u16", "u64", "b", "ss", "is", "i64s", "us", "bs", "ts", "qt",
	"i16", "i32", "u8", "u32", "i8s", "u16s", "nt", "n", "ms", "mis", "f32", "f64", "fs", "f32s", "mf"}
var hdrAliases = []string{"X-S", "X-I", "X-I8", "X-I64", "X-U", "X-U16", "X-U64", "X-B", "X-Ss", "X-Is", "X-I64s", "X-Us", "X-Bs", "X-Ts", "X-Qt",
	"X-I16", "X-I32", "X-U8", "X-U32", "X-I8s", "X-U16s", "X-Nt", "N", "X-Ms", "X-Mis", "X-F32", "X-F64", "X-Fs", "X-F32s", "X-Mf"}

var rawVals = []string{"", "0", "1", "-1", "+1", "127", "128", "-128", "-129", "255", "256", "65535", "65536",
	"9223372036854775807", "9223372036854775808", "-9223372036854775808", "-9223372036854775809", "18446744073709551615",
	"18446744073709551616", "00012", "-0", "1_000", "0x10", "1e3", " 1", "1 ", "abc", "true", "false", "TRUE", "True", "t", "T", "f", "F",
	"on", "off", "yes", "1,2", "1,2,3", ",", "a,b", "a,,b", ",a", "a,", "1,x", "true,false", "héllo", "日本", "a b", "x=y", "a&b", "%", "100%",
	"[x]", "-", "+", "--1", "٣"}

// rawFloats: texts for the float fields — plain decimals, exponents, the rounding boundaries of
// float32 / float64 (ties, largest finite, smallest subnormal), overflow, special values, and texts
// strconv.ParseFloat refuses.
var rawFloats = []string{"0", "-0", "+0", "1", "1.5", "-2.25", "0.1", "0.3", ".5", "5.", ".", "+", "-", "1e3", "1E3", "1e+3", "1e-3",
	"1e", "e1", "1e400", "-1e400", "1e-400", "-1e-400", "1e39", "3.4028235e38", "3.4028236e38", "340282346638528859811704183484516925440",
	"340282356779733661637539395458142568448", "340282356779733661637539395458142568447", "16777217", "16777216.5", "16777219",
	"9007199254740993", "9007199254740995", "0.1000000000000000055511151231257827", "1.7976931348623157e308", "1.7976931348623159e308",
	"179769313486231580793728971405303415079934132710037826936173778980444968292764750946649017977587207096330286416692887910946555547851940402630657488671505820681908902000708383676273854845817711531764475730270069855571366959622842914819860834936475292719074168444365510704342711559699508093042880177904174497791",
	"4.9e-324", "2.4703282292062327e-324", "2.4703282292062328e-324", "1e-45", "7e-46", "7.1e-46", "1.1754943508222875e-38",
	"inf", "-Inf", "+infinity", "Infinity", "nan", "NaN", "+nan", "infx", "infin", "1_0", "0x1p4", "0x10", "1.2.3", "1,2", "1.5,2.5", "1.5,x",
	"00.50", "1.", "1e99999", "1e-99999", "1e100000", "0.000000000000000000000000000000000000000000001", "123456789.125", "1e21", "1e22", "1e23",
	"8.5", "0.5", "0.25", "2.5e-1", "25e-2", "1 ", " 1", "1f", "1d", "٣.٥"}

var floatAlias = map[string]bool{"f32": true, "f64": true, "fs": true, "f32s": true, "mf": true,
	"X-F32": true, "X-F64": true, "X-Fs": true, "X-F32s": true, "X-Mf": true}

// rawVal draws a raw value for alias a: for the float fields mostly a float text.
func rawVal(r *gen.Rand, a string) string {
	if floatAlias[a] && r.Chance(3, 4) {
		return gen.Pick(r, rawFloats)
	}
	return gen.Pick(r, rawVals)
}

func pctEncodeSome(r *gen.Rand, s string) string {
	var b strings.Builder
	for i := 0; i < len(s); i++ {
		c := s[i]
		switch {
		case c == ' ' && r.Bool():
			b.WriteByte('+')
		case c == '&' || c == '=' || c == '+' || c == '%' || c == '#' || c >= 0x80 || c < 0x20 || r.Chance(1, 10):
			if r.Chance(1, 30) {
				b.WriteByte(c) // leave a reserved byte raw now and then
			} else {
				const hx = "0123456789ABCDEFabcdef"
				if r.Bool() {
					b.WriteString("%" + string(hx[c>>4]) + string(hx[c&15]))
				} else {
					lo := "0123456789abcdef"
					b.WriteString("%" + string(lo[c>>4]) + string(lo[c&15]))
				}
			}
		default:
			b.WriteByte(c)
		}
	}
	return b.String()
}

// keyVariant decorates an alias with bracket notation / unknown parts.
func keyVariant(r *gen.Rand, a string) string {
	switch r.Intn(16) {
	case 0:
		return a + "[]"
	case 1:
		return a + "[0]"
	case 2:
		return a + "[x][y]"
	case 3:
		return a + "["
	case 4:
		return a + "]"
	case 5:
		return "[" + a + "]"
	case 6:
		return a + "[[]]"
	case 7:
		return a + "[]x"
	case 8:
		return a + ".x"
	case 9:
		return "zz" + a
	case 10:
		return gen.Pick(r, []string{"", "unknown", "a[b]", "a.b", ".", "[", "]", "[]", "][", "a[b", "x[y]z[w]"})
	default:
		return a
	}
}

type casing map[string]string

// cased picks ONE spelling per alias and case (gofiber/schema matches aliases case-insensitively
// and walks a Go map: two spellings of one alias in a request make the result order-dependent).
func (c casing) cased(r *gen.Rand, a string) string {
	if v, ok := c[a]; ok {
		return v
	}
	v := a
	if r.Chance(1, 12) {
		v = strings.ToUpper(a)
	}
	c[a] = v
	return v
}

func genArgs(r *gen.Rand, als []string, brackets bool) string {
	cs := casing{}
	n := r.Intn(7)
	if r.Chance(1, 10) {
		n = 20 + r.Intn(30)
	}
	var parts []string
	for i := 0; i < n; i++ {
		al := gen.Pick(r, als)
		k := cs.cased(r, al)
		if brackets {
			k = keyVariant(r, k)
		}
		v := rawVal(r, al)
		if r.Chance(1, 6) {
			v = genString(r, "query", r.Chance(1, 4))
		}
		p := pctEncodeSome(r, k)
		switch r.Intn(12) {
		case 0:
			// no '='
		case 1:
			p += "=" + pctEncodeSome(r, v) + "=" + pctEncodeSome(r, v)
		default:
			p += "=" + pctEncodeSome(r, v)
		}
		parts = append(parts, p)
	}
	s := strings.Join(parts, "&")
	switch r.Intn(20) {
	case 0:
		s += "&"
	case 1:
		s = "&" + s
	case 2:
		s = strings.Replace(s, "&", "&&", 1)
	case 3:
		s = strings.Replace(s, "&", ";", 1)
	}
	return s
}

func randBytes(r *gen.Rand, n int) string {
	b := make([]byte, n)
	for i := range b {
		b[i] = byte(r.Intn(256))
	}
	return string(b)
}

func mutate(r *gen.Rand, s string) string {
	if len(s) == 0 {
		return s
	}
	b := []byte(s)
	switch r.Intn(5) {
	case 0:
		return string(b[:r.Intn(len(b))])
	case 1:
		b[r.Intn(len(b))] = byte(r.Intn(256))
	case 2:
		i := r.Intn(len(b))
		return string(b[:i]) + randBytes(r, 1+r.Intn(4)) + string(b[i:])
	case 3:
		i := r.Intn(len(b))
		return string(b[:i]) + string(b[i+1:])
	default:
		return string(b[r.Intn(len(b)):])
	}
	return string(b)
}

var ctypes = []string{
	"application/json", "application/json; charset=utf-8", "APPLICATION/JSON", "application/json;charset=utf-8", "application/json ;x",
	" application/json", "application/jsonx", "application/vnd.api+json", "application/vnd.api+json; charset=utf-8", "application/problem+xml",
	"application/x+cbor", "application/x.y+json+xml", "application/json+", "+json", "a+b/c", "application/json; a+b", "x+json;",
	"text/xml", "application/xml", "text/xml; charset=utf-8", "TEXT/XML", "application/cbor", "application/cbor;",
	"application/x-www-form-urlencoded", "application/x-www-form-urlencoded; charset=UTF-8", "Application/X-WWW-Form-Urlencoded",
	"multipart/form-data; boundary=XBOUNDX", "multipart/form-data", "Multipart/Form-Data; boundary=XBOUNDX", "multipart/form-data;boundary=XBOUNDX",
	"multipart/mixed; boundary=XBOUNDX", "text/plain", "", ";", " ", "/", "application/", "json", "application/json\t", "application/xml+json",
	"application/x y+json", "application/json x+y", "text/x+xml y", "application/x+json y", "a b+json", "application/ld+json ; v=1", "application/a+b+json",
}

// normKey mirrors the bracket normalisation only to keep generated multipart names apart
// (generation filter; the verdict never depends on it).
func normKey(k string) (string, bool) {
	if !strings.Contains(k, "[") {
		return k, true
	}
	var b strings.Builder
	open := 0
	for i := 0; i < len(k); i++ {
		switch c := k[i]; c {
		case '[':
			open++
			if i+1 < len(k) && k[i+1] != ']' {
				b.WriteByte('.')
			}
		case ']':
			open--
			if open < 0 {
				return "", false
			}
		default:
			b.WriteByte(c)
		}
	}
	return b.String(), open == 0
}

var ctypePieces = []string{"application/", "text/", "multipart/", "json", "xml", "cbor", "form-data", "x-www-form-urlencoded",
	"vnd.api", "+", "+", ";", ";", " ", " ", "/", "charset=utf-8", "boundary=XBOUNDX", "x", "JSON", "=", "\t", ",", "."}

// randCtype glues content-type pieces together: '+', ';', ' ' and '/' in every relative order
// (vendor suffix before/after parameters, blanks inside the media type, several '+' …).
func randCtype(r *gen.Rand) string {
	var b strings.Builder
	for i := 1 + r.Intn(7); i > 0; i-- {
		b.WriteString(gen.Pick(r, ctypePieces))
	}
	return b.String()
}

func multipartBody(r *gen.Rand) string {
	var buf bytes.Buffer
	mw := multipart.NewWriter(&buf)
	_ = mw.SetBoundary("XBOUNDX")
	cs := casing{}
	// bindMultipart walks a Go map: two different names that bracket-normalise to one key would make
	// the bound value depend on the iteration order. One spelling per normalised key.
	seen := map[string]string{}
	for i := r.Intn(8); i > 0; i-- {
		al := gen.Pick(r, aliases)
		k := keyVariant(r, cs.cased(r, al))
		if n, ok := normKey(k); ok {
			if prev, dup := seen[n]; dup && prev != k {
				continue
			}
			seen[n] = k
		}
		v := rawVal(r, al)
		if r.Chance(1, 6) {
			v = genString(r, "query", false)
		}
		_ = mw.WriteField(k, v)
		if r.Chance(1, 5) { // a second value under the same name
			_ = mw.WriteField(k, gen.Pick(r, rawVals))
		}
	}
	if r.Bool() {
		fw, _ := mw.CreateFormFile("file1", "f.txt")
		_, _ = fw.Write([]byte("data"))
	}
	_ = mw.Close()
	return buf.String()
}

func genRaw(w *gen.Writer, r *gen.Rand, id string, split, auto bool) {
	target := "struct"
	if r.Chance(2, 5) {
		target = "map"
	}
	switch k := r.Intn(20); {
	case k < 8:
		q := genArgs(r, aliases, true)
		if r.Chance(1, 10) {
			q = randBytes(r, r.Intn(40))
		}
		q = uriSafe(q)
		emitRaw(w, id, "query", split, auto, target, "", q, nil)
	case k < 11:
		var hs []string
		for i := r.Intn(6); i > 0; i-- {
			k := gen.Pick(r, hdrAliases) // canonical spelling: fasthttp normalises header names anyway
			v := rawVal(r, k)
			if r.Chance(1, 6) {
				v = fixString(genString(r, "header", false), "header")
			}
			if r.Chance(1, 8) {
				k = gen.Pick(r, []string{"X-Unknown", "X-S[0]", "X-Ss[]", "Accept", "X-[", "X-]"})
			}
			hs = append(hs, k+": "+v)
		}
		emitRaw(w, id, "header", split, auto, target, "", "", hs)
	case k < 14:
		var parts []string
		cs := casing{}
		for i := r.Intn(6); i > 0; i-- {
			al := gen.Pick(r, aliases)
			v := rawVal(r, al)
			if r.Chance(1, 6) {
				v = genString(r, "cookie", false)
			}
			k := cs.cased(r, al)
			if r.Chance(1, 5) {
				k = keyVariant(r, k) // the cookie binder does NOT normalise brackets: these keys stay literal
			}
			switch r.Intn(12) {
			case 0:
				parts = append(parts, v)
			case 1:
				parts = append(parts, k+"=\""+v+"\"")
			case 2:
				parts = append(parts, " "+k+" = "+v+" ")
			default:
				parts = append(parts, k+"="+v)
			}
		}
		c := strings.Join(parts, gen.Pick(r, []string{"; ", "; ", ";", " ; "}))
		if r.Chance(1, 10) {
			c = randBytes(r, r.Intn(30))
		}
		c = strings.Map(func(x rune) rune {
			if x == '\n' || x == '\r' {
				return '.'
			}
			return x
		}, c)
		emitRaw(w, id, "cookie", split, auto, target, "", c, nil)
	default:
		ct := gen.Pick(r, ctypes)
		if r.Chance(1, 5) {
			ct = randCtype(r)
		}
		var body string
		v := genValue(r, "json", false)
		fixValue(v, "xml")
		// two times out of three the content type is one of the family the body was written for
		match := func(family []string) {
			if r.Chance(2, 3) {
				ct = gen.Pick(r, family)
			}
		}
		switch r.Intn(7) {
		case 0:
			b, _ := json.Marshal(v)
			body = string(b)
			match([]string{"application/json", "application/json; charset=utf-8", "APPLICATION/JSON", "application/vnd.api+json", "application/json ;x"})
		case 1:
			b, _ := xml.Marshal(v)
			body = string(b)
			match([]string{"application/xml", "text/xml", "text/xml; charset=utf-8", "TEXT/XML", "application/problem+xml"})
		case 2:
			b, _ := cbor.Marshal(v)
			body = string(b)
			match([]string{"application/cbor", "application/cbor;", "application/x+cbor"})
		case 3, 4:
			body = multipartBody(r)
			match([]string{"multipart/form-data; boundary=XBOUNDX", "multipart/form-data;boundary=XBOUNDX", "multipart/form-data; boundary=\"XBOUNDX\"",
				"multipart/form-data; charset=utf-8; boundary=XBOUNDX", "multipart/form-data; boundary=XBOUNDX", "Multipart/Form-Data; boundary=XBOUNDX", "multipart/form-data"})
		case 5:
			body = genArgs(r, aliases, true)
			match([]string{"application/x-www-form-urlencoded", "application/x-www-form-urlencoded; charset=UTF-8", "Application/X-WWW-Form-Urlencoded"})
		default:
			body = randBytes(r, r.Intn(60))
		}
		if r.Chance(1, 4) {
			body = mutate(r, body)
		}
		emitRaw(w, id, "body", split, auto, target, ct, body, nil)
	}
}

// uriSafe makes a raw query string one that fasthttp's URI parser lets through to the handler
// unchanged: control bytes and '#' percent-encoded (a request line containing them is rejected
// before any binder runs), ' ' as '+', and no "://" (fasthttp would treat the target as absolute).
func uriSafe(q string) string {
	var b strings.Builder
	for i := 0; i < len(q); i++ {
		c := q[i]
		switch {
		case c < 0x20 || c == 0x7f || c == '#':
			const hx = "0123456789ABCDEF"
			b.WriteString("%" + string(hx[c>>4]) + string(hx[c&15]))
		case c == ' ':
			b.WriteByte('+')
		default:
			b.WriteByte(c)
		}
	}
	return strings.ReplaceAll(b.String(), "://", ":%2F/")
}
