// Harness for C06 (Immutable option: values taken from the context stay valid).
//
// One case = (configuration, first request R0, later requests R1..Rn). The real fiber app is driven
// through ONE app.Handler() with ONE reused fasthttp.RequestCtx on one goroutine (GOMAXPROCS(1)), every
// request parsed from raw wire bytes with Request.Read, so that the pooled fiber context and all the
// fasthttp buffers (header key/value storage, URI, args, body) are recycled exactly as a worker does.
// While serving R0 the handler calls EVERY accessor of fiber.Ctx, fiber.Req and fiber.Res that yields
// strings / byte slices / collections or objects holding them (found by reflection on the interfaces,
// so new accessors are covered automatically), the generic helpers, every Bind() source into struct,
// map and map-of-slices targets and the Redirect() readers; it keeps the returned values themselves and
// records their content (a) at capture, (b) at the end of the handler - after every accessor has been
// called a second time - and (c) after R1..Rn have been served. The driver compares with the accessor
// semantics and the property.
//
// Configurations: Immutable x CaseSensitive x EnableSplittingOnParsers x ProxyHeader x
// EnableIPValidation x TrustProxy (untrusted peer). Bodies: none, text, urlencoded form, JSON,
// multipart form with files, compressed text (gzip / deflate / br / zstd, several layers, unsupported
// and wrongly spelled encodings).
package main

import (
	"bufio"
	"bytes"
	"encoding/hex"
	"fmt"
	"io"
	"net"
	"os"
	"reflect"
	"regexp"
	"runtime"
	"runtime/debug"
	"sort"
	"strings"
	"time"

	"github.com/gofiber/fiber/v3"
	"github.com/gofiber/fiber/v3/log"
	"github.com/valyala/fasthttp"

	"verifharness/internal/gen"
)

// ---------------------------------------------------------------------------------------------
// configuration of the app under test

type config struct {
	imm   bool // Immutable
	cs    bool // CaseSensitive
	split bool // EnableSplittingOnParsers
	ph    bool // ProxyHeader: X-Forwarded-For
	ipv   bool // EnableIPValidation
	tp    bool // TrustProxy with no trusted proxy: the peer is NOT trusted
	srv   bool // driven through a real fasthttp server over loopback TCP (peer 127.0.0.1) instead of the
	//            simulated connection loop (peer 10.0.0.7:4242)
	// route table / handler chain in front of the endpoint (at most one of them):
	//   hh  the endpoint route has two handlers; the first captures everything too, then Next()
	//   mw  Use("/u/:tenant", first) in front of the endpoint: a second route matches after Next()
	//   rr  like mw, but the middleware calls RestartRouting() on its first visit, Next() on the second
	//   po  like mw, but the middleware overrides the path (c.Path("/u/ovr<name>/-/<rest>")) before Next()
	// no endpoint is reached; the accessor set runs in a custom ErrorHandler (c.route == nil there):
	//   nf  no route matches at all (404)
	//   na  the path is registered for another method only (405; methodExist matches into c.values)
	//   uo  only Use("/u/:tenant", front) matches: front probes, Next() fails with 404, then the ErrorHandler
	chain string
}

var cfgFlags = []string{"cs", "hh", "ipv", "mw", "na", "nf", "ph", "po", "rr", "split", "srv", "tp", "uo"} // canonical (sorted) order

func (c config) flag(n string) bool {
	switch n {
	case "cs":
		return c.cs
	case "ipv":
		return c.ipv
	case "ph":
		return c.ph
	case "split":
		return c.split
	case "srv":
		return c.srv
	case "tp":
		return c.tp
	case "hh", "mw", "na", "nf", "po", "rr", "uo":
		return c.chain == n
	}
	return false
}

func (c config) encode() string {
	s := gen.B(c.imm)
	for _, n := range cfgFlags {
		if c.flag(n) {
			s += "," + n
		}
	}
	return s
}

func decodeConfig(s string) (c config, ok bool) {
	f := strings.Split(s, ",")
	switch f[0] {
	case "0":
	case "1":
		c.imm = true
	default:
		return c, false
	}
	for _, x := range f[1:] {
		switch x {
		case "cs":
			c.cs = true
		case "ipv":
			c.ipv = true
		case "ph":
			c.ph = true
		case "split":
			c.split = true
		case "srv":
			c.srv = true
		case "tp":
			c.tp = true
		case "hh", "mw", "na", "nf", "po", "rr", "uo":
			if c.chain != "" {
				return c, false
			}
			c.chain = x
		default:
			return c, false
		}
	}
	return c, c.encode() == s // canonical spelling only
}

func (c config) fiber() fiber.Config {
	fc := fiber.Config{Immutable: c.imm, CaseSensitive: c.cs, EnableSplittingOnParsers: c.split,
		EnableIPValidation: c.ipv, TrustProxy: c.tp, ReadBufferSize: 64 << 10}
	if c.ph {
		fc.ProxyHeader = fiber.HeaderXForwardedFor
	}
	return fc
}

// ---------------------------------------------------------------------------------------------
// structured requests

type kv struct{ k, v string }

type request struct {
	proto   int // 0 = HTTP/1.1, 1 = HTTP/1.0
	name    string
	rest    string
	query   []kv
	headers []kv
	cookies []kv
	host    string
	// 'n' none (GET), 'r' raw text/plain, 'f' urlencoded form, 'j' json {"name":..,"note":..},
	// 'm' multipart form (bform = fields, bfiles = field -> file name), 'z' compressed text
	bkind  byte
	braw   string
	bform  []kv
	bfiles []kv
	encs   []string // 'z': Content-Encoding elements in header order
	layers []string // 'z': layers[0] = body on the wire, layers[i+1] = layers[i] decoded with encs[i]
}

const boundary = "XbOuNdArYx"

func encPairs(ps []kv) string {
	if len(ps) == 0 {
		return "-"
	}
	out := make([]string, len(ps))
	for i, p := range ps {
		out[i] = gen.Hex(p.k) + "=" + gen.Hex(p.v)
	}
	return strings.Join(out, ",")
}

func (q request) encode() string {
	body := "n"
	switch q.bkind {
	case 'r':
		body = "r:" + gen.Hex(q.braw)
	case 'f':
		body = "f:" + encPairs(q.bform)
	case 'j':
		body = "j:" + encPairs(q.bform)
	case 'm':
		body = "m:" + encPairs(q.bform) + "~" + encPairs(q.bfiles)
	case 'z':
		body = "z:" + gen.HexList(q.encs) + ":" + gen.HexList(q.layers)
	}
	return strings.Join([]string{gen.I(q.proto), gen.Hex(q.name), gen.Hex(q.rest), encPairs(q.query),
		encPairs(q.headers), encPairs(q.cookies), gen.Hex(q.host), body}, "|")
}

func unhex(s string) (string, bool) {
	if s == "-" {
		return "", true
	}
	b, err := hex.DecodeString(s)
	return string(b), err == nil
}

func unhexList(s string) ([]string, bool) {
	if s == "-" {
		return nil, true
	}
	var out []string
	for _, p := range strings.Split(s, ",") {
		if p == "_" {
			out = append(out, "")
			continue
		}
		b, err := hex.DecodeString(p)
		if err != nil || len(b) == 0 {
			return nil, false
		}
		out = append(out, string(b))
	}
	return out, true
}

func decPairs(s string) ([]kv, bool) {
	if s == "-" {
		return nil, true
	}
	var out []kv
	for _, p := range strings.Split(s, ",") {
		i := strings.IndexByte(p, '=')
		if i < 0 {
			return nil, false
		}
		k, ok1 := unhex(p[:i])
		v, ok2 := unhex(p[i+1:])
		if !ok1 || !ok2 {
			return nil, false
		}
		out = append(out, kv{k, v})
	}
	return out, true
}

func decodeRequest(s string) (q request, ok bool) {
	f := strings.Split(s, "|")
	if len(f) != 8 {
		return q, false
	}
	switch f[0] {
	case "0":
	case "1":
		q.proto = 1
	default:
		return q, false
	}
	var o [6]bool
	q.name, o[0] = unhex(f[1])
	q.rest, o[1] = unhex(f[2])
	q.query, o[2] = decPairs(f[3])
	q.headers, o[3] = decPairs(f[4])
	q.cookies, o[4] = decPairs(f[5])
	q.host, o[5] = unhex(f[6])
	for _, b := range o {
		if !b {
			return q, false
		}
	}
	switch {
	case f[7] == "n":
		q.bkind = 'n'
	case strings.HasPrefix(f[7], "r:"):
		q.bkind = 'r'
		q.braw, ok = unhex(f[7][2:])
		if !ok {
			return q, false
		}
	case strings.HasPrefix(f[7], "f:"), strings.HasPrefix(f[7], "j:"):
		q.bkind = f[7][0]
		q.bform, ok = decPairs(f[7][2:])
		if !ok {
			return q, false
		}
	case strings.HasPrefix(f[7], "m:"):
		q.bkind = 'm'
		parts := strings.Split(f[7][2:], "~")
		if len(parts) != 2 {
			return q, false
		}
		var ok1, ok2 bool
		q.bform, ok1 = decPairs(parts[0])
		q.bfiles, ok2 = decPairs(parts[1])
		if !ok1 || !ok2 {
			return q, false
		}
	case strings.HasPrefix(f[7], "z:"):
		q.bkind = 'z'
		parts := strings.Split(f[7][2:], ":")
		if len(parts) != 2 {
			return q, false
		}
		var ok1, ok2 bool
		q.encs, ok1 = unhexList(parts[0])
		q.layers, ok2 = unhexList(parts[1])
		if !ok1 || !ok2 {
			return q, false
		}
	default:
		return q, false
	}
	return q, q.valid()
}

// token characters the structured vocabulary is made of; everything the model has to interpret stays
// inside this alphabet (no escaping, no separators), so request assembly is plain concatenation.
func isWord(s string, extra string) bool {
	for i := 0; i < len(s); i++ {
		c := s[i]
		if c >= 'a' && c <= 'z' || c >= 'A' && c <= 'Z' || c >= '0' && c <= '9' || strings.IndexByte(extra, c) >= 0 {
			continue
		}
		return false
	}
	return true
}

// bracketsOK: a query / form key may use the bracket notation of the binders (a[b], a[]); brackets
// must be balanced and not nested.
func bracketsOK(k string) bool {
	open := false
	for i := 0; i < len(k); i++ {
		switch k[i] {
		case '[':
			if open || i == 0 {
				return false
			}
			open = true
		case ']':
			if !open {
				return false
			}
			open = false
		}
	}
	return !open
}

func decodeLayer(enc string, src []byte) ([]byte, bool) {
	var out []byte
	var err error
	switch enc {
	case "gzip":
		out, err = fasthttp.AppendGunzipBytes(nil, src)
	case "deflate":
		out, err = fasthttp.AppendInflateBytes(nil, src)
	case "br", "brotli":
		out, err = fasthttp.AppendUnbrotliBytes(nil, src)
	case "zstd":
		out, err = fasthttp.AppendUnzstdBytes(nil, src)
	default:
		return nil, false
	}
	return out, err == nil
}

func supportedEnc(e string) bool {
	switch e {
	case "gzip", "deflate", "br", "brotli", "zstd":
		return true
	}
	return false
}

func (q request) valid() bool {
	if q.name == "" || !isWord(q.name, "._~") || !isWord(q.rest, "._~/") || q.host == "" || !isWord(q.host, ".-:") {
		return false
	}
	for _, p := range q.query {
		if p.k == "" || !isWord(p.k, "_[]") || !bracketsOK(p.k) || !isWord(p.v, "._~-,") {
			return false
		}
	}
	for _, p := range q.bform {
		if p.k == "" || !isWord(p.k, "_[]") || !bracketsOK(p.k) || !isWord(p.v, "._~-,") {
			return false
		}
		if q.bkind == 'j' && (!isWord(p.k, "_") || !isWord(p.v, "._~-")) {
			return false
		}
	}
	for _, p := range q.bfiles {
		if p.k == "" || !isWord(p.k, "_") || p.v == "" || !isWord(p.v, "._-") {
			return false
		}
	}
	if q.bkind != 'm' && len(q.bfiles) > 0 {
		return false
	}
	for _, p := range q.cookies {
		if p.k == fiber.FlashCookieName {
			// raw msgpack flash cookie: anything a header value may carry, no cookie separators
			for i := 0; i < len(p.v); i++ {
				if c := p.v[i]; c < 0x21 || c == 0x7f || c == ';' || c == '"' || c == ',' || c == '\\' {
					return false
				}
			}
			continue
		}
		if p.k == "" || !isWord(p.k, "_") || !isWord(p.v, "._~-") {
			return false
		}
	}
	for _, p := range q.headers {
		if p.k == "" || !isWord(p.k, "-") || !isWord(p.v, "._~-/=,;:* ") || strings.HasPrefix(p.v, " ") || strings.HasSuffix(p.v, " ") {
			return false
		}
		switch strings.ToLower(p.k) {
		case "host", "cookie", "content-length", "content-type", "connection", "transfer-encoding", "content-encoding", "expect", "trailer":
			return false
		}
	}
	if q.bkind == 'z' {
		// the layers must be what the encodings say: layers[i+1] = decode(encs[i], layers[i]) for the
		// leading run of supported encodings, and nothing behind it
		if len(q.encs) == 0 || len(q.encs) > 3 || len(q.layers) == 0 {
			return false
		}
		n := 0
		for n < len(q.encs) && supportedEnc(q.encs[n]) {
			n++
		}
		if len(q.layers) != n+1 {
			return false
		}
		for _, e := range q.encs {
			if e == "" || !isWord(e, "-") {
				return false
			}
		}
		for i := 0; i < n; i++ {
			d, ok := decodeLayer(q.encs[i], []byte(q.layers[i]))
			if !ok || string(d) != q.layers[i+1] {
				return false
			}
		}
		return true
	}
	return isWord(q.braw, "._~- ")
}

func joinPairs(ps []kv, eq, sep string) string {
	out := make([]string, len(ps))
	for i, p := range ps {
		out[i] = p.k + eq + p.v
	}
	return strings.Join(out, sep)
}

func (q request) path() string { return "/u/" + q.name + "/-/" + q.rest }

func (q request) uri() string {
	if len(q.query) == 0 {
		return q.path()
	}
	return q.path() + "?" + joinPairs(q.query, "=", "&")
}

func (q request) body() (ctype, body string) {
	switch q.bkind {
	case 'r':
		return "text/plain", q.braw
	case 'f':
		return "application/x-www-form-urlencoded", joinPairs(q.bform, "=", "&")
	case 'j':
		parts := make([]string, len(q.bform))
		for i, p := range q.bform {
			parts[i] = `"` + p.k + `":"` + p.v + `"`
		}
		return "application/json", "{" + strings.Join(parts, ",") + "}"
	case 'm':
		var b strings.Builder
		for _, p := range q.bform {
			b.WriteString("--" + boundary + "\r\nContent-Disposition: form-data; name=\"" + p.k + "\"\r\n\r\n" + p.v + "\r\n")
		}
		for _, p := range q.bfiles {
			b.WriteString("--" + boundary + "\r\nContent-Disposition: form-data; name=\"" + p.k + "\"; filename=\"" + p.v +
				"\"\r\nContent-Type: text/plain\r\n\r\ncontent of " + p.v + "\r\n")
		}
		b.WriteString("--" + boundary + "--\r\n")
		return "multipart/form-data; boundary=" + boundary, b.String()
	case 'z':
		return "text/plain", q.layers[0]
	}
	return "", ""
}

// wire assembles the request exactly as a client would send it.
func (q request) wire() []byte {
	var b bytes.Buffer
	method := "GET"
	if q.bkind != 'n' {
		method = "POST"
	}
	proto := "HTTP/1.1"
	if q.proto == 1 {
		proto = "HTTP/1.0"
	}
	fmt.Fprintf(&b, "%s %s %s\r\nHost: %s\r\n", method, q.uri(), proto, q.host)
	for _, h := range q.headers {
		fmt.Fprintf(&b, "%s: %s\r\n", h.k, h.v)
	}
	if len(q.cookies) > 0 {
		fmt.Fprintf(&b, "Cookie: %s\r\n", joinPairs(q.cookies, "=", "; "))
	}
	if q.bkind == 'z' {
		fmt.Fprintf(&b, "Content-Encoding: %s\r\n", strings.Join(q.encs, ", "))
	}
	if q.bkind != 'n' {
		ct, body := q.body()
		fmt.Fprintf(&b, "Content-Type: %s\r\nContent-Length: %d\r\n\r\n%s", ct, len(body), body)
	} else {
		b.WriteString("\r\n")
	}
	return b.Bytes()
}

// ---------------------------------------------------------------------------------------------
// generator

var (
	longWord   = strings.Repeat("lorem-ipsum.", 17) + "end"  // 207 bytes: longer than any small-string fast path
	hugeWord   = strings.Repeat("0123456789abcdef.", 80)     // 1360 bytes
	bigBody    = strings.Repeat("big-body 0123456789 ", 260) // 5200 bytes: beyond a 4 KiB threshold
	hugeBody   = strings.Repeat("huge body-", 7000)          // 70000 bytes: beyond 64 KiB
	longName   = strings.Repeat("Nm0~", 40)                  // 160 bytes
	names      = []string{"alice", "bobby", "carol", "x", "Zed.9", "a~b", "longer", "ALICE", "al1ce", longName}
	rests      = []string{"", "f", "file.txt", "a/b/c", "img/logo.png", "zzzzzzzz", "A/B", strings.Repeat("seg/", 30) + "leaf"}
	qkeys      = []string{"name", "tag", "q", "id", "page", "f[a]", "l[]"}
	hkeys      = []string{"X-Custom-A", "X-Token", "Accept", "Accept-Language", "Accept-Charset", "Accept-Encoding", "X-Forwarded-For", "X-Forwarded-Host", "X-Forwarded-Proto", "Referer", "Range", "If-None-Match", "User-Agent", "X-Requested-With"}
	ckeys      = []string{"sid", "theme", "lang"}
	fkeys      = []string{"user", "note", "name", "tag", "f[a]"}
	filekeys   = []string{"upload", "doc"}
	filenames  = []string{"a.txt", "report-2024.csv", "x", strings.Repeat("long-file-name_", 8) + ".bin"}
	hostsV     = []string{"example.com", "a.b.example.com:8080", "localhost:3000", "api.test", "x.y.z.w.example.org"}
	words      = []string{"alpha", "bravo", "delta", "omega", "v1", "0", "42", "true", "a.b", "x~y", "AbC", "zz-top", "m", longWord}
	listWords  = []string{"a,b", "x,y,z", "one,two", "k,"}
	encNames   = []string{"gzip", "deflate", "br", "zstd", "brotli"}
	badEncs    = []string{"identity", "GZIP", "compress", "x-custom"}
	hvalsByKey = map[string][]string{
		"Accept":            {"text/html", "application/json", "text/html, application/json;q=0.8", "*/*", "text/html;Level=1, application/json", "text/plain;Charset=utf-8;q=0.9, text/html;Version=2;q=0.5"},
		"Accept-Language":   {"en", "de, en;q=0.5", "fr", "en;Region=gb;q=0.8, de"},
		"Accept-Charset":    {"utf-8", "iso-8859-1, utf-8;q=0.7"},
		"Accept-Encoding":   {"gzip", "br, gzip", "identity", "gzip;Level=9;q=0.5, br"},
		"X-Forwarded-For":   {"1.2.3.4", "1.2.3.4, 5.6.7.8", "9.9.9.9, 10.0.0.1, 8.8.8.8", "unknown, 1.2.3.4", "1.2.3.400"},
		"X-Forwarded-Host":  {"proxy.example.com", "front.test, back.test", "a.b.c.proxy.example.org:8443"},
		"X-Forwarded-Proto": {"https", "http", "https, http"},
		"Referer":           {"http://ref.example.com/page", "https://other.test/a/b"},
		"Range":             {"bytes=0-99", "bytes=5-10,20-30", "items=1-2"},
		"If-None-Match":     {"abc", "W/xyz"},
		"User-Agent":        {"curl/8.0", "Mozilla/5.0"},
		"X-Requested-With":  {"XMLHttpRequest", "other"},
	}
)

func genPairs(r *gen.Rand, keys []string, max int, lists bool) []kv {
	n := r.Intn(max + 1)
	out := make([]kv, 0, n)
	for i := 0; i < n; i++ {
		v := gen.Pick(r, words)
		if lists && r.Chance(1, 4) {
			v = gen.Pick(r, listWords)
		}
		if r.Chance(1, 40) {
			v = hugeWord
		}
		out = append(out, kv{gen.Pick(r, keys), v})
	}
	return out
}

func genHeaders(r *gen.Rand) []kv {
	n := r.Intn(6)
	seen := map[string]bool{}
	var out []kv
	for i := 0; i < n; i++ {
		k := gen.Pick(r, hkeys)
		if seen[k] {
			continue // single-valued headers only: the modelled Get() is then unambiguous
		}
		seen[k] = true
		if vs, ok := hvalsByKey[k]; ok {
			out = append(out, kv{k, gen.Pick(r, vs)})
		} else if r.Chance(1, 30) {
			out = append(out, kv{k, hugeWord})
		} else {
			out = append(out, kv{k, gen.Pick(r, words)})
		}
	}
	return out
}

func encodeLayer(enc string, src []byte) []byte {
	switch enc {
	case "gzip":
		return fasthttp.AppendGzipBytes(nil, src)
	case "deflate":
		return fasthttp.AppendDeflateBytes(nil, src)
	case "br", "brotli":
		return fasthttp.AppendBrotliBytes(nil, src)
	case "zstd":
		return fasthttp.AppendZstdBytes(nil, src)
	}
	return src
}

// compressed builds the layers for a Content-Encoding list: fiber decodes in HEADER order (ctx.go
// tryDecodeBodyInOrder), so the wire body is encs[0](encs[1](... plain)). An unsupported element ends
// the decodable prefix; what is behind it is irrelevant.
func compressed(plain string, encs []string) (layers []string) {
	n := 0
	for n < len(encs) && supportedEnc(encs[n]) {
		n++
	}
	layers = make([]string, n+1)
	cur := []byte(plain)
	layers[n] = plain
	for i := n - 1; i >= 0; i-- {
		cur = encodeLayer(encs[i], cur)
		layers[i] = string(cur)
	}
	return layers
}

func genRequest(r *gen.Rand) request {
	q := request{name: gen.Pick(r, names), rest: gen.Pick(r, rests), host: gen.Pick(r, hostsV)}
	if r.Chance(1, 4) {
		q.proto = 1
	}
	q.query = genPairs(r, qkeys, 3, true)
	q.headers = genHeaders(r)
	q.cookies = dedupKeys(genPairs(r, ckeys, 2, false))
	if r.Chance(1, 4) {
		var msgs [][3]string
		for i := r.Intn(2) + 1; i > 0; i-- {
			msgs = append(msgs, [3]string{gen.Pick(r, []string{"status", "name", "note"}), gen.Pick(r, words[:13]), gen.Pick(r, []string{"0", "1"})})
		}
		q.cookies = append(q.cookies, kv{fiber.FlashCookieName, flashCookie(msgs)})
	}
	switch r.Intn(8) {
	case 0:
		q.bkind, q.braw = 'r', gen.Pick(r, []string{"", "hello world", "payload-1", "zzzzzzzzzzzzzzzzzzzz", longWord + " " + longWord})
		if r.Chance(1, 8) {
			q.braw = bigBody
		} else if r.Chance(1, 25) {
			q.braw = hugeBody
		}
	case 1, 2:
		q.bkind, q.bform = 'f', genPairs(r, fkeys, 3, true)
	case 3:
		q.bkind, q.bform = 'j', dedupKeys(genPairs(r, []string{"name", "note"}, 2, false))
	case 4:
		q.bkind, q.bform = 'm', genPairs(r, fkeys, 3, true)
		for i := r.Intn(3); i > 0; i-- {
			q.bfiles = append(q.bfiles, kv{gen.Pick(r, filekeys), gen.Pick(r, filenames)})
		}
	case 5:
		q.bkind = 'z'
		plain := gen.Pick(r, []string{"hello world", "payload-1", longWord, "z"})
		if r.Chance(1, 10) {
			plain = bigBody
		}
		for i := r.Intn(3) + 1; i > 0; i-- {
			if r.Chance(1, 4) {
				q.encs = append(q.encs, gen.Pick(r, badEncs))
			} else {
				q.encs = append(q.encs, gen.Pick(r, encNames))
			}
		}
		q.layers = compressed(plain, q.encs)
	default:
		q.bkind = 'n'
	}
	return q
}

// flashCookie encodes messages exactly as redirect_msgp.go MarshalMsg does (short strings, level as
// positive fixint >= 0x21 so that the header value carries no control byte).
func flashCookie(msgs [][3]string) string {
	var b []byte
	b = append(b, 0x90|byte(len(msgs)))
	for _, m := range msgs {
		b = append(b, 0x84, 0xa3, 'k', 'e', 'y', 0xa0|byte(len(m[0])))
		b = append(b, m[0]...)
		b = append(b, 0xa5, 'v', 'a', 'l', 'u', 'e', 0xa0|byte(len(m[1])))
		b = append(b, m[1]...)
		b = append(b, 0xa5, 'l', 'e', 'v', 'e', 'l', 0x21)
		b = append(b, 0xaa, 'i', 's', 'O', 'l', 'd', 'I', 'n', 'p', 'u', 't')
		if m[2] == "1" {
			b = append(b, 0xc3)
		} else {
			b = append(b, 0xc2)
		}
	}
	return string(b)
}

func dedupKeys(ps []kv) []kv {
	seen := map[string]bool{}
	var out []kv
	for _, p := range ps {
		if !seen[p.k] {
			seen[p.k] = true
			out = append(out, p)
		}
	}
	return out
}

// rot maps every letter/digit of s to a different one, keeping the length: the same-shaped later
// request that overwrites recycled buffers byte for byte with other content.
func rot(s string) string {
	b := []byte(s)
	for i, c := range b {
		switch {
		case c >= 'a' && c <= 'z':
			b[i] = 'a' + (c-'a'+13)%26
		case c >= 'A' && c <= 'Z':
			b[i] = 'A' + (c-'A'+13)%26
		case c >= '0' && c <= '9':
			b[i] = '0' + (c-'0'+5)%10
		}
	}
	return string(b)
}

func rotPairs(ps []kv) []kv {
	out := make([]kv, len(ps))
	for i, p := range ps {
		if p.k == fiber.FlashCookieName {
			out[i] = kv{p.k, strings.NewReplacer("alpha", "omega", "bravo", "delta", "omega", "alpha", "delta", "bravo", "status", "statuz").Replace(p.v)}
			continue
		}
		out[i] = kv{p.k, rot(p.v)}
	}
	return out
}

// sameShape derives a request with identical layout (all lengths equal) but different contents.
func sameShape(q request) request {
	o := q
	o.name, o.rest, o.host, o.braw = rot(q.name), rot(q.rest), rot(q.host), rot(q.braw)
	o.query, o.cookies, o.bform, o.bfiles = rotPairs(q.query), rotPairs(q.cookies), rotPairs(q.bform), rotPairs(q.bfiles)
	o.headers = make([]kv, len(q.headers))
	for i, h := range q.headers {
		o.headers[i] = kv{h.k, rot(h.v)}
	}
	if q.bkind == 'z' {
		o.encs = append([]string(nil), q.encs...)
		o.layers = compressed(rot(q.layers[len(q.layers)-1]), q.encs)
	}
	o.proto = 1 - q.proto
	return o
}

// ---------------------------------------------------------------------------------------------
// capturing accessor values

type captured struct {
	id     string
	vals   []reflect.Value
	during string
	end    string
	after  string
}

var (
	tErr  = reflect.TypeOf((*error)(nil)).Elem()
	tTime = reflect.TypeOf(time.Time{})
)

// followPtr: pointers are followed into the objects a handler receives from fiber itself (Route) and
// from mime/multipart (Form, FileHeader); never into fasthttp / net / tls objects.
func followPtr(t reflect.Type) bool {
	if t.Kind() != reflect.Ptr || t.Elem().Kind() != reflect.Struct {
		return false
	}
	switch t.Elem().PkgPath() {
	case "", "github.com/gofiber/fiber/v3", "mime/multipart":
		return true
	}
	return false
}

// hasText reports whether values of type t can hold text obtained from the request.
func hasText(t reflect.Type, depth int) bool {
	if depth > 5 || t == tTime {
		return false
	}
	switch t.Kind() {
	case reflect.String:
		return true
	case reflect.Slice, reflect.Array:
		return t.Elem().Kind() == reflect.Uint8 || hasText(t.Elem(), depth+1)
	case reflect.Map:
		return hasText(t.Key(), depth+1) || hasText(t.Elem(), depth+1)
	case reflect.Struct:
		for i := 0; i < t.NumField(); i++ {
			if t.Field(i).IsExported() && hasText(t.Field(i).Type, depth+1) {
				return true
			}
		}
	case reflect.Ptr:
		return followPtr(t) && hasText(t.Elem(), depth+1)
	}
	return false
}

// flatten renders the text content of v as a list of byte strings (maps in key order).
func flatten(v reflect.Value, out *[]string, depth int) {
	if depth > 8 || !v.IsValid() {
		return
	}
	switch v.Kind() {
	case reflect.String:
		*out = append(*out, v.String())
	case reflect.Slice, reflect.Array:
		if v.Type().Elem().Kind() == reflect.Uint8 {
			if v.Kind() == reflect.Slice {
				*out = append(*out, string(v.Bytes()))
			}
			return
		}
		for i := 0; i < v.Len(); i++ {
			flatten(v.Index(i), out, depth+1)
		}
	case reflect.Map:
		type ent struct {
			k string
			v reflect.Value
		}
		var es []ent
		it := v.MapRange()
		for it.Next() {
			var ks []string
			flatten(it.Key(), &ks, depth+1)
			es = append(es, ent{strings.Join(ks, "\x1f"), it.Value()})
		}
		sort.Slice(es, func(i, j int) bool { return es[i].k < es[j].k })
		for _, e := range es {
			*out = append(*out, e.k)
			flatten(e.v, out, depth+1)
		}
	case reflect.Struct:
		if v.Type() == tTime {
			return
		}
		for i := 0; i < v.NumField(); i++ {
			if v.Type().Field(i).IsExported() {
				flatten(v.Field(i), out, depth+1)
			}
		}
	case reflect.Interface, reflect.Ptr:
		if v.Type().Implements(tErr) {
			if v.IsNil() {
				*out = append(*out, "")
			} else {
				*out = append(*out, "err")
			}
			return
		}
		if v.Kind() == reflect.Ptr && followPtr(v.Type()) {
			if v.IsNil() {
				*out = append(*out, "nil")
			} else {
				flatten(v.Elem(), out, depth+1)
			}
		}
	case reflect.Int, reflect.Int8, reflect.Int16, reflect.Int32, reflect.Int64:
		*out = append(*out, fmt.Sprint(v.Int()))
	case reflect.Uint, reflect.Uint8, reflect.Uint16, reflect.Uint32, reflect.Uint64:
		*out = append(*out, fmt.Sprint(v.Uint()))
	case reflect.Bool:
		*out = append(*out, fmt.Sprint(v.Bool()))
	}
}

func (c *captured) read() string {
	var out []string
	for _, v := range c.vals {
		flatten(v, &out, 0)
	}
	return gen.HexList(out)
}

// keys the key-taking accessors are asked for
func keysFor(q request) []string {
	seen := map[string]bool{}
	var ks []string
	add := func(k string) {
		if !seen[k] {
			seen[k] = true
			ks = append(ks, k)
		}
	}
	add("name")
	add("NAME")
	add("tenant")
	add("*")
	for _, p := range q.query {
		add(p.k)
	}
	for _, p := range q.headers {
		add(p.k)
	}
	for _, p := range q.cookies {
		add(p.k)
	}
	for _, p := range q.bform {
		add(p.k)
	}
	for _, p := range q.bfiles {
		add(p.k)
	}
	add("Host")
	add("Content-Type")
	add("Content-Length")
	add("Content-Encoding")
	add("Cookie")
	add("X-Resp")
	add("X-Echo")
	add("zz-missing")
	return ks
}

// keysOf: the keys a keyed accessor is asked for. Known families get the keys of their own source plus
// two foreign ones (a present name of another source, a missing one); an accessor the harness does not
// know gets every key.
func keysOf(method string, q request, all []string) []string {
	seen := map[string]bool{}
	var ks []string
	add := func(k ...string) {
		for _, x := range k {
			if !seen[x] {
				seen[x] = true
				ks = append(ks, x)
			}
		}
	}
	pairs := func(ps []kv) {
		for _, p := range ps {
			add(p.k)
		}
	}
	switch method {
	case "Params":
		add("name", "NAME", "tenant", "*", "zz-missing")
	case "Query":
		pairs(q.query)
		add("name", "zz-missing")
	case "FormValue":
		pairs(q.query)
		pairs(q.bform)
		add("name", "upload", "zz-missing")
	case "FormFile":
		pairs(q.bfiles)
		add("name", "upload", "zz-missing")
	case "Cookies":
		pairs(q.cookies)
		add("name", "sid", "zz-missing")
	case "Get", "GetReqHeader":
		pairs(q.headers)
		add("Host", "Content-Type", "Content-Length", "Content-Encoding", "Cookie", "name", "zz-missing")
	case "GetRespHeader":
		add("X-Resp", "X-Echo", "Content-Type", "Host", "zz-missing")
	default:
		return all
	}
	return ks
}

type bindTarget struct {
	Name  string   `query:"name" form:"name" header:"X-Custom-A" respHeader:"X-Resp" cookie:"sid" uri:"name" json:"name"`
	Tag   []string `query:"tag" form:"tag" header:"X-Token" respHeader:"X-Echo" cookie:"theme"`
	Note  string   `query:"q" form:"note" header:"Referer" cookie:"lang" json:"note"`
	Other string   `query:"id" form:"user" header:"User-Agent"`
	List  []string `query:"l" form:"l" header:"Accept"`
	Lang  []string `header:"Accept-Language" cookie:"lang"`
}

type capturer struct {
	q      request
	caps   []*captured
	prefix string          // "" for the endpoint handler, "Mw." / "H1." for the handler in front of it
	focus  map[string]bool // nil = every accessor; otherwise only these (see suspects)
}

// methodKey: the accessor an id belongs to, as the suspects are keyed (Pre./Req./Res. twins, generic
// instantiations and bind targets fall together).
func methodKey(id string) string {
	for _, p := range []string{"Pre.", "Req.", "Res."} {
		id = strings.TrimPrefix(id, p)
	}
	if i := strings.IndexAny(id, "(["); i >= 0 {
		id = id[:i]
	}
	if strings.HasPrefix(id, "Bind.") {
		if i := strings.IndexByte(id, ':'); i >= 0 {
			id = id[:i]
		}
	}
	return id
}

func (cc *capturer) call(id string, f func() []reflect.Value) {
	if cc.focus != nil && !cc.focus[methodKey(id)] {
		return
	}
	cp := &captured{id: cc.prefix + id}
	func() {
		defer func() {
			if r := recover(); r != nil {
				cp.vals = []reflect.Value{reflect.ValueOf("panic")}
			}
		}()
		cp.vals = f()
	}()
	cp.during = cp.read()
	cc.caps = append(cc.caps, cp)
}

// probeIface calls every exported method of interface type it (implemented by v) that yields text.
func (cc *capturer) probeIface(prefix string, v reflect.Value, it reflect.Type, keys []string) {
	for i := 0; i < it.NumMethod(); i++ {
		m := it.Method(i)
		if m.PkgPath != "" {
			continue // unexported interface methods cannot be called from outside the package
		}
		mt := m.Type
		text := false
		pred := mt.NumOut() > 0 // predicates (Fresh, Is, XHR ...): called too, a handler calls them in between
		for o := 0; o < mt.NumOut(); o++ {
			if hasText(mt.Out(o), 0) {
				text = true
			}
			if mt.Out(o).Kind() != reflect.Bool {
				pred = false
			}
		}
		if !text && !pred {
			continue
		}
		fn := v.MethodByName(m.Name)
		nin := mt.NumIn()
		fixed := nin
		if mt.IsVariadic() {
			fixed--
		}
		name := prefix + m.Name
		switch {
		case fixed == 0 && mt.IsVariadic() && mt.In(0).Elem().Kind() == reflect.String && strings.HasPrefix(m.Name, "Accepts"):
			offers := map[string][]string{"Accepts": {"html", "json", "text/plain"}, "AcceptsCharsets": {"utf-8", "iso-8859-1"},
				"AcceptsEncodings": {"gzip", "br"}, "AcceptsLanguages": {"en", "de", "fr"}}[m.Name]
			args := make([]reflect.Value, len(offers))
			for j, o := range offers {
				args[j] = reflect.ValueOf(strings.Clone(o))
			}
			cc.call(name, func() []reflect.Value { return fn.Call(args) })
		case fixed == 0:
			cc.call(name, func() []reflect.Value { return fn.Call(nil) })
		case fixed == 1 && mt.In(0).Kind() == reflect.String:
			fam := m.Name
			if prefix == "Res." && fam == "Get" {
				fam = "GetRespHeader"
			}
			for _, k := range keysOf(fam, cc.q, keys) {
				k := k
				cc.call(name+"("+k+")", func() []reflect.Value { return fn.Call([]reflect.Value{reflect.ValueOf(k)}) })
			}
		case fixed == 1 && mt.In(0).Kind() == reflect.Int:
			cc.call(name+"(1000)", func() []reflect.Value { return fn.Call([]reflect.Value{reflect.ValueOf(1000)}) })
		default:
			// accessor with a signature the harness cannot drive generically: zero arguments
			args := make([]reflect.Value, fixed)
			for j := range args {
				args[j] = reflect.Zero(mt.In(j))
			}
			cc.call(name+"(zero)", func() []reflect.Value { return fn.Call(args) })
		}
	}
}

// captureAll calls every text-yielding accessor on c. Panics of an accessor are recorded as a value.
func captureAll(c fiber.Ctx, q request, prefix string, focus map[string]bool) []*captured {
	cc := &capturer{q: q, prefix: prefix, focus: focus}
	call := cc.call
	keys := keysFor(q)
	// First of all the getters that expose request storage most directly, BEFORE any other accessor has
	// run: whatever a later accessor does to the request (in whatever order the reflection loop calls
	// them) shows up when these are re-read at the end of the handler.
	one := func(v any) []reflect.Value { return []reflect.Value{reflect.ValueOf(v)} }
	for _, k := range keysOf("Get", q, keys) {
		k := k
		call("Pre.Get("+k+")", func() []reflect.Value { return one(c.Get(k)) })
	}
	for _, k := range keysOf("Cookies", q, keys) {
		k := k
		call("Pre.Cookies("+k+")", func() []reflect.Value { return one(c.Cookies(k)) })
	}
	for _, k := range keysOf("Query", q, keys) {
		k := k
		call("Pre.Query("+k+")", func() []reflect.Value { return one(c.Query(k)) })
	}
	for _, k := range keysOf("FormValue", q, keys) {
		k := k
		call("Pre.FormValue("+k+")", func() []reflect.Value { return one(c.FormValue(k)) })
	}
	call("Pre.Params(name)", func() []reflect.Value { return one(c.Params("name")) })
	call("Pre.Params(tenant)", func() []reflect.Value { return one(c.Params("tenant")) })
	call("Pre.Params(*)", func() []reflect.Value { return one(c.Params("*")) })
	call("Pre.OriginalURL", func() []reflect.Value { return one(c.OriginalURL()) })
	call("Pre.Path", func() []reflect.Value { return one(c.Path()) })
	call("Pre.Host", func() []reflect.Value { return one(c.Host()) })
	call("Pre.Protocol", func() []reflect.Value { return one(c.Protocol()) })
	call("Pre.BodyRaw", func() []reflect.Value { return one(c.BodyRaw()) })
	call("Pre.Queries", func() []reflect.Value { return one(c.Queries()) })
	call("Pre.GetReqHeaders", func() []reflect.Value { return one(c.GetReqHeaders()) })
	cc.probeIface("", reflect.ValueOf(c), reflect.TypeOf((*fiber.Ctx)(nil)).Elem(), keys)
	cc.probeIface("Req.", reflect.ValueOf(c.Req()), reflect.TypeOf((*fiber.Req)(nil)).Elem(), keys)
	cc.probeIface("Res.", reflect.ValueOf(c.Res()), reflect.TypeOf((*fiber.Res)(nil)).Elem(), keys)
	// generic helpers
	for _, k := range keysOf("Query", q, keys) {
		k := k
		call("Query[string]("+k+")", func() []reflect.Value { return []reflect.Value{reflect.ValueOf(fiber.Query[string](c, k))} })
		call("Query[[]byte]("+k+")", func() []reflect.Value { return []reflect.Value{reflect.ValueOf(fiber.Query[[]byte](c, k))} })
	}
	for _, k := range keysOf("Params", q, keys) {
		k := k
		call("Params[string]("+k+")", func() []reflect.Value { return []reflect.Value{reflect.ValueOf(fiber.Params[string](c, k))} })
		call("Params[[]byte]("+k+")", func() []reflect.Value { return []reflect.Value{reflect.ValueOf(fiber.Params[[]byte](c, k))} })
	}
	for _, k := range keysOf("GetReqHeader", q, keys) {
		k := k
		call("GetReqHeader[string]("+k+")", func() []reflect.Value {
			return []reflect.Value{reflect.ValueOf(fiber.GetReqHeader[string](c, k))}
		})
		call("GetReqHeader[[]byte]("+k+")", func() []reflect.Value {
			return []reflect.Value{reflect.ValueOf(fiber.GetReqHeader[[]byte](c, k))}
		})
	}
	// binders: struct, map[string]string, map[string][]string targets
	type binder struct {
		name string
		f    func(any) error
	}
	b := c.Bind()
	for _, bd := range []binder{{"Query", b.Query}, {"Header", b.Header}, {"Cookie", b.Cookie}, {"Form", b.Form},
		{"URI", b.URI}, {"Body", b.Body}, {"RespHeader", b.RespHeader}, {"JSON", b.JSON}, {"XML", b.XML}, {"CBOR", b.CBOR}} {
		bd := bd
		call("Bind."+bd.name+":struct", func() []reflect.Value {
			t := new(bindTarget)
			err := bd.f(t)
			return []reflect.Value{reflect.ValueOf(t).Elem(), reflect.ValueOf(&err).Elem()}
		})
		if bd.name == "JSON" || bd.name == "XML" || bd.name == "CBOR" || (bd.name == "Body" && q.bkind == 'j') {
			continue // decoders of encoding/json, encoding/xml, cbor: covered by the struct target
		}
		call("Bind."+bd.name+":map", func() []reflect.Value {
			t := map[string]string{}
			err := bd.f(&t)
			return []reflect.Value{reflect.ValueOf(t), reflect.ValueOf(&err).Elem()}
		})
		call("Bind."+bd.name+":mapslice", func() []reflect.Value {
			t := map[string][]string{}
			err := bd.f(&t)
			return []reflect.Value{reflect.ValueOf(t), reflect.ValueOf(&err).Elem()}
		})
	}
	call("Bind.Custom:struct", func() []reflect.Value {
		t := new(bindTarget)
		err := b.Custom("echo", t)
		return []reflect.Value{reflect.ValueOf(t).Elem(), reflect.ValueOf(&err).Elem()}
	})
	// flash readers (empty unless the request carried a flash cookie; kept for table coverage)
	rd := c.Redirect()
	call("Redirect.Messages", func() []reflect.Value { return []reflect.Value{reflect.ValueOf(rd.Messages())} })
	call("Redirect.OldInputs", func() []reflect.Value { return []reflect.Value{reflect.ValueOf(rd.OldInputs())} })
	for _, k := range []string{"status", "name", "note"} {
		k := k
		call("Redirect.Message("+k+")", func() []reflect.Value { return []reflect.Value{reflect.ValueOf(rd.Message(k))} })
		call("Redirect.OldInput("+k+")", func() []reflect.Value { return []reflect.Value{reflect.ValueOf(rd.OldInput(k))} })
	}
	return cc.caps
}

// echoBinder is a custom binder (application code): it fills the target from accessors of the context.
type echoBinder struct{}

func (echoBinder) Name() string        { return "echo" }
func (echoBinder) MIMETypes() []string { return []string{"application/x-echo"} }
func (echoBinder) Parse(c fiber.Ctx, out any) error {
	if t, ok := out.(*bindTarget); ok {
		t.Name = c.Params("name")
		t.Note = c.Query("q")
		t.Other = c.Get("User-Agent")
	}
	return nil
}

// touch: what the handler of a LATER request does, so that every recycled buffer (args, cookies,
// multipart form, binder pools, flash slice, response header) is rewritten with the new contents.
func touch(c fiber.Ctx) {
	defer func() { _ = recover() }()
	_ = c.Body()
	_ = c.BodyRaw()
	_ = c.Queries()
	_ = c.FormValue("user")
	_ = c.Cookies("sid")
	_ = c.GetReqHeaders()
	_ = c.GetRespHeaders()
	_ = c.Host()
	_ = c.IPs()
	_ = c.OriginalURL()
	_ = c.String()
	_, _ = c.MultipartForm()
	m := map[string][]string{}
	_ = c.Bind().Query(&m)
	_ = c.Bind().Header(&m)
	_ = c.Bind().Cookie(&m)
	_ = c.Bind().Form(&m)
	_ = c.Bind().URI(&m)
	_ = c.Bind().RespHeader(&m)
	_ = c.Redirect().Messages()
}

// ---------------------------------------------------------------------------------------------
// driving the real code

type fakeConn struct{ raddr net.Addr }

func (fakeConn) Read([]byte) (int, error)         { return 0, io.EOF }
func (fakeConn) Write(p []byte) (int, error)      { return len(p), nil }
func (fakeConn) Close() error                     { return nil }
func (fakeConn) LocalAddr() net.Addr              { return &net.TCPAddr{IP: net.IPv4(127, 0, 0, 1), Port: 80} }
func (c fakeConn) RemoteAddr() net.Addr           { return c.raddr }
func (fakeConn) SetDeadline(time.Time) error      { return nil }
func (fakeConn) SetReadDeadline(time.Time) error  { return nil }
func (fakeConn) SetWriteDeadline(time.Time) error { return nil }

type worker struct {
	h    fasthttp.RequestHandler
	fctx *fasthttp.RequestCtx
	conn fakeConn
}

// serve does what fasthttp's connection loop does between two requests of one keep-alive
// connection (reset request/response/user values, keep every buffer), then parses the wire bytes.
func (w *worker) serve(wire []byte) error {
	w.fctx.Request.Reset()
	w.fctx.Response.Reset()
	w.fctx.ResetUserValues()
	// the read buffer bounds the size of the header block, as Config.ReadBufferSize does in a server
	if err := w.fctx.Request.Read(bufio.NewReaderSize(bytes.NewReader(wire), 64<<10)); err != nil {
		return err
	}
	w.h(w.fctx)
	return nil
}

// serveTCP drives the requests through a real server: app.Listener on a loopback TCP listener, one
// client connection at a time (re-dialled after an HTTP/1.0 exchange closed it), responses read in full
// before the next request is written, so the handler never runs concurrently with the harness.
func serveTCP(app *fiber.App, reqs []request) bool {
	ln, err := net.Listen("tcp4", "127.0.0.1:0")
	if err != nil {
		return false
	}
	done := make(chan struct{})
	go func() {
		_ = app.Listener(ln, fiber.ListenConfig{DisableStartupMessage: true})
		close(done)
	}()
	ok := true
	var conn net.Conn
	var br *bufio.Reader
	for _, q := range reqs {
		if conn == nil {
			conn, err = net.DialTimeout("tcp4", ln.Addr().String(), 5*time.Second)
			if err != nil {
				ok = false
				break
			}
			br = bufio.NewReaderSize(conn, 64<<10)
		}
		_ = conn.SetDeadline(time.Now().Add(10 * time.Second))
		if _, err = conn.Write(q.wire()); err != nil {
			ok = false
			break
		}
		var resp fasthttp.Response
		if err = resp.Read(br); err != nil || resp.StatusCode() != 200 {
			ok = false
			break
		}
		if q.proto == 1 || resp.ConnectionClose() {
			_ = conn.Close()
			conn = nil
		}
	}
	if conn != nil {
		_ = conn.Close()
	}
	_ = app.ShutdownWithTimeout(3 * time.Second)
	select {
	case <-done:
	case <-time.After(5 * time.Second):
		ok = false
	}
	return ok
}

// observe runs one case on the real code. It returns the configuration actually used: a case meant
// for the real server falls back to the simulated connection loop when the server could not be driven.
func observe(cfg config, q0 request, later []request) (used config, obs string, probed []string, ok bool) {
	var caps, caps1 []*captured
	first, first1, served := true, true, false
	focus := curFocus
	var handler func(c fiber.Ctx) error
	fc := cfg.fiber()
	switch cfg.chain {
	case "nf", "na", "uo":
		// no endpoint will be reached: the accessor set runs in the application's ErrorHandler, on a
		// context without a matched route (Route() hands out its fallback built from the raw path)
		fc.ErrorHandler = func(c fiber.Ctx, _ error) error { return handler(c) }
	}
	app := fiber.New(fc)
	app.RegisterCustomBinder(echoBinder{})
	echo := func(c fiber.Ctx, param string) {
		// response headers carrying request text: the response header storage is recycled too
		c.Set("X-Resp", "r-"+c.Params(param))
		if v := c.Get("X-Custom-A"); v != "" {
			c.Set("X-Echo", v)
		}
	}
	handler = func(c fiber.Ctx) error {
		echo(c, "name")
		if first {
			first, served = false, true
			caps = captureAll(c, q0, "", focus)
			// every accessor once more: none of them may disturb what another one handed out
			_ = captureAll(c, q0, "", focus)
			touch(c)
			for _, cp := range caps {
				cp.end = cp.read()
			}
		} else {
			touch(c)
		}
		return c.SendString("ok")
	}
	// the handler in front of the endpoint: it captures every accessor as well and keeps the values
	// while the router goes on to match another handler / route / restarts / follows a rewritten path
	front := func(c fiber.Ctx) error {
		param, prefix := "tenant", "Mw."
		if cfg.chain == "hh" {
			param, prefix = "name", "H1."
		}
		if c.Locals("c06-visited") != nil {
			return c.Next() // rr: second visit after RestartRouting
		}
		echo(c, param)
		capture := first1
		if capture {
			first1 = false
			caps1 = captureAll(c, q0, prefix, focus)
			_ = captureAll(c, q0, prefix, focus)
		}
		touch(c)
		var err error
		switch cfg.chain {
		case "rr":
			c.Locals("c06-visited", true)
			err = c.RestartRouting()
		case "po":
			c.Path("/u/ovr" + c.Params("tenant") + "/-/" + c.Params("*"))
			err = c.Next()
		default:
			err = c.Next()
		}
		if capture {
			for _, cp := range caps1 {
				cp.end = cp.read()
			}
		}
		return err
	}
	switch cfg.chain {
	case "hh":
		app.All("/u/:name/-/*", front, handler)
	case "mw", "rr":
		app.Use("/u/:tenant", front)
		app.All("/u/:name/-/*", handler)
	case "po":
		app.Use("/u/:tenant/-/*", front)
		app.All("/u/:name/-/*", handler)
	case "nf":
		app.All("/never/:name/-/*", func(c fiber.Ctx) error { return c.SendString("unreachable") })
	case "na":
		app.Delete("/u/:name/-/*", func(c fiber.Ctx) error { return c.SendString("unreachable") })
	case "uo":
		app.Use("/u/:tenant", front)
	default:
		app.All("/u/:name/-/*", handler)
	}
	if cfg.srv {
		if !serveTCP(app, append([]request{q0}, later...)) || !served {
			cfg.srv = false
			return observe(cfg, q0, later)
		}
	} else {
		w := &worker{h: app.Handler(), fctx: &fasthttp.RequestCtx{}, conn: fakeConn{&net.TCPAddr{IP: net.IPv4(10, 0, 0, 7), Port: 4242}}}
		w.fctx.Init2(w.conn, nil, false)
		if err := w.serve(q0.wire()); err != nil || !served {
			return cfg, "unserved", nil, false
		}
		for _, l := range later {
			if err := w.serve(l.wire()); err != nil {
				return cfg, "unserved", nil, false
			}
		}
	}
	caps = append(caps1, caps...)
	parts := make([]string, len(caps))
	for i, cp := range caps {
		after := "na"
		if cfg.imm {
			after = cp.read()
		}
		// compact form for the usual outcome: `id=value` stands for value/value/value (value/value/na
		// without the option)
		if cp.end == cp.during && (after == cp.during || !cfg.imm) {
			parts[i] = cp.id + "=" + cp.during
		} else {
			parts[i] = cp.id + "=" + cp.during + "/" + cp.end + "/" + after
		}
		probed = append(probed, cp.id)
	}
	return cfg, strings.Join(parts, ";"), probed, true
}

func encodeLater(later []request) string {
	if len(later) == 0 {
		return "-"
	}
	out := make([]string, len(later))
	for i, l := range later {
		out[i] = l.encode()
	}
	return strings.Join(out, ";")
}

var probedAll = map[string]bool{}

// curFocus: accessors to probe in the case being executed (nil = all of them).
var curFocus map[string]bool

// suspects reads the regenerated provenance table (the one the Lean obligation is decided on) and
// returns the accessors whose rows do not meet the criteria: a return site reachable with Immutable
// that yields alias / unknown (or a request object outside Bind), or an in-place write that is not one
// of the documented exceptions. When there are some, three cases out of four probe ONLY those accessors
// (and their Pre./Req./Res./generic twins): such a case costs a fraction of a full one, so the widened
// search that follows a broken obligation spends its budget on the accessor the obligation names, over
// more route tables and histories. nil when the table is fine, unreadable, or a conversion row is broken
// (then every accessor is affected).
func suspects() map[string]bool {
	var data []byte
	for _, p := range []string{os.Getenv("C06_FACTS"), "../../lean/FiberModel/Generated/C06Facts.lean",
		"../lean/FiberModel/Generated/C06Facts.lean", "lean/FiberModel/Generated/C06Facts.lean", "/verif/lean/FiberModel/Generated/C06Facts.lean"} {
		if p == "" {
			continue
		}
		if b, err := os.ReadFile(p); err == nil {
			data = b
			break
		}
	}
	if data == nil {
		return nil
	}
	row := regexp.MustCompile(`^\s*⟨\.(\w+), "([^"]+)", \[(.*)\], \[(.*)\]⟩,?$`)
	site := regexp.MustCompile(`⟨\.(\w+), \[([^\]]*)\]⟩`)
	out := map[string]bool{}
	for _, line := range strings.Split(string(data), "\n") {
		m := row.FindStringSubmatch(line)
		if m == nil {
			continue
		}
		kind, name, rets, writes := m[1], m[2], m[3], m[4]
		bad := false
		for _, sm := range site.FindAllStringSubmatch(rets, -1) {
			if sm[1] == "mutOnly" {
				continue
			}
			for _, a := range strings.Split(sm[2], ",") {
				switch strings.TrimSpace(a) {
				case ".alias", ".unknown", "":
					bad = true
				case ".reqobj":
					if kind != "bind" {
						bad = true
					}
				}
			}
		}
		if writes != "" {
			switch name {
			case "Path", "Body", "Req.Path", "Req.Body":
			default:
				bad = true
			}
		}
		if !bad {
			continue
		}
		switch kind {
		case "conv":
			return nil
		case "binder": // binder.QueryBinding.Bind:value -> Bind.Query (and Body, which dispatches to Form)
			n := strings.TrimPrefix(name, "binder.")
			if i := strings.Index(n, "Binding"); i > 0 {
				out["Bind."+n[:i]] = true
				out["Bind.Body"] = true
			}
		default:
			out[methodKey(name)] = true
		}
	}
	if len(out) == 0 {
		return nil
	}
	// what the suspects are built on is probed as well when a Bind source is among them
	return out
}

func emit(w *gen.Writer, id string, cfg config, q0 request, later []request) {
	want := cfg
	cfg, obs, probed, ok := observe(cfg, q0, later)
	if !ok {
		w.Count("unserved")
	}
	if want.srv && !cfg.srv {
		w.Count("srv-fallback")
	}
	for _, p := range probed {
		probedAll[p] = true
	}
	w.Case(id, cfg.encode(), q0.encode(), encodeLater(later), obs)
}

func main() {
	log.SetOutput(io.Discard)
	runtime.GOMAXPROCS(1)
	debug.SetGCPercent(400)
	o := gen.ParseFlags()
	w := gen.NewWriter(o.Out)
	defer w.Close()
	if o.Replay != "" {
		for _, f := range gen.ReplayInputs(o.Replay) {
			if len(f) < 4 {
				continue
			}
			cfg, okc := decodeConfig(f[1])
			if !okc {
				continue
			}
			q0, ok := decodeRequest(f[2])
			if !ok {
				w.Case(f[0], f[1], f[2], f[3], "invalid")
				continue
			}
			var later []request
			bad := false
			if f[3] != "-" {
				for _, s := range strings.Split(f[3], ";") {
					l, ok := decodeRequest(s)
					if !ok {
						bad = true
						break
					}
					later = append(later, l)
				}
			}
			if bad {
				w.Case(f[0], f[1], f[2], f[3], "invalid")
				continue
			}
			emit(w, f[0], cfg, q0, later)
		}
		return
	}
	root := gen.New(o.Seed)
	susp := suspects()
	maxLater := 9
	if o.Tier == "thorough" {
		maxLater = 13
	}
	for i := 0; i < o.N; i++ {
		r := root.Fork(uint64(i))
		q0 := genRequest(r)
		cfg := config{imm: !r.Chance(1, 4), cs: r.Chance(1, 4), split: r.Chance(1, 3), ph: r.Chance(1, 4), ipv: r.Chance(1, 6), tp: r.Chance(1, 6),
			srv: r.Chance(1, 40)}
		if r.Chance(2, 5) {
			cfg.chain = gen.Pick(r, []string{"hh", "mw", "mw", "rr", "po", "nf", "nf", "na", "uo"})
			if cfg.chain == "po" && !cfg.imm {
				cfg.chain = "mw" // rewriting the path is the handler's own doing: only the copies must survive it
			}
		}
		curFocus = nil
		if susp != nil && i%4 != 0 {
			curFocus = susp
			w.Count("focused")
		}
		var later []request
		n := r.Intn(maxLater)
		if cfg.imm && n == 0 {
			n = 1
		}
		for j := 0; j < n; j++ {
			switch {
			case j == 0 && r.Chance(3, 4):
				later = append(later, sameShape(q0))
				w.Count("later-same-shape")
			case r.Chance(1, 3) && len(later) > 0:
				later = append(later, sameShape(later[len(later)-1]))
			default:
				later = append(later, genRequest(r))
			}
		}
		if cfg.imm {
			w.Count("immutable")
		} else {
			w.Count("mutable")
		}
		for _, n := range cfgFlags {
			if cfg.flag(n) {
				w.Count("cfg-" + n)
			}
		}
		w.Count(fmt.Sprintf("later=%d", len(later)))
		w.Count(fmt.Sprintf("body=%c", q0.bkind))
		// every generated case must be replayable: the decoder's domain check has to accept it
		for _, q := range append([]request{q0}, later...) {
			if rq, ok := decodeRequest(q.encode()); !ok || rq.encode() != q.encode() {
				panic("generator produced a request outside the replayable vocabulary: " + q.encode())
			}
		}
		if c2, ok := decodeConfig(cfg.encode()); !ok || c2 != cfg {
			panic("generator produced a configuration that does not round-trip: " + cfg.encode())
		}
		emit(w, fmt.Sprintf("s%d.%d", o.Seed, i), cfg, q0, later)
	}
	// which accessors received a dynamic confirmation in this run (compared with the regenerated table)
	ids := make([]string, 0, len(probedAll))
	for p := range probedAll {
		ids = append(ids, p)
	}
	sort.Strings(ids)
	if len(ids) > 0 {
		w.Case("coverage", strings.Join(ids, ","))
	}
}
