// Harness for C04: builds the SAME definition tree twice with the real fiber API — once with
// sub-applications mounted (`Use(prefix, subApp)`), once with every mount replaced by a
// `Group(prefix)` at the same position — and writes, per case:
//
//	inputs : cfg, tree, params-table, requests
//	observ.: Stack() of the mount composition, Stack() of the group composition (Path, Params,
//	         #handlers per method), and the answers of both compositions to the same requests
//	         (handler trace with the params each handler saw, status, body). Each composition is
//	         built and started under its own recover: a panic at registration / app.Handler() /
//	         startup is the observation `startup-panic` of that side (stack and every answer).
//
// Line:  case id cfg tree ptable reqs | stackMount stackGroup resMount resGroup
//
// tree  : tokens joined by ','
//
//	R:<m.m>:<hexpath>:<hs>     router.Add(methods, path, hs...)
//	U:<hexprefix>:<hs>         router.Use(prefix, hs...)
//	G:<hexprefix>:<hs|-> … E   router.Group(prefix, hs...) then the items on that group
//	T:<hexpath> … E            router.Route(path) with items A:<m.m>:<hs> | L:<hs> | T:… E
//	M:<hexprefix>:<flags> … E  sub := fiber.New(cfg'); items on sub; router.Use(prefix, sub)
//	                           flags = caseSensitive, strict, late (mounted before populated)
//	D:<hexprefix>              mount the SAME app object as the preceding M block once more, at this prefix
//	                           (group composition: a second group with the same registrations)
//
// hs    : handler ids joined by '.', each `<id>n` (calls Next), `<id>s` (sends "h<id>") or `<id>e`
//
//	(returns a 418 error: the reply is written by the ErrorHandler fiber selects for the path)
//
// ptable: `hexpath=hexname.hexname` joined by ',' — Params of that path as an independent
//
//	registration on a scratch app reports them (the parser is opaque to C04); `hexpath=!` when that
//	independent registration is refused (panics, e.g. more than maxParams parameters)
//
// reqs  : `<m>:<hexpath>` joined by ','
package main

import (
	"fmt"
	"io"
	"os"
	"runtime/debug"
	"sort"
	"strconv"
	"strings"

	"github.com/gofiber/fiber/v3"
	"github.com/gofiber/fiber/v3/log"
	"github.com/valyala/fasthttp"

	"verifharness/internal/gen"
)

var methods = fiber.DefaultMethods // GET HEAD POST PUT DELETE CONNECT OPTIONS TRACE PATCH

type hnd struct {
	id   int
	stop bool
	err  bool // returns an error (418) instead of replying: the reply is written by the ErrorHandler
}

type item struct {
	kind    byte // R U G T M, inside T: A L T
	ms      []int
	path    string
	hs      []hnd
	sub     []item
	cs, str bool
	late    bool
}

// ---------------------------------------------------------------- encoding

func encHs(hs []hnd) string {
	if len(hs) == 0 {
		return "-"
	}
	p := make([]string, len(hs))
	for i, h := range hs {
		c := "n"
		if h.stop {
			c = "s"
		}
		if h.err {
			c = "e"
		}
		p[i] = strconv.Itoa(h.id) + c
	}
	return strings.Join(p, ".")
}

func encMs(ms []int) string {
	p := make([]string, len(ms))
	for i, m := range ms {
		p[i] = strconv.Itoa(m)
	}
	return strings.Join(p, ".")
}

func encItems(items []item, out *[]string) {
	for _, it := range items {
		switch it.kind {
		case 'R':
			*out = append(*out, "R:"+encMs(it.ms)+":"+gen.Hex(it.path)+":"+encHs(it.hs))
		case 'A':
			*out = append(*out, "A:"+encMs(it.ms)+":"+encHs(it.hs))
		case 'L':
			*out = append(*out, "L:"+encHs(it.hs))
		case 'U':
			*out = append(*out, "U:"+gen.Hex(it.path)+":"+encHs(it.hs))
		case 'G':
			*out = append(*out, "G:"+gen.Hex(it.path)+":"+encHs(it.hs))
			encItems(it.sub, out)
			*out = append(*out, "E")
		case 'T':
			*out = append(*out, "T:"+gen.Hex(it.path))
			encItems(it.sub, out)
			*out = append(*out, "E")
		case 'M':
			*out = append(*out, "M:"+gen.Hex(it.path)+":"+gen.B(it.cs)+gen.B(it.str)+gen.B(it.late))
			encItems(it.sub, out)
			*out = append(*out, "E")
		case 'D':
			*out = append(*out, "D:"+gen.Hex(it.path))
		}
	}
}

func encTree(items []item) string {
	var out []string
	encItems(items, &out)
	if len(out) == 0 {
		return "-"
	}
	return strings.Join(out, ",")
}

func decHs(s string) []hnd {
	if s == "-" || s == "" {
		return nil
	}
	var out []hnd
	for _, p := range strings.Split(s, ".") {
		if len(p) < 2 {
			panic("bad handler " + p)
		}
		id, err := strconv.Atoi(p[:len(p)-1])
		if err != nil || (p[len(p)-1] != 'n' && p[len(p)-1] != 's' && p[len(p)-1] != 'e') {
			panic("bad handler " + p)
		}
		out = append(out, hnd{id: id, stop: p[len(p)-1] == 's', err: p[len(p)-1] == 'e'})
	}
	return out
}

func decMs(s string) []int {
	var out []int
	for _, p := range strings.Split(s, ".") {
		m, err := strconv.Atoi(p)
		if err != nil || m < 0 || m >= len(methods) {
			panic("bad method " + p)
		}
		out = append(out, m)
	}
	return out
}

// decItems parses tokens until the matching E (or end at depth 0); inReg = inside a T block.
func decItems(tok []string, pos *int, depth int, inReg bool) []item {
	var out []item
	for *pos < len(tok) {
		t := tok[*pos]
		*pos++
		if t == "E" {
			if depth == 0 {
				panic("unbalanced E")
			}
			return out
		}
		f := strings.Split(t, ":")
		switch {
		case f[0] == "R" && len(f) == 4 && !inReg:
			out = append(out, item{kind: 'R', ms: decMs(f[1]), path: gen.UnHex(f[2]), hs: decHs(f[3])})
		case f[0] == "U" && len(f) == 3 && !inReg:
			out = append(out, item{kind: 'U', path: gen.UnHex(f[1]), hs: decHs(f[2])})
		case f[0] == "G" && len(f) == 3 && !inReg:
			it := item{kind: 'G', path: gen.UnHex(f[1]), hs: decHs(f[2])}
			it.sub = decItems(tok, pos, depth+1, false)
			out = append(out, it)
		case f[0] == "M" && len(f) == 3 && len(f[2]) == 3 && !inReg:
			it := item{kind: 'M', path: gen.UnHex(f[1]), cs: f[2][0] == '1', str: f[2][1] == '1', late: f[2][2] == '1'}
			it.sub = decItems(tok, pos, depth+1, false)
			out = append(out, it)
		case f[0] == "D" && len(f) == 2 && !inReg:
			if len(out) == 0 || (out[len(out)-1].kind != 'M' && out[len(out)-1].kind != 'D') {
				panic("D without M")
			}
			out = append(out, item{kind: 'D', path: gen.UnHex(f[1])})
		case f[0] == "T" && len(f) == 2:
			it := item{kind: 'T', path: gen.UnHex(f[1])}
			it.sub = decItems(tok, pos, depth+1, true)
			out = append(out, it)
		case f[0] == "A" && len(f) == 3 && inReg:
			out = append(out, item{kind: 'A', ms: decMs(f[1]), hs: decHs(f[2])})
		case f[0] == "L" && len(f) == 2 && inReg:
			out = append(out, item{kind: 'L', hs: decHs(f[1])})
		default:
			panic("bad token " + t)
		}
	}
	if depth != 0 {
		panic("missing E")
	}
	return out
}

func decTree(s string) []item {
	if s == "-" {
		return nil
	}
	tok := strings.Split(s, ",")
	pos := 0
	return decItems(tok, &pos, 0, false)
}

// ---------------------------------------------------------------- building the two compositions

type rec struct{ trace []string }

func mkHandler(h hnd, tr *rec) fiber.Handler {
	return func(c fiber.Ctx) error {
		var ps []string
		wild := false
		for _, p := range c.Route().Params {
			ps = append(ps, gen.Hex(p)+"="+gen.Hex(c.Params(p)))
			if p != "" && (p[0] == '*' || p[0] == '+') {
				wild = true
			}
		}
		ent := strconv.Itoa(h.id) + "[" + strings.Join(ps, "&") + "]"
		if wild {
			// numbered wildcard keys are looked up by name: *1, *2, … must mean the same value in
			// both compositions whatever Route().Params lists
			var ws []string
			for _, k := range []string{"*", "*1", "*2", "*3", "+", "+1", "+2", "+3"} {
				ws = append(ws, gen.Hex(c.Params(k)))
			}
			ent += "{" + strings.Join(ws, "&") + "}"
		}
		tr.trace = append(tr.trace, ent)
		if h.err {
			// the reply comes from App.ErrorHandler, which picks the handler of the sub-app mounted at
			// the longest matching prefix (all apps here carry the default one)
			return fiber.NewError(fiber.StatusTeapot, "e"+strconv.Itoa(h.id))
		}
		if h.stop {
			return c.SendString("h" + strconv.Itoa(h.id))
		}
		return c.Next()
	}
}

func anyHs(hs []hnd, tr *rec) []any {
	out := make([]any, len(hs))
	for i, h := range hs {
		out[i] = mkHandler(h, tr)
	}
	return out
}

func fbHs(hs []hnd, tr *rec) []fiber.Handler {
	out := make([]fiber.Handler, len(hs))
	for i, h := range hs {
		out[i] = mkHandler(h, tr)
	}
	return out
}

func msNames(ms []int) []string {
	out := make([]string, len(ms))
	for i, m := range ms {
		out[i] = methods[m]
	}
	return out
}

func buildReg(r fiber.Register, items []item, tr *rec) {
	for _, it := range items {
		switch it.kind {
		case 'A':
			h := fbHs(it.hs, tr)
			r.Add(msNames(it.ms), h[0], h[1:]...)
		case 'L':
			h := fbHs(it.hs, tr)
			r.All(h[0], h[1:]...)
		case 'T':
			buildReg(r.Route(it.path), it.sub, tr)
		}
	}
}

// build registers items on router r. mounted=true: M items become real sub-apps; false: groups.
func build(r fiber.Router, items []item, mounted bool, tr *rec) {
	var lastSub *fiber.App
	var lastItems []item
	for _, it := range items {
		switch it.kind {
		case 'D':
			if !mounted {
				build(r.Group(it.path), lastItems, mounted, tr)
			} else {
				r.Use(it.path, lastSub)
			}
		case 'R':
			h := fbHs(it.hs, tr)
			r.Add(msNames(it.ms), it.path, h[0], h[1:]...)
		case 'U':
			args := append([]any{it.path}, anyHs(it.hs, tr)...)
			r.Use(args...)
		case 'G':
			build(r.Group(it.path, fbHs(it.hs, tr)...), it.sub, mounted, tr)
		case 'T':
			buildReg(r.Route(it.path), it.sub, tr)
		case 'M':
			lastItems = it.sub
			if !mounted {
				build(r.Group(it.path), it.sub, mounted, tr)
				continue
			}
			sub := fiber.New(fiber.Config{CaseSensitive: it.cs, StrictRouting: it.str})
			lastSub = sub
			if it.late {
				r.Use(it.path, sub)
				build(sub, it.sub, mounted, tr)
			} else {
				build(sub, it.sub, mounted, tr)
				r.Use(it.path, sub)
			}
		}
	}
}

func stackObs(app *fiber.App) string {
	var ms []string
	for m, st := range app.Stack() {
		var rs []string
		for _, r := range st {
			ps := make([]string, len(r.Params))
			for i, p := range r.Params {
				ps[i] = gen.Hex(p)
			}
			pj := strings.Join(ps, ".")
			if pj == "" {
				pj = "-"
			}
			row := gen.Hex(r.Path) + ":" + pj + ":" + strconv.Itoa(len(r.Handlers))
			if r.Method != methods[m] {
				row += "!method=" + r.Method // Route.Method must name the stack it sits in
			}
			rs = append(rs, row)
		}
		if len(rs) == 0 {
			ms = append(ms, "-")
		} else {
			ms = append(ms, strings.Join(rs, ","))
		}
	}
	return strings.Join(ms, ";")
}

type reqIn struct {
	m    int
	path string
}

func serve(h fasthttp.RequestHandler, tr *rec, q reqIn) (obs string) {
	tr.trace = tr.trace[:0]
	defer func() {
		if r := recover(); r != nil {
			obs = "panic"
		}
	}()
	var fctx fasthttp.RequestCtx
	var req fasthttp.Request
	req.Header.SetMethod(methods[q.m])
	req.SetRequestURI(q.path)
	fctx.Init(&req, nil, nil)
	h(&fctx)
	return strings.Join(tr.trace, ">") + "|" + strconv.Itoa(fctx.Response.StatusCode()) + "|" + gen.Hex(string(fctx.Response.Body()))
}

// probeParams: Params of `path` as an independent plain registration reports them.
func probeParams(path string) (ps []string, ok bool) {
	defer func() {
		if r := recover(); r != nil {
			ok = false
		}
	}()
	a := fiber.New()
	a.Get(path, func(fiber.Ctx) error { return nil })
	return a.Stack()[0][0].Params, true
}

type obsT struct{ stackM, stackG, resM, resG, ptable string }

// startupPanic: what is observed of a composition whose registration or startup (app.Handler() ->
// startupProcess -> processSubAppsRoutes) panicked
const startupPanic = "startup-panic"

// declaredPaths spells the full registration path of every registration of the tree (mounts read as
// groups, Route(path) registers as groups with empty relative paths) with fiber's own prefix
// accumulation: Group(p) without handlers registers nothing and exposes the joined Prefix.
func declaredPaths(cfg fiber.Config, items []item) (out []string) {
	defer func() { _ = recover() }()
	var walk func(r fiber.Router, items []item)
	pre := func(r fiber.Router, p string) (fiber.Router, string) {
		g := r.Group(p)
		if gg, ok := g.(*fiber.Group); ok {
			return g, gg.Prefix
		}
		return g, p
	}
	walk = func(r fiber.Router, items []item) {
		var lastItems []item
		for _, it := range items {
			switch it.kind {
			case 'R', 'U':
				_, p := pre(r, it.path)
				out = append(out, p)
			case 'A', 'L':
				_, p := pre(r, "")
				out = append(out, p)
			case 'G', 'T':
				g, p := pre(r, it.path)
				out = append(out, p)
				walk(g, it.sub)
			case 'M':
				lastItems = it.sub
				g, _ := pre(r, it.path)
				walk(g, it.sub)
			case 'D':
				g, _ := pre(r, it.path)
				walk(g, lastItems)
			}
		}
	}
	walk(fiber.New(cfg), items)
	return out
}

// construct builds one composition and starts it; a panic (registration or startup) is an outcome.
func construct(cfg fiber.Config, items []item, mounted bool, tr *rec) (app *fiber.App, h fasthttp.RequestHandler, ok bool) {
	defer func() {
		if r := recover(); r != nil {
			if os.Getenv("C04_DEBUG") != "" {
				fmt.Fprintln(os.Stderr, "panic:", r, encTree(items))
				fmt.Fprintln(os.Stderr, string(debug.Stack()))
			}
			ok = false
		}
	}()
	app = fiber.New(cfg)
	build(app, items, mounted, tr)
	h = app.Handler()
	return app, h, true
}

func observe(cs, strict bool, items []item, reqs []reqIn) (o obsT, ok bool) {
	cfg := fiber.Config{CaseSensitive: cs, StrictRouting: strict}
	trM, trG := &rec{}, &rec{}
	appM, hM, okM := construct(cfg, items, true, trM)
	appG, hG, okG := construct(cfg, items, false, trG)
	// "refused at startup" is an observation of its own, taken on each side separately: the property
	// says the mounted app answers like the group equivalent, so both must be refused or both serve
	o.stackG, o.stackM = startupPanic, startupPanic
	if okG {
		o.stackG = stackObs(appG)
	}
	if okM {
		o.stackM = stackObs(appM)
	}
	// params table over every Path either composition holds, plus the trailing-slash variant
	seen := map[string]bool{}
	var keys []string
	addKey := func(p string) {
		if !seen[p] {
			seen[p] = true
			keys = append(keys, p)
		}
	}
	var apps []*fiber.App
	if okG {
		apps = append(apps, appG)
	}
	if okM {
		apps = append(apps, appM)
	}
	for _, a := range apps {
		for _, st := range a.Stack() {
			for _, r := range st {
				addKey(r.Path)
				addKey(r.Path + "/")
			}
		}
	}
	if !okM || !okG {
		// a refused composition has no Stack(): take the paths the tree declares, spelled by fiber's
		// own Group machinery (Group.Prefix), so that the table also covers the refused registration
		for _, full := range declaredPaths(cfg, items) {
			if full == "" || full[0] != '/' {
				full = "/" + full
			}
			t := strings.TrimRight(full, "/")
			if t == "" {
				t = "/"
			}
			addKey(full)
			addKey(full + "/")
			addKey(t)
			addKey(t + "/")
		}
	}
	sort.Strings(keys)
	var pt []string
	for _, k := range keys {
		ps, ok := probeParams(k)
		if !ok {
			// an independent plain registration of this very path is refused (register's guards,
			// e.g. more than maxParams parameters): recorded as such, the guard is opaque like the parser
			pt = append(pt, gen.Hex(k)+"=!")
			continue
		}
		hp := make([]string, len(ps))
		for i, p := range ps {
			hp[i] = gen.Hex(p)
		}
		pt = append(pt, gen.Hex(k)+"="+strings.Join(hp, "."))
	}
	o.ptable = strings.Join(pt, ",")
	if o.ptable == "" {
		o.ptable = "-"
	}
	var rm, rg []string
	for _, q := range reqs {
		if okM {
			rm = append(rm, serve(hM, trM, q))
		} else {
			rm = append(rm, startupPanic)
		}
		if okG {
			rg = append(rg, serve(hG, trG, q))
		} else {
			rg = append(rg, startupPanic)
		}
	}
	o.resM, o.resG = strings.Join(rm, ","), strings.Join(rg, ",")
	if len(reqs) == 0 {
		o.resM, o.resG = "-", "-"
	}
	return o, true
}

func encReqs(reqs []reqIn) string {
	if len(reqs) == 0 {
		return "-"
	}
	p := make([]string, len(reqs))
	for i, q := range reqs {
		p[i] = strconv.Itoa(q.m) + ":" + gen.Hex(q.path)
	}
	return strings.Join(p, ",")
}

func decReqs(s string) []reqIn {
	if s == "-" {
		return nil
	}
	var out []reqIn
	for _, p := range strings.Split(s, ",") {
		f := strings.Split(p, ":")
		if len(f) != 2 {
			panic("bad request")
		}
		m, err := strconv.Atoi(f[0])
		if err != nil || m < 0 || m >= len(methods) {
			panic("bad request method")
		}
		path := gen.UnHex(f[1])
		if path == "" || path[0] != '/' {
			panic("bad request path")
		}
		out = append(out, reqIn{m, path})
	}
	return out
}

func emit(w *gen.Writer, id string, cs, strict bool, items []item, reqs []reqIn) {
	o, _ := observe(cs, strict, items, reqs)
	switch {
	case o.stackM == startupPanic && o.stackG == startupPanic:
		w.Count("startup-panic-both")
	case o.stackM == startupPanic:
		w.Count("startup-panic-mount-only")
	case o.stackG == startupPanic:
		w.Count("startup-panic-group-only")
	}
	w.Case(id, gen.B(cs)+gen.B(strict), encTree(items), o.ptable, encReqs(reqs), o.stackM, o.stackG, o.resM, o.resG)
}

// ---------------------------------------------------------------- generator

var prefixes = []string{"/api", "/api", "/v1", "/", "", "/api/", "api", "/API", "/:tenant", "/:Tenant", "/a/b", "/v1//", "//",
	"/x-y", `/a\:b`, "/:org/p", "/V1/", "/api/v1", "/:id", "/u/:uid",
	// unnamed wildcards in a prefix: their keys (*1, *2, +1, …) are numbered over the FULL path
	"/zone/*/admin", "/w/*", "/p/+", "/+/x", "/f/*/:id", "/*"}
var routePaths = []string{"/", "/x", "/x", "x", "/x/", "/:id", "/:id/y", "/*", "/X", "/y", "/y/z", "/:tenant",
	`/c\:d`, "/+", "/:Name", "/api", "/x/:id?", "/:id<int>", "/z/",
	"/files/*", "/d/+/e", "/*/t", "/+/:id", "/s/*/u/*"}
var emptyPath = ""

type genCtx struct {
	r      *gen.Rand
	nextID int
	w      *gen.Writer
	// full "spelled" patterns of the routes generated, for request derivation
	patterns []string
}

func (g *genCtx) hs(n int, lastStops bool) []hnd {
	out := make([]hnd, n)
	for i := range out {
		g.nextID++
		out[i] = hnd{id: g.nextID}
	}
	if lastStops {
		if g.r.Chance(1, 10) {
			out[n-1].err = true
			g.w.Count("error-handler-reply")
		} else {
			out[n-1].stop = true
		}
	}
	return out
}

func join(prefix, p string) string {
	// mirrors nothing in particular: only used to derive plausible request paths
	return strings.TrimRight(prefix, "/") + "/" + strings.TrimLeft(p, "/")
}

func (g *genCtx) path() string {
	if g.r.Chance(1, 14) {
		g.w.Count("empty-path")
		return emptyPath
	}
	return gen.Pick(g.r, routePaths)
}

func (g *genCtx) items(depth int, ctxPrefix string, inMount bool, budget *int) []item {
	r := g.r
	n := 1 + r.Intn(4)
	var out []item
	for i := 0; i < n && *budget > 0; i++ {
		*budget--
		k := r.Intn(20)
		switch {
		case k < 8: // route
			p := g.path()
			ms := []int{gen.Pick(r, []int{0, 0, 0, 2, 3})}
			if r.Chance(1, 8) {
				ms = append(ms, gen.Pick(r, []int{0, 2, 4}))
			}
			nh := 1 + r.Intn(2)
			it := item{kind: 'R', ms: ms, path: p, hs: g.hs(nh, !r.Chance(1, 4))}
			out = append(out, it)
			g.patterns = append(g.patterns, join(ctxPrefix, p))
			if r.Chance(1, 6) { // same path again right away: merge candidate
				out = append(out, item{kind: 'R', ms: ms[:1], path: p, hs: g.hs(1, r.Bool())})
			}
			if (p == "" || p == "/") && r.Chance(1, 2) {
				// "" next to "/": one route for the app itself, two once it is mounted (addRoute must
				// not merge them); sometimes a third registration that may merge with the second
				q := "/"
				if p == "/" {
					q = ""
				}
				out = append(out, item{kind: 'R', ms: ms[:1], path: q, hs: g.hs(1, r.Bool())})
				if r.Chance(1, 3) {
					out = append(out, item{kind: 'R', ms: ms[:1], path: gen.Pick(r, []string{"", "/"}), hs: g.hs(1, r.Bool())})
				}
				g.w.Count("empty-next-to-slash")
			}
		case k < 11: // middleware
			p := ""
			if r.Chance(1, 2) {
				p = gen.Pick(r, []string{"/", "/x", "/api", "/:id", "/y"})
			}
			out = append(out, item{kind: 'U', path: p, hs: g.hs(1+r.Intn(2), r.Chance(1, 10))})
		case k < 14 && depth < 3: // group
			p := gen.Pick(r, prefixes)
			var hs []hnd
			if r.Chance(1, 3) {
				hs = g.hs(1, false)
			}
			out = append(out, item{kind: 'G', path: p, hs: hs, sub: g.items(depth+1, join(ctxPrefix, p), inMount, budget)})
			g.w.Count("group")
		case k < 15: // Route(path) register
			p := gen.Pick(r, prefixes)
			it := item{kind: 'T', path: p}
			for j := 1 + r.Intn(2); j > 0; j-- {
				switch r.Intn(4) {
				case 0:
					it.sub = append(it.sub, item{kind: 'L', hs: g.hs(1, false)})
				case 1:
					p2 := gen.Pick(r, routePaths)
					it.sub = append(it.sub, item{kind: 'T', path: p2, sub: []item{{kind: 'A', ms: []int{0}, hs: g.hs(1, true)}}})
					g.patterns = append(g.patterns, join(join(ctxPrefix, p), p2))
				default:
					it.sub = append(it.sub, item{kind: 'A', ms: []int{gen.Pick(r, []int{0, 0, 2})}, hs: g.hs(1+r.Intn(2), true)})
				}
			}
			g.patterns = append(g.patterns, join(ctxPrefix, p))
			out = append(out, it)
			g.w.Count("route-register")
		case depth < 3: // mount
			p := gen.Pick(r, prefixes)
			it := item{kind: 'M', path: p, cs: r.Chance(1, 4), str: r.Chance(1, 4), late: r.Chance(1, 3)}
			it.sub = g.items(depth+1, join(ctxPrefix, p), true, budget)
			out = append(out, it)
			g.w.Count("mount")
			if depth > 0 {
				g.w.Count("mount-nested-or-in-group")
			}
			if r.Chance(1, 8) {
				out = append(out, item{kind: 'D', path: gen.Pick(r, prefixes)})
				g.w.Count("same-app-mounted-twice")
			}
		default:
			p := g.path()
			out = append(out, item{kind: 'R', ms: []int{0}, path: p, hs: g.hs(1, true)})
			g.patterns = append(g.patterns, join(ctxPrefix, p))
		}
	}
	return out
}

// boundary builds a composition whose TOTAL parameter count (mount/group prefixes + the sub-app
// route) is 29, 30 or 31 — around ctx.go maxParams = 30, the guard of register (group composition,
// and the sub-app's own registration) and of addPrefixToRoute (mounted composition, at startup).
// Requests fill every parameter.
func (g *genCtx) boundary() ([]item, []reqIn) {
	r := g.r
	total := 29 + r.Intn(3)
	g.w.Count("params-total-" + strconv.Itoa(total))
	np := 0
	names := func(n int, star bool) string { // n parameters: /:pK … (the last one optionally a wildcard)
		var sb strings.Builder
		for i := 0; i < n; i++ {
			np++
			if star && i == n-1 {
				sb.WriteString("/*")
			} else {
				sb.WriteString("/:p" + strconv.Itoa(np))
			}
		}
		return sb.String()
	}
	mount := func(p string, sub []item) item {
		g.w.Count("mount")
		return item{kind: 'M', path: p, cs: r.Chance(1, 4), str: r.Chance(1, 4), late: r.Chance(1, 3), sub: sub}
	}
	star := r.Chance(1, 5)
	route := func(n int) []item {
		p := names(n, star)
		if p == "" {
			p = "/"
		}
		its := []item{{kind: 'R', ms: []int{0}, path: p, hs: g.hs(1+r.Intn(2), true)}}
		if r.Bool() { // a neighbour that is served whenever the composition starts at all
			its = append(its, item{kind: 'R', ms: []int{0}, path: "/x", hs: g.hs(1, true)})
		}
		if r.Chance(1, 3) {
			its = append([]item{{kind: 'U', hs: g.hs(1, false)}}, its...)
		}
		return its
	}
	var items []item
	shape := r.Intn(6)
	g.w.Count("params-boundary-shape-" + strconv.Itoa(shape))
	switch shape {
	case 0: // the prefix carries two parameters
		pre := "/:tenant/:region"
		items = []item{mount(pre, route(total-2))}
	case 1: // all parameters in the sub-app route, plain prefix
		pre := gen.Pick(r, []string{"/api", "/v1/", "/", "/API"})
		items = []item{mount(pre, route(total))}
	case 2: // nested mounts, parameters on every level
		k1, k2 := 1+r.Intn(3), 1+r.Intn(3)
		p1, p2 := names(k1, false), "/n"+names(k2, false)
		inner := mount(p2, route(total-k1-k2))
		items = []item{mount(p1, []item{inner})}
		g.w.Count("mount-nested-or-in-group")
	case 3: // mounted from a group with a parameter
		k1 := 1 + r.Intn(2)
		p1 := "/g" + names(k1, false)
		items = []item{{kind: 'G', path: p1, sub: []item{mount("/v1/:m0", route(total-k1-1))}}}
		g.w.Count("group")
		g.w.Count("mount-nested-or-in-group")
	case 4: // the parameters split evenly between prefix and route
		k1 := 10 + r.Intn(10)
		items = []item{mount(names(k1, false), route(total-k1))}
	default: // all parameters in the prefix, the sub-app route has none or one
		k := r.Intn(2)
		items = []item{mount(names(total-k, false), route(k))}
	}
	if r.Bool() {
		items = append(items, item{kind: 'R', ms: []int{0}, path: "/top", hs: g.hs(1, true)})
	}
	if items[0].kind == 'M' && r.Chance(1, 6) {
		// the same app once more under a one-parameter prefix: one more parameter than the sub-app's own
		items = append(items[:1:1], append([]item{{kind: 'D', path: "/again/:d0"}}, items[1:]...)...)
		g.w.Count("same-app-mounted-twice")
	}
	// requests: every declared full path with all parameters filled, plus near misses
	var reqs []reqIn
	for _, d := range declaredPaths(fiber.Config{}, items) {
		if d == "" || d[0] != '/' {
			d = "/" + d
		}
		p := instantiate(r, d)
		reqs = append(reqs, reqIn{0, p})
		if len(reqs) >= 5 {
			break
		}
	}
	if len(reqs) > 0 {
		p := reqs[r.Intn(len(reqs))].path
		switch r.Intn(3) {
		case 0:
			p += "/zz"
		case 1:
			if j := strings.LastIndex(p, "/"); j > 0 {
				p = p[:j]
			}
		default:
			p = strings.ToUpper(p)
		}
		reqs = append(reqs, reqIn{gen.Pick(r, []int{0, 0, 2}), p})
	}
	reqs = append(reqs, reqIn{0, gen.Pick(r, []string{"/top", "/api/x", "/x", "/"})})
	return items, reqs
}

func hasMountItem(items []item) bool {
	for _, it := range items {
		if it.kind == 'M' || ((it.kind == 'G') && hasMountItem(it.sub)) {
			return true
		}
	}
	return false
}

var paramVals = []string{"acme", "5", "x", "A1", "v", "y"}

func instantiate(r *gen.Rand, pat string) string {
	pat = strings.ReplaceAll(pat, `\`, "")
	segs := strings.Split(pat, "/")
	for i, s := range segs {
		switch {
		case strings.HasPrefix(s, ":"):
			if strings.HasSuffix(s, "?") && r.Chance(1, 3) {
				segs[i] = ""
			} else {
				segs[i] = gen.Pick(r, paramVals)
			}
		case s == "*" || s == "+":
			segs[i] = gen.Pick(r, []string{"w", "w/z", "", "x"})
		}
	}
	p := strings.Join(segs, "/")
	for strings.Contains(p, "//") && r.Chance(3, 4) {
		p = strings.Replace(p, "//", "/", 1)
	}
	if p == "" || p[0] != '/' {
		p = "/" + p
	}
	return p
}

func (g *genCtx) reqs(n int) []reqIn {
	r := g.r
	var out []reqIn
	for i := 0; i < n; i++ {
		var p string
		if len(g.patterns) > 0 && !r.Chance(1, 6) {
			p = instantiate(r, gen.Pick(r, g.patterns))
			switch r.Intn(10) {
			case 0:
				p = strings.ToUpper(p)
			case 1:
				if strings.HasSuffix(p, "/") && len(p) > 1 {
					p = p[:len(p)-1]
				} else {
					p += "/"
				}
			case 2:
				p += "/zz"
			case 3:
				if j := strings.LastIndex(p, "/"); j > 0 {
					p = p[:j]
				}
			}
		} else {
			p = gen.Pick(r, []string{"/", "/api", "/api/x", "/acme/x", "/x", "/api/v1/x", "/a:b/x", "/API/X", "/nope", "/api/"})
		}
		out = append(out, reqIn{m: gen.Pick(r, []int{0, 0, 0, 0, 2, 3, 1}), path: p})
	}
	return out
}

func main() {
	log.SetOutput(io.Discard)
	o := gen.ParseFlags()
	w := gen.NewWriter(o.Out)
	defer w.Close()
	if o.Replay != "" {
		for _, f := range gen.ReplayInputs(o.Replay) {
			if len(f) < 5 || len(f[1]) != 2 {
				continue
			}
			func() {
				defer func() {
					if r := recover(); r != nil {
						w.Count("replay-rejected")
					}
				}()
				items := decTree(f[2])
				reqs := decReqs(f[4])
				emit(w, f[0], f[1][0] == '1', f[1][1] == '1', items, reqs)
			}()
		}
		return
	}
	root := gen.New(o.Seed)
	for i := 0; i < o.N; i++ {
		r := root.Fork(uint64(i))
		g := &genCtx{r: r, w: w}
		if r.Chance(1, 12) {
			// steady share of every run (quick tier too): compositions at the parameter limit
			items, reqs := g.boundary()
			emit(w, fmt.Sprintf("s%d.%d", o.Seed, i), r.Chance(1, 5), r.Chance(1, 5), items, reqs)
			continue
		}
		budget := 14
		items := g.items(0, "", false, &budget)
		if !hasMountItem(items) && r.Chance(6, 7) {
			// most trees should exercise mounting: add one at a random position
			budget = 5
			p := gen.Pick(r, prefixes)
			m := item{kind: 'M', path: p, cs: r.Chance(1, 4), str: r.Chance(1, 4), late: r.Chance(1, 3)}
			m.sub = g.items(1, join("", p), true, &budget)
			at := r.Intn(len(items) + 1)
			items = append(items[:at], append([]item{m}, items[at:]...)...)
			w.Count("mount")
		}
		cs, strict := r.Chance(1, 5), r.Chance(1, 5)
		emit(w, fmt.Sprintf("s%d.%d", o.Seed, i), cs, strict, items, g.reqs(6))
	}
}
