// Harness for C20: runs the real encryptcookie middleware (real AES-GCM) behind app.Handler() on
// generated histories and writes one case line per history.
//
// case <id> key except mode okey steps | aux | obs
//
//	key    hex of Config.Key (the base64 text)          except  hexlist of Config.Except
//	mode   "<codec>" or "<codec>.<next>.<recover>"
//	       codec   0 = Encryptor/Decryptor left nil (defaults), 1 = the exported EncryptCookie/DecryptCookie
//	               given explicitly, 2 = custom pair (tag 'X' + reversed text around the default pair),
//	               3 = faulty custom pair: as 2, but the Encryptor returns an error for values starting
//	               with ERR and panics for values starting with PANIC, the Decryptor panics on texts
//	               starting with PANIC
//	       next    Config.Next: 0 = nil, 1 = always false, 2 = true iff the request has `X-Skip: 1`,
//	               3 = always true
//	       recover 1 = fiber's recover middleware is registered in front of everything
//	okey   hex of another key text (for "encrypted under another key" pieces)
//	steps  symbolic history (what -replay re-executes), see parseSteps
//	aux    facts the harness derives with fasthttp / stdlib crypto and the Lean side takes as given:
//	       per step  J<request cookies as fasthttp parsed them, before the middleware>
//	                 /K<names looked up> /R<response cookies when the handlers behind are done, with parse>
//	                 /P<parse of the response cookies where the middleware is left>
//	                 /T<independent AES-GCM open of each of those values, under `key`>
//	                 /Q<Cookie header values as fasthttp stored them> /D<direct SetCookie calls on top>
//	                 /N<1 if Config.Next must say skip for this request> /F<o|e|p: the handler returns nil,
//	                 returns an error, panics> /O<response cookies when the middleware is entered>
//	                 /A<cookie writes executed after the middleware was left: r|a:key:raw:parse>
//	                 /U<parse of the cookies on the wire>
//	obs    what the implementation did, per step:
//	       V<1 if the handler behind the middleware ran> /E<cookies the handler enumerates> /L<c.Cookies(name)>
//	       /B<Bind().Cookie map> /H<c.Get("Cookie"):other renderings of the Cookie header>
//	       /N<- | number of Config.Next calls . its result> /M<Set-Cookie list where the middleware is left>
//	       /W<Set-Cookie list on the wire | panic>
//
// The app is: [recover] -> observer (sets cookies before and after its c.Next(), snapshots the response
// where encryptcookie is left) -> encryptcookie -> handler; the ErrorHandler may set cookies too.
package main

import (
	"bufio"
	"bytes"
	"crypto/aes"
	"crypto/cipher"
	crand "crypto/rand"
	"encoding/base64"
	"encoding/hex"
	"fmt"
	"hash/fnv"
	"io"
	"sort"
	"strconv"
	"strings"
	"time"

	"github.com/gofiber/fiber/v3"
	"github.com/gofiber/fiber/v3/log"
	"github.com/gofiber/fiber/v3/middleware/encryptcookie"
	rec "github.com/gofiber/fiber/v3/middleware/recover"
	"github.com/valyala/fasthttp"

	"verifharness/internal/gen"
)

// ---------------------------------------------------------------------------------------------
// deterministic randomness for crypto/rand.Reader (nonces): distinct, reproducible per case id

type detReader struct{ r *gen.Rand }

func (d *detReader) Read(p []byte) (int, error) {
	for i := range p {
		p[i] = byte(d.r.U64())
	}
	return len(p), nil
}

// ---------------------------------------------------------------------------------------------
// symbolic history

type mut struct {
	kind byte // r replace, f relative change, t truncate, a append, p prepend, d delete, n insert
	pos  int
	data []byte
}

type piece struct {
	kind byte // x literal, i issued value (step s, cookie j), o literal plaintext sealed under okey
	lit  []byte
	s, j int
	muts []mut
}

type src struct {
	kind byte // H: one Cookie header line; D: req.Header.SetCookie(key, value)
	key  []piece
	val  []piece
}

type op struct {
	kind  byte // C: c.Cookie(...), A: Response().Header.Add("Set-Cookie", raw), X: c.ClearCookie(name...),
	// E: the handler returns an error, P: the handler panics (both after its other operations)
	name  string
	value string
	attr  int
}

type step struct {
	srcs []src
	ops  []op
	skip bool // the request carries `X-Skip: 1`
	// cookie writes by code that is not behind the middleware (only C and A)
	outerPre  []op // the observer middleware in front, before its c.Next()
	outerPost []op // ... after its c.Next()
	ehOps     []op // the app's ErrorHandler
}

type cfgIn struct {
	key    string
	except []string
	mode   int // codec
	next   int // Config.Next
	rec    bool
	okey   string
	ktag   string // generator's label of the key shape (distribution report only)
}

func (c cfgIn) modeField() string {
	if c.next == 0 && !c.rec {
		return strconv.Itoa(c.mode)
	}
	r := 0
	if c.rec {
		r = 1
	}
	return fmt.Sprintf("%d.%d.%d", c.mode, c.next, r)
}

func parseModeField(f string) (mode, next int, rc, ok bool) {
	parts := strings.Split(f, ".")
	if len(parts) != 1 && len(parts) != 3 {
		return 0, 0, false, false
	}
	var n [3]int
	for i, p := range parts {
		v, err := strconv.Atoi(p)
		if err != nil || v < 0 || len(p) != 1 {
			return 0, 0, false, false
		}
		n[i] = v
	}
	if n[0] > 3 || n[1] > 3 || n[2] > 1 {
		return 0, 0, false, false
	}
	return n[0], n[1], n[2] == 1, true
}

func hx(b []byte) string { return hex.EncodeToString(b) }

func (m mut) String() string {
	switch m.kind {
	case 'r', 'n', 'f':
		return fmt.Sprintf("@%c%d:%s", m.kind, m.pos, hx(m.data))
	case 't', 'd':
		return fmt.Sprintf("@%c%d", m.kind, m.pos)
	default:
		return fmt.Sprintf("@%c%s", m.kind, hx(m.data))
	}
}

func (p piece) String() string {
	var sb strings.Builder
	switch p.kind {
	case 'x':
		sb.WriteString("x" + hx(p.lit))
	case 'o':
		sb.WriteString("o" + hx(p.lit))
	default:
		fmt.Fprintf(&sb, "i%d_%d", p.s, p.j)
	}
	for _, m := range p.muts {
		sb.WriteString(m.String())
	}
	return sb.String()
}

func piecesString(ps []piece) string {
	out := make([]string, len(ps))
	for i, p := range ps {
		out[i] = p.String()
	}
	return strings.Join(out, "+")
}

func (s step) String() string {
	var a, b []string
	for _, x := range s.srcs {
		if x.kind == 'H' {
			a = append(a, "H"+piecesString(x.val))
		} else {
			a = append(a, "D"+piecesString(x.key)+"="+piecesString(x.val))
		}
	}
	for _, o := range s.ops {
		b = append(b, o.String())
	}
	var x []string
	if s.skip {
		x = append(x, "S")
	}
	for _, o := range s.outerPre {
		x = append(x, "O"+o.String())
	}
	for _, o := range s.outerPost {
		x = append(x, "Q"+o.String())
	}
	for _, o := range s.ehOps {
		x = append(x, "G"+o.String())
	}
	l, r := "-", "-"
	if len(a) > 0 {
		l = strings.Join(a, "!")
	}
	if len(b) > 0 {
		r = strings.Join(b, "!")
	}
	if len(x) > 0 {
		return l + "~" + r + "~" + strings.Join(x, "!")
	}
	return l + "~" + r
}

func (o op) String() string {
	switch o.kind {
	case 'C':
		return fmt.Sprintf("C%s:%s:%d", hx([]byte(o.name)), hx([]byte(o.value)), o.attr)
	case 'E':
		return "E"
	case 'P':
		return "P"
	case 'X':
		return "X" + hx([]byte(o.name))
	default:
		return "A" + hx([]byte(o.value))
	}
}

// parseOp reads one handler operation; `late` restricts it to the cookie writes C and A
func parseOp(x string, late bool) (op, bool) {
	if x == "" {
		return op{}, false
	}
	switch x[0] {
	case 'C':
		f := strings.Split(x[1:], ":")
		if len(f) != 3 {
			return op{}, false
		}
		n, ok1 := unhx(f[0])
		v, ok2 := unhx(f[1])
		a, err := strconv.Atoi(f[2])
		if !ok1 || !ok2 || err != nil || a < 0 || a >= nAttr {
			return op{}, false
		}
		return op{kind: 'C', name: string(n), value: string(v), attr: a}, true
	case 'A':
		v, ok := unhx(x[1:])
		if !ok {
			return op{}, false
		}
		return op{kind: 'A', value: string(v)}, true
	case 'X':
		n, ok := unhx(x[1:])
		if !ok || late {
			return op{}, false
		}
		return op{kind: 'X', name: string(n)}, true
	case 'E', 'P':
		// the handler returns an error / panics after its other operations: the response then goes
		// through the error handler (a panic only with a recover middleware in front), and its
		// cookies must be encrypted all the same
		if len(x) != 1 || late {
			return op{}, false
		}
		return op{kind: x[0]}, true
	}
	return op{}, false
}

func stepsString(ss []step) string {
	out := make([]string, len(ss))
	for i, s := range ss {
		out[i] = s.String()
	}
	return strings.Join(out, ";")
}

func unhx(s string) ([]byte, bool) {
	b, err := hex.DecodeString(s)
	return b, err == nil
}

func parseMut(s string) (mut, bool) {
	if s == "" {
		return mut{}, false
	}
	m := mut{kind: s[0]}
	rest := s[1:]
	switch m.kind {
	case 'r', 'n', 'f':
		i := strings.IndexByte(rest, ':')
		if i < 0 {
			return m, false
		}
		p, err := strconv.Atoi(rest[:i])
		d, ok := unhx(rest[i+1:])
		if err != nil || !ok || p < 0 {
			return m, false
		}
		m.pos, m.data = p, d
	case 't', 'd':
		p, err := strconv.Atoi(rest)
		if err != nil || p < 0 {
			return m, false
		}
		m.pos = p
	case 'a', 'p':
		d, ok := unhx(rest)
		if !ok {
			return m, false
		}
		m.data = d
	default:
		return m, false
	}
	return m, true
}

func parsePiece(s string) (piece, bool) {
	parts := strings.Split(s, "@")
	h := parts[0]
	if h == "" {
		return piece{}, false
	}
	p := piece{kind: h[0]}
	switch p.kind {
	case 'x', 'o':
		d, ok := unhx(h[1:])
		if !ok {
			return p, false
		}
		p.lit = d
	case 'i':
		ab := strings.Split(h[1:], "_")
		if len(ab) != 2 {
			return p, false
		}
		a, e1 := strconv.Atoi(ab[0])
		b, e2 := strconv.Atoi(ab[1])
		if e1 != nil || e2 != nil || a < 0 || b < 0 {
			return p, false
		}
		p.s, p.j = a, b
	default:
		return p, false
	}
	for _, ms := range parts[1:] {
		m, ok := parseMut(ms)
		if !ok {
			return p, false
		}
		p.muts = append(p.muts, m)
	}
	return p, true
}

func parsePieces(s string) ([]piece, bool) {
	if s == "" {
		return nil, true
	}
	var out []piece
	for _, x := range strings.Split(s, "+") {
		p, ok := parsePiece(x)
		if !ok {
			return nil, false
		}
		out = append(out, p)
	}
	return out, true
}

func parseSteps(s string) ([]step, bool) {
	var out []step
	if s == "" || s == "-" {
		return nil, false
	}
	for _, st := range strings.Split(s, ";") {
		lr := strings.Split(st, "~")
		if len(lr) != 2 && len(lr) != 3 {
			return nil, false
		}
		var cur step
		if lr[0] != "-" {
			for _, x := range strings.Split(lr[0], "!") {
				if x == "" {
					return nil, false
				}
				switch x[0] {
				case 'H':
					ps, ok := parsePieces(x[1:])
					if !ok {
						return nil, false
					}
					cur.srcs = append(cur.srcs, src{kind: 'H', val: ps})
				case 'D':
					kv := strings.SplitN(x[1:], "=", 2)
					if len(kv) != 2 {
						return nil, false
					}
					k, ok1 := parsePieces(kv[0])
					v, ok2 := parsePieces(kv[1])
					if !ok1 || !ok2 {
						return nil, false
					}
					cur.srcs = append(cur.srcs, src{kind: 'D', key: k, val: v})
				default:
					return nil, false
				}
			}
		}
		if lr[1] != "-" {
			ends := 0
			for _, x := range strings.Split(lr[1], "!") {
				o, ok := parseOp(x, false)
				if !ok {
					return nil, false
				}
				if o.kind == 'E' || o.kind == 'P' {
					ends++
				}
				cur.ops = append(cur.ops, o)
			}
			if ends > 1 {
				return nil, false
			}
		}
		if len(lr) == 3 {
			for _, x := range strings.Split(lr[2], "!") {
				if x == "" {
					return nil, false
				}
				if x == "S" {
					if cur.skip {
						return nil, false
					}
					cur.skip = true
					continue
				}
				o, ok := parseOp(x[1:], true)
				if !ok {
					return nil, false
				}
				switch x[0] {
				case 'O':
					cur.outerPre = append(cur.outerPre, o)
				case 'Q':
					cur.outerPost = append(cur.outerPost, o)
				case 'G':
					cur.ehOps = append(cur.ehOps, o)
				default:
					return nil, false
				}
			}
		}
		out = append(out, cur)
	}
	return out, true
}

// ---------------------------------------------------------------------------------------------
// independent reference crypto (stdlib only, never the code under test)

func wrap(s string) string {
	b := []byte(s)
	for i, j := 0, len(b)-1; i < j; i, j = i+1, j-1 {
		b[i], b[j] = b[j], b[i]
	}
	return "X" + string(b)
}

func unwrap(s string) (string, bool) {
	if len(s) == 0 || s[0] != 'X' {
		return "", false
	}
	b := []byte(s[1:])
	for i, j := 0, len(b)-1; i < j; i, j = i+1, j-1 {
		b[i], b[j] = b[j], b[i]
	}
	return string(b), true
}

func refGCM(keyText string) (cipher.AEAD, bool) {
	k, err := base64.StdEncoding.DecodeString(keyText)
	if err != nil || (len(k) != 16 && len(k) != 24 && len(k) != 32) {
		return nil, false
	}
	blk, err := aes.NewCipher(k)
	if err != nil {
		return nil, false
	}
	g, err := cipher.NewGCM(blk)
	return g, err == nil
}

func refOpen(mode int, keyText, v string) (string, bool) {
	if mode >= 2 {
		var ok bool
		if v, ok = unwrap(v); !ok {
			return "", false
		}
	}
	g, ok := refGCM(keyText)
	if !ok {
		return "", false
	}
	data, err := base64.StdEncoding.DecodeString(v)
	if err != nil || len(data) < g.NonceSize() {
		return "", false
	}
	p, err := g.Open(nil, data[:g.NonceSize()], data[g.NonceSize():], nil)
	return string(p), err == nil
}

func refSeal(mode int, keyText, plain string, rnd *gen.Rand) string {
	g, ok := refGCM(keyText)
	if !ok {
		return ""
	}
	nonce := make([]byte, g.NonceSize())
	for i := range nonce {
		nonce[i] = byte(rnd.U64())
	}
	s := base64.StdEncoding.EncodeToString(g.Seal(nonce, nonce, []byte(plain), nil))
	if mode >= 2 {
		return wrap(s)
	}
	return s
}

// ---------------------------------------------------------------------------------------------
// running one history against the real middleware

type kv struct{ k, v string }

type rcookie struct {
	key, raw, pkey, pvalue, tail string
	nameless                     bool // read as a nameless cookie (see asNameless)
}

func parseSetCookie(raw string) (pkey, pvalue, tail string) {
	var ck fasthttp.Cookie
	_ = ck.Parse(raw) // the middleware ignores the parse error as well
	pkey, pvalue = string(ck.Key()), string(ck.Value())
	ck.SetKey("")
	ck.SetValue("")
	return pkey, pvalue, ck.String()
}

// asNameless re-reads a Set-Cookie text the middleware wrote for a NAMELESS cookie of the handler
// (`Set-Cookie: value`, what fasthttp renders for an empty key). When the encrypted value ends in base64
// padding, fasthttp's parser reads such a text as a cookie NAMED like the ciphertext with the value "=" or
// "": the text is ambiguous. The cookie at the same position was nameless when the handler left it, so
// it is reported as what it is: name "", value = the first segment.
func asNameless(c rcookie) rcookie {
	seg := c.raw
	if i := strings.IndexByte(seg, ';'); i >= 0 {
		seg = seg[:i]
	}
	c.pkey, c.pvalue, c.nameless = "", strings.Trim(seg, " "), true
	return c
}

const nAttr = 10

func mkCookie(o op) *fiber.Cookie {
	c := &fiber.Cookie{Name: o.name, Value: o.value}
	switch o.attr {
	case 1:
		c.Path = "/x"
	case 2:
		c.MaxAge, c.Secure, c.HTTPOnly = 3600, true, true
	case 3:
		c.SameSite, c.Domain = "Strict", "example.com"
	case 4:
		c.SessionOnly, c.MaxAge = true, 60
	case 5:
		c.SameSite, c.Partitioned, c.Secure = "None", true, true
	case 6:
		c.Expires = time.Date(2031, 2, 3, 4, 5, 6, 0, time.UTC)
	case 7: // a deletion that still carries a value: Expires in the past
		c.Expires = time.Date(2001, 2, 3, 4, 5, 6, 0, time.UTC)
	case 8: // negative MaxAge (delete now), with a value
		c.MaxAge = -1
	case 9: // past Expires together with other attributes
		c.Expires, c.Path, c.HTTPOnly = time.Date(1999, 12, 31, 23, 59, 59, 0, time.UTC), "/x", true
	}
	return c
}

func hc(s string) string {
	if s == "" {
		return "_"
	}
	return hex.EncodeToString([]byte(s))
}

func jarField(j []kv) string {
	if len(j) == 0 {
		return "-"
	}
	out := make([]string, len(j))
	for i, e := range j {
		out[i] = hc(e.k) + ":" + hc(e.v)
	}
	return strings.Join(out, ",")
}

func applyMuts(v []byte, ms []mut) []byte {
	v = append([]byte(nil), v...)
	for _, m := range ms {
		switch m.kind {
		case 'r':
			if m.pos < len(v) && len(m.data) == 1 {
				v[m.pos] = m.data[0]
			}
		case 'f':
			if m.pos < len(v) && len(m.data) == 1 {
				i := strings.IndexByte(alphabet, v[m.pos])
				switch {
				case m.data[0] == 3:
					v[m.pos] |= 0x80
				case i < 0:
					v[m.pos] = 'A'
				case m.data[0] == 1:
					v[m.pos] = alphabet[(i+1)%64]
				default:
					v[m.pos] = alphabet[(i+32)%64]
				}
			}
		case 't':
			if m.pos < len(v) {
				v = v[:m.pos]
			}
		case 'a':
			v = append(v, m.data...)
		case 'p':
			v = append(append([]byte(nil), m.data...), v...)
		case 'd':
			if m.pos < len(v) {
				v = append(v[:m.pos:m.pos], v[m.pos+1:]...)
			}
		case 'n':
			if m.pos <= len(v) {
				v = append(v[:m.pos:m.pos], append(append([]byte(nil), m.data...), v[m.pos:]...)...)
			}
		}
	}
	return v
}

type lateOut struct {
	replace bool
	c       rcookie
}

type stepOut struct {
	jar, enum, look []kv
	stored          []string // Cookie header values as fasthttp stored them (before any cookie access)
	direct          []kv     // req.Header.SetCookie calls made on top
	lookKeys        []string
	bind            [][]string // key, values...
	bindErr         bool
	hdr             string
	hdrOthers       []string  // every other rendering of the Cookie header a handler can ask for
	rawHdrBad       bool      // RequestHeader.RawHeaders() is not what the client sent
	opre            []rcookie // response cookies when the middleware is entered
	pre             []rcookie // ... when the handler behind it is done
	mid             []rcookie // ... where the middleware is left
	midTaken        bool
	late            []lateOut // cookie writes executed after that
	post            []rcookie // on the wire (key, raw + parse)
	opens           []string  // "x" or hc(plaintext), for mid
	nextCalls       int
	nextResult      bool
	panicked        bool
	ran             bool
	wireBad         bool
}

// validHeaderValue: what fasthttp's request parser accepts inside a header value (RFC 7230).
// (Leading/trailing blanks are trimmed by its header scanner; the J snapshot shows the result.)
func validHeaderValue(v []byte) bool {
	for _, c := range v {
		if c != '\t' && (c < 0x20 || c == 0x7f) {
			return false
		}
	}
	return true
}

var errMangled = fmt.Errorf("mangled")

// buildRequest returns the header block it sent (what RawHeaders() must show)
func buildRequest(hdrs [][]byte, direct []kv, skip bool, req *fasthttp.Request) (string, error) {
	var raw bytes.Buffer
	raw.WriteString("GET / HTTP/1.1\r\n")
	start := raw.Len()
	raw.WriteString("Host: x\r\n")
	if skip {
		raw.WriteString("X-Skip: 1\r\n")
	}
	for _, h := range hdrs {
		if !validHeaderValue(h) {
			return "", errMangled
		}
		raw.WriteString("Cookie: ")
		raw.Write(h)
		raw.WriteString("\r\n")
	}
	raw.WriteString("\r\n")
	block := string(raw.Bytes()[start:])
	if err := req.Read(bufio.NewReaderSize(bytes.NewReader(raw.Bytes()), raw.Len()+4096)); err != nil {
		return "", err
	}
	for _, d := range direct {
		req.Header.SetCookie(d.k, d.v)
	}
	return block, nil
}

func snapshot(h *fasthttp.ResponseHeader) []rcookie {
	var out []rcookie
	h.VisitAllCookie(func(k, v []byte) {
		pk, pv, tl := parseSetCookie(string(v))
		out = append(out, rcookie{key: string(k), raw: string(v), pkey: pk, pvalue: pv, tail: tl})
	})
	return out
}

// applyLate executes one cookie write of code that is not behind the middleware and reports what it
// stored: c.Cookie = ResponseHeader.SetCookie (replaces the first cookie stored under that key, else
// appends), Header.Add appends.
func applyLate(ctx fiber.Ctx, o op) lateOut {
	h := &ctx.Response().Header
	if o.kind == 'C' {
		ctx.Cookie(mkCookie(o))
		raw := string(h.PeekCookie(o.name))
		pk, pv, tl := parseSetCookie(raw)
		return lateOut{true, rcookie{key: o.name, raw: raw, pkey: pk, pvalue: pv, tail: tl}}
	}
	h.Add("Set-Cookie", o.value)
	all := snapshot(h)
	return lateOut{false, all[len(all)-1]}
}

func applyOp(ctx fiber.Ctx, o op) {
	switch o.kind {
	case 'C':
		ctx.Cookie(mkCookie(o))
	case 'A':
		ctx.Response().Header.Add("Set-Cookie", o.value)
	case 'X':
		if o.name == "" {
			ctx.ClearCookie()
		} else {
			ctx.ClearCookie(o.name)
		}
	}
}

func runCase(id string, c cfgIn, steps []step) (aux, obs string, err error) {
	h := fnv.New64a()
	h.Write([]byte(id))
	rnd := gen.New(h.Sum64())
	saved := crand.Reader
	crand.Reader = &detReader{r: rnd.Fork(1)}
	defer func() { crand.Reader = saved }()
	sealRnd := rnd.Fork(2)

	var cur *stepOut
	var curStep step

	conf := encryptcookie.Config{Key: c.key, Except: c.except}
	switch c.mode {
	case 1:
		conf.Encryptor, conf.Decryptor = encryptcookie.EncryptCookie, encryptcookie.DecryptCookie
	case 2, 3:
		faulty := c.mode == 3
		conf.Encryptor = func(v, k string) (string, error) {
			if faulty && strings.HasPrefix(v, "ERR") {
				return "", fmt.Errorf("encryptor refuses")
			}
			if faulty && strings.HasPrefix(v, "PANIC") {
				panic("encryptor panics")
			}
			s, e := encryptcookie.EncryptCookie(v, k)
			if e != nil {
				return "", e
			}
			return wrap(s), nil
		}
		conf.Decryptor = func(v, k string) (string, error) {
			if faulty && strings.HasPrefix(v, "PANIC") {
				panic("decryptor panics")
			}
			s, ok := unwrap(v)
			if !ok {
				return "", fmt.Errorf("not wrapped")
			}
			return encryptcookie.DecryptCookie(s, k)
		}
	}
	switch c.next {
	case 1:
		conf.Next = func(fiber.Ctx) bool { cur.nextCalls++; cur.nextResult = false; return false }
	case 2:
		conf.Next = func(ctx fiber.Ctx) bool {
			cur.nextCalls++
			cur.nextResult = ctx.Get("X-Skip") == "1"
			return cur.nextResult
		}
	case 3:
		conf.Next = func(fiber.Ctx) bool { cur.nextCalls++; cur.nextResult = true; return true }
	}
	app := fiber.New(fiber.Config{ErrorHandler: func(ctx fiber.Ctx, e error) error {
		// code that is not behind the middleware: its cookies are written after the response loop
		for _, o := range curStep.ehOps {
			cur.late = append(cur.late, applyLate(ctx, o))
		}
		return fiber.DefaultErrorHandler(ctx, e)
	}})
	var mw fiber.Handler
	ctorPanic := false
	func() {
		defer func() {
			if r := recover(); r != nil {
				ctorPanic = true
			}
		}()
		mw = encryptcookie.New(conf)
	}()
	if ctorPanic {
		return "-", "ctorpanic", nil
	}
	if c.rec {
		app.Use(rec.New())
	}
	// the observer: a middleware registered in front of encryptcookie
	app.Use(func(ctx fiber.Ctx) error {
		st := cur
		for _, o := range curStep.outerPre {
			applyOp(ctx, o)
		}
		st.opre = snapshot(&ctx.Response().Header)
		returned := false
		defer func() {
			if !returned { // a panic passes through
				st.mid, st.midTaken = snapshot(&ctx.Response().Header), true
			}
		}()
		e := ctx.Next()
		returned = true
		st.mid, st.midTaken = snapshot(&ctx.Response().Header), true
		for _, o := range curStep.outerPost {
			st.late = append(st.late, applyLate(ctx, o))
		}
		return e
	})
	app.Use(mw)
	app.Use(func(ctx fiber.Ctx) error {
		st := cur
		st.ran = true
		ctx.Request().Header.VisitAllCookie(func(k, v []byte) {
			st.enum = append(st.enum, kv{string(k), string(v)})
		})
		for _, k := range st.lookKeys {
			st.look = append(st.look, kv{k, strings.Clone(ctx.Cookies(k))})
		}
		m := map[string][]string{}
		if e := ctx.Bind().Cookie(&m); e != nil {
			st.bindErr = true
		}
		seen := map[string]bool{}
		for _, e := range st.enum {
			if !seen[e.k] {
				seen[e.k] = true
				row := []string{e.k}
				for _, v := range m[e.k] {
					row = append(row, strings.Clone(v))
				}
				st.bind = append(st.bind, row)
			}
		}
		st.hdr = strings.Clone(ctx.Get("Cookie"))
		// every other way to ask for the Cookie header: PeekAll, the re-serialised header block,
		// the header map
		others := map[string]bool{}
		for _, v := range ctx.Request().Header.PeekAll("Cookie") {
			others[string(v)] = true
		}
		// (the Cookie line is the last header of the re-serialised block; a cookie value may itself
		// contain CR/LF when it was put into the request with SetCookie, so no splitting into lines)
		if blk := ctx.Request().Header.String(); true {
			if i := strings.Index(blk, "\r\nCookie: "); i >= 0 {
				others[strings.TrimSuffix(blk[i+len("\r\nCookie: "):], "\r\n\r\n")] = true
			}
		}
		for k, vs := range ctx.GetReqHeaders() {
			if strings.EqualFold(k, "Cookie") {
				for _, v := range vs {
					others[v] = true
				}
			}
		}
		for v := range others {
			st.hdrOthers = append(st.hdrOthers, v)
		}
		sort.Strings(st.hdrOthers)
		if string(ctx.Request().Header.RawHeaders()) != curRaw {
			st.rawHdrBad = true
		}
		fail, pan := false, false
		for _, o := range curStep.ops {
			switch o.kind {
			case 'E':
				fail = true
			case 'P':
				pan = true
			default:
				applyOp(ctx, o)
			}
		}
		st.pre = snapshot(&ctx.Response().Header)
		if pan {
			panic("handler panicked")
		}
		if fail {
			return fiber.NewError(fiber.StatusTeapot, "handler failed")
		}
		return nil
	})
	handler := app.Handler()

	outs := make([]*stepOut, len(steps))
	materialise := func(ps []piece) []byte {
		var out []byte
		for _, p := range ps {
			var v []byte
			switch p.kind {
			case 'x':
				v = p.lit
			case 'o':
				v = []byte(refSeal(c.mode, c.okey, string(p.lit), sealRnd))
			case 'i':
				if p.s < len(outs) && outs[p.s] != nil && p.j < len(outs[p.s].post) {
					v = []byte(outs[p.s].post[p.j].pvalue)
				}
			}
			out = append(out, applyMuts(v, p.muts)...)
		}
		return out
	}

	for si, s := range steps {
		st := &stepOut{}
		var hdrs [][]byte
		var direct []kv
		for _, x := range s.srcs {
			if x.kind == 'H' {
				hdrs = append(hdrs, materialise(x.val))
			} else {
				direct = append(direct, kv{string(materialise(x.key)), string(materialise(x.val))})
			}
		}
		// the request cookies as fasthttp sees them, taken from a second, untouched copy
		var probe fasthttp.Request
		if _, e := buildRequest(hdrs, direct, s.skip, &probe); e != nil {
			return "", "", errMangled
		}
		var probe2 fasthttp.Request
		if _, e := buildRequest(hdrs, nil, s.skip, &probe2); e != nil {
			return "", "", errMangled
		}
		for _, v := range probe2.Header.PeekAll("Cookie") {
			st.stored = append(st.stored, string(v))
		}
		st.direct = direct
		probe.Header.VisitAllCookie(func(k, v []byte) { st.jar = append(st.jar, kv{string(k), string(v)}) })
		seen := map[string]bool{}
		for _, e := range st.jar {
			if !seen[e.k] {
				seen[e.k] = true
				st.lookKeys = append(st.lookKeys, e.k)
			}
		}
		for _, e := range append(append([]string(nil), c.except...), "zz-absent") {
			if !seen[e] {
				seen[e] = true
				st.lookKeys = append(st.lookKeys, e)
			}
		}
		var req fasthttp.Request
		block, e := buildRequest(hdrs, direct, s.skip, &req)
		if e != nil {
			return "", "", errMangled
		}
		var fctx fasthttp.RequestCtx
		fctx.Init(&req, nil, nil)
		cur, curStep, curRaw = st, s, block
		func() {
			defer func() {
				if r := recover(); r != nil {
					st.panicked = true
				}
			}()
			handler(&fctx)
		}()
		if !st.midTaken {
			return "", "", fmt.Errorf("observer did not run")
		}
		if !st.ran {
			st.pre = st.opre
		}
		if !st.panicked {
			st.post = snapshot(&fctx.Response.Header)
			// the bytes on the wire must be the same list
			var wire []string
			for _, l := range strings.Split(string(fctx.Response.Header.Header()), "\r\n") {
				if strings.HasPrefix(l, "Set-Cookie: ") {
					wire = append(wire, l[len("Set-Cookie: "):])
				}
			}
			if len(wire) != len(st.post) {
				st.wireBad = true
			} else {
				for i := range wire {
					if wire[i] != st.post[i].raw {
						st.wireBad = true
					}
				}
			}
		}
		// nameless cookies of the handler keep their position through the middleware (and on the wire,
		// unless a late write replaced them)
		for i := range st.mid {
			if i < len(st.pre) && st.pre[i].pkey == "" && st.mid[i].pkey != "" {
				st.mid[i] = asNameless(st.mid[i])
			}
			if i < len(st.post) && st.post[i].raw == st.mid[i].raw && st.mid[i].nameless {
				st.post[i] = asNameless(st.post[i])
			}
		}
		for _, p := range st.mid {
			if pl, ok := refOpen(c.mode, c.key, p.pvalue); ok {
				st.opens = append(st.opens, hc(pl))
			} else {
				st.opens = append(st.opens, "x")
			}
		}
		outs[si] = st
	}

	lst := func(x []string) string {
		if len(x) == 0 {
			return "-"
		}
		return strings.Join(x, ",")
	}
	full := func(rs []rcookie) string {
		out := []string{}
		for _, r := range rs {
			out = append(out, strings.Join([]string{hc(r.key), hc(r.raw), hc(r.pkey), hc(r.pvalue), hc(r.tail)}, ":"))
		}
		return lst(out)
	}
	parseOnly := func(rs []rcookie) string {
		out := []string{}
		for _, r := range rs {
			e := strings.Join([]string{hc(r.pkey), hc(r.pvalue), hc(r.tail)}, ":")
			if r.nameless {
				e += ":n"
			}
			out = append(out, e)
		}
		return lst(out)
	}
	keyRaw := func(rs []rcookie) string {
		var j []kv
		for _, r := range rs {
			j = append(j, kv{r.key, r.raw})
		}
		return jarField(j)
	}
	var auxs, obss []string
	for si, st := range outs {
		s := steps[si]
		ks := make([]string, len(st.lookKeys))
		for i, k := range st.lookKeys {
			ks[i] = hc(k)
		}
		qs := make([]string, len(st.stored))
		for i, v := range st.stored {
			qs[i] = hc(v)
		}
		skip := "0"
		if c.next == 3 || (c.next == 2 && s.skip) {
			skip = "1"
		}
		flow := "o"
		for _, o := range s.ops {
			if o.kind == 'E' {
				flow = "e"
			}
			if o.kind == 'P' {
				flow = "p"
			}
		}
		if !st.ran {
			flow = "o" // no handler behind the middleware ran: nothing it could do
		}
		var lates []string
		for _, l := range st.late {
			k := "a"
			if l.replace {
				k = "r"
			}
			lates = append(lates, strings.Join([]string{k, hc(l.c.key), hc(l.c.raw), hc(l.c.pkey), hc(l.c.pvalue), hc(l.c.tail)}, ":"))
		}
		auxs = append(auxs, "J"+jarField(st.jar)+"/K"+lst(ks)+"/R"+full(st.pre)+"/P"+parseOnly(st.mid)+"/T"+lst(st.opens)+
			"/Q"+lst(qs)+"/D"+jarField(st.direct)+"/N"+skip+"/F"+flow+"/O"+full(st.opre)+"/A"+lst(lates)+"/U"+parseOnly(st.post))
		var bs []string
		for _, row := range st.bind {
			cs := make([]string, len(row))
			for i, v := range row {
				cs[i] = hc(v)
			}
			bs = append(bs, strings.Join(cs, ":"))
		}
		w := "panic"
		if !st.panicked {
			w = keyRaw(st.post)
			if st.wireBad {
				w += "!wire"
			}
		}
		hs := []string{hc(st.hdr)}
		for _, v := range st.hdrOthers {
			hs = append(hs, hc(v))
		}
		nx := "-"
		if c.next != 0 || st.nextCalls != 0 {
			r := 0
			if st.nextResult {
				r = 1
			}
			nx = fmt.Sprintf("%d.%d", st.nextCalls, r)
		}
		ran := "1"
		if !st.ran {
			ran = "0"
		}
		o := "V" + ran + "/E" + jarField(st.enum) + "/L" + jarField(st.look) + "/B" + lst(bs) + "/H" + strings.Join(hs, ":") +
			"/N" + nx + "/M" + keyRaw(st.mid) + "/W" + w
		if st.bindErr {
			o += "!binderr"
		}
		if st.rawHdrBad {
			o += "!rawhdr"
		}
		obss = append(obss, o)
	}
	return strings.Join(auxs, ";"), strings.Join(obss, ";"), nil
}

// the header block of the request being served (what RequestHeader.RawHeaders() must show)
var curRaw string

func emit(w *gen.Writer, id string, c cfgIn, steps []step) {
	if len(steps) == 0 {
		return
	}
	aux, obs, err := runCase(id, c, steps)
	if err != nil {
		w.Count("skipped-unbuildable")
		return
	}
	w.Case(id, gen.Hex(c.key), gen.HexList(c.except), c.modeField(), gen.Hex(c.okey), stepsString(steps), aux, obs)
}

func main() {
	log.SetOutput(io.Discard)
	o := gen.ParseFlags()
	w := gen.NewWriter(o.Out)
	defer w.Close()
	if o.Replay != "" {
		for _, f := range gen.ReplayInputs(o.Replay) {
			func() {
				defer func() {
					if r := recover(); r != nil {
						w.Count("replay-skipped")
					}
				}()
				if len(f) < 6 {
					return
				}
				mode, next, rc, ok := parseModeField(f[3])
				if !ok {
					return
				}
				steps, ok := parseSteps(f[5])
				if !ok {
					return
				}
				c := cfgIn{key: gen.UnHex(f[1]), except: gen.UnHexList(f[2]), mode: mode, next: next, rec: rc, okey: gen.UnHex(f[4])}
				emit(w, f[0], c, steps)
			}()
		}
		return
	}
	generate(w, o)
}
