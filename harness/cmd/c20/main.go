// Harness for C20: runs the real encryptcookie middleware (real AES-GCM) behind app.Handler() on
// generated histories and writes one case line per history.
//
// case <id> key except mode okey steps | aux | obs
//
//	key    hex of Config.Key (the base64 text)          except  hexlist of Config.Except
//	mode   0 = Encryptor/Decryptor left nil (defaults), 1 = the exported EncryptCookie/DecryptCookie
//	       given explicitly, 2 = custom pair (tag 'X' + reversed text around the default pair)
//	okey   hex of another key text (for "encrypted under another key" pieces)
//	steps  symbolic history (what -replay re-executes), see parseSteps
//	aux    facts the harness derives with fasthttp / stdlib crypto and the Lean side takes as given:
//	       per step  J<request cookies as fasthttp parsed them, before the middleware>
//	                 /K<names looked up> /R<response cookies as the handler left them, with parse>
//	                 /P<parse of the response cookies after the middleware>
//	                 /T<independent AES-GCM open of each value after the middleware, under `key`>
//	                 /Q<Cookie header values as fasthttp stored them> /D<direct SetCookie calls on top>
//	obs    what the implementation did, per step:
//	       E<cookies the handler enumerates> /L<c.Cookies(name)> /B<Bind().Cookie map> /H<c.Get("Cookie")>
//	       /W<Set-Cookie list on the wire | panic>
package main

import (
	"bufio"
	"bytes"
	"crypto/aes"
	"crypto/cipher"
	crand "crypto/rand"
	"encoding/base64"
	"encoding/hex"
	"fmt"
	"hash/fnv"
	"io"
	"strconv"
	"strings"
	"time"

	"github.com/gofiber/fiber/v3"
	"github.com/gofiber/fiber/v3/log"
	"github.com/gofiber/fiber/v3/middleware/encryptcookie"
	"github.com/valyala/fasthttp"

	"verifharness/internal/gen"
)

// ---------------------------------------------------------------------------------------------
// deterministic randomness for crypto/rand.Reader (nonces): distinct, reproducible per case id

type detReader struct{ r *gen.Rand }

func (d *detReader) Read(p []byte) (int, error) {
	for i := range p {
		p[i] = byte(d.r.U64())
	}
	return len(p), nil
}

// ---------------------------------------------------------------------------------------------
// symbolic history

type mut struct {
	kind byte // r replace, f relative change, t truncate, a append, p prepend, d delete, n insert
	pos  int
	data []byte
}

type piece struct {
	kind byte // x literal, i issued value (step s, cookie j), o literal plaintext sealed under okey
	lit  []byte
	s, j int
	muts []mut
}

type src struct {
	kind byte // H: one Cookie header line; D: req.Header.SetCookie(key, value)
	key  []piece
	val  []piece
}

type op struct {
	kind  byte // C: c.Cookie(...), A: Response().Header.Add("Set-Cookie", raw)
	name  string
	value string
	attr  int
}

type step struct {
	srcs []src
	ops  []op
}

type cfgIn struct {
	key    string
	except []string
	mode   int
	okey   string
}

func hx(b []byte) string { return hex.EncodeToString(b) }

func (m mut) String() string {
	switch m.kind {
	case 'r', 'n', 'f':
		return fmt.Sprintf("@%c%d:%s", m.kind, m.pos, hx(m.data))
	case 't', 'd':
		return fmt.Sprintf("@%c%d", m.kind, m.pos)
	default:
		return fmt.Sprintf("@%c%s", m.kind, hx(m.data))
	}
}

func (p piece) String() string {
	var sb strings.Builder
	switch p.kind {
	case 'x':
		sb.WriteString("x" + hx(p.lit))
	case 'o':
		sb.WriteString("o" + hx(p.lit))
	default:
		fmt.Fprintf(&sb, "i%d_%d", p.s, p.j)
	}
	for _, m := range p.muts {
		sb.WriteString(m.String())
	}
	return sb.String()
}

func piecesString(ps []piece) string {
	out := make([]string, len(ps))
	for i, p := range ps {
		out[i] = p.String()
	}
	return strings.Join(out, "+")
}

func (s step) String() string {
	var a, b []string
	for _, x := range s.srcs {
		if x.kind == 'H' {
			a = append(a, "H"+piecesString(x.val))
		} else {
			a = append(a, "D"+piecesString(x.key)+"="+piecesString(x.val))
		}
	}
	for _, o := range s.ops {
		switch o.kind {
		case 'C':
			b = append(b, fmt.Sprintf("C%s:%s:%d", hx([]byte(o.name)), hx([]byte(o.value)), o.attr))
		case 'E':
			b = append(b, "E")
		default:
			b = append(b, "A"+hx([]byte(o.value)))
		}
	}
	l, r := "-", "-"
	if len(a) > 0 {
		l = strings.Join(a, "!")
	}
	if len(b) > 0 {
		r = strings.Join(b, "!")
	}
	return l + "~" + r
}

func stepsString(ss []step) string {
	out := make([]string, len(ss))
	for i, s := range ss {
		out[i] = s.String()
	}
	return strings.Join(out, ";")
}

func unhx(s string) ([]byte, bool) {
	b, err := hex.DecodeString(s)
	return b, err == nil
}

func parseMut(s string) (mut, bool) {
	if s == "" {
		return mut{}, false
	}
	m := mut{kind: s[0]}
	rest := s[1:]
	switch m.kind {
	case 'r', 'n', 'f':
		i := strings.IndexByte(rest, ':')
		if i < 0 {
			return m, false
		}
		p, err := strconv.Atoi(rest[:i])
		d, ok := unhx(rest[i+1:])
		if err != nil || !ok || p < 0 {
			return m, false
		}
		m.pos, m.data = p, d
	case 't', 'd':
		p, err := strconv.Atoi(rest)
		if err != nil || p < 0 {
			return m, false
		}
		m.pos = p
	case 'a', 'p':
		d, ok := unhx(rest)
		if !ok {
			return m, false
		}
		m.data = d
	default:
		return m, false
	}
	return m, true
}

func parsePiece(s string) (piece, bool) {
	parts := strings.Split(s, "@")
	h := parts[0]
	if h == "" {
		return piece{}, false
	}
	p := piece{kind: h[0]}
	switch p.kind {
	case 'x', 'o':
		d, ok := unhx(h[1:])
		if !ok {
			return p, false
		}
		p.lit = d
	case 'i':
		ab := strings.Split(h[1:], "_")
		if len(ab) != 2 {
			return p, false
		}
		a, e1 := strconv.Atoi(ab[0])
		b, e2 := strconv.Atoi(ab[1])
		if e1 != nil || e2 != nil || a < 0 || b < 0 {
			return p, false
		}
		p.s, p.j = a, b
	default:
		return p, false
	}
	for _, ms := range parts[1:] {
		m, ok := parseMut(ms)
		if !ok {
			return p, false
		}
		p.muts = append(p.muts, m)
	}
	return p, true
}

func parsePieces(s string) ([]piece, bool) {
	if s == "" {
		return nil, true
	}
	var out []piece
	for _, x := range strings.Split(s, "+") {
		p, ok := parsePiece(x)
		if !ok {
			return nil, false
		}
		out = append(out, p)
	}
	return out, true
}

func parseSteps(s string) ([]step, bool) {
	var out []step
	if s == "" || s == "-" {
		return nil, false
	}
	for _, st := range strings.Split(s, ";") {
		lr := strings.Split(st, "~")
		if len(lr) != 2 {
			return nil, false
		}
		var cur step
		if lr[0] != "-" {
			for _, x := range strings.Split(lr[0], "!") {
				if x == "" {
					return nil, false
				}
				switch x[0] {
				case 'H':
					ps, ok := parsePieces(x[1:])
					if !ok {
						return nil, false
					}
					cur.srcs = append(cur.srcs, src{kind: 'H', val: ps})
				case 'D':
					kv := strings.SplitN(x[1:], "=", 2)
					if len(kv) != 2 {
						return nil, false
					}
					k, ok1 := parsePieces(kv[0])
					v, ok2 := parsePieces(kv[1])
					if !ok1 || !ok2 {
						return nil, false
					}
					cur.srcs = append(cur.srcs, src{kind: 'D', key: k, val: v})
				default:
					return nil, false
				}
			}
		}
		if lr[1] != "-" {
			for _, x := range strings.Split(lr[1], "!") {
				if x == "" {
					return nil, false
				}
				switch x[0] {
				case 'C':
					f := strings.Split(x[1:], ":")
					if len(f) != 3 {
						return nil, false
					}
					n, ok1 := unhx(f[0])
					v, ok2 := unhx(f[1])
					a, err := strconv.Atoi(f[2])
					if !ok1 || !ok2 || err != nil || a < 0 || a >= nAttr {
						return nil, false
					}
					cur.ops = append(cur.ops, op{kind: 'C', name: string(n), value: string(v), attr: a})
				case 'A':
					v, ok := unhx(x[1:])
					if !ok {
						return nil, false
					}
					cur.ops = append(cur.ops, op{kind: 'A', value: string(v)})
				case 'E':
					// the handler returns an error after its other operations: the response then goes
					// through the error handler, and its cookies must be encrypted all the same
					if x != "E" {
						return nil, false
					}
					cur.ops = append(cur.ops, op{kind: 'E'})
				default:
					return nil, false
				}
			}
		}
		out = append(out, cur)
	}
	return out, true
}

// ---------------------------------------------------------------------------------------------
// independent reference crypto (stdlib only, never the code under test)

func wrap(s string) string {
	b := []byte(s)
	for i, j := 0, len(b)-1; i < j; i, j = i+1, j-1 {
		b[i], b[j] = b[j], b[i]
	}
	return "X" + string(b)
}

func unwrap(s string) (string, bool) {
	if len(s) == 0 || s[0] != 'X' {
		return "", false
	}
	b := []byte(s[1:])
	for i, j := 0, len(b)-1; i < j; i, j = i+1, j-1 {
		b[i], b[j] = b[j], b[i]
	}
	return string(b), true
}

func refGCM(keyText string) (cipher.AEAD, bool) {
	k, err := base64.StdEncoding.DecodeString(keyText)
	if err != nil || (len(k) != 16 && len(k) != 24 && len(k) != 32) {
		return nil, false
	}
	blk, err := aes.NewCipher(k)
	if err != nil {
		return nil, false
	}
	g, err := cipher.NewGCM(blk)
	return g, err == nil
}

func refOpen(mode int, keyText, v string) (string, bool) {
	if mode == 2 {
		var ok bool
		if v, ok = unwrap(v); !ok {
			return "", false
		}
	}
	g, ok := refGCM(keyText)
	if !ok {
		return "", false
	}
	data, err := base64.StdEncoding.DecodeString(v)
	if err != nil || len(data) < g.NonceSize() {
		return "", false
	}
	p, err := g.Open(nil, data[:g.NonceSize()], data[g.NonceSize():], nil)
	return string(p), err == nil
}

func refSeal(mode int, keyText, plain string, rnd *gen.Rand) string {
	g, ok := refGCM(keyText)
	if !ok {
		return ""
	}
	nonce := make([]byte, g.NonceSize())
	for i := range nonce {
		nonce[i] = byte(rnd.U64())
	}
	s := base64.StdEncoding.EncodeToString(g.Seal(nonce, nonce, []byte(plain), nil))
	if mode == 2 {
		return wrap(s)
	}
	return s
}

// ---------------------------------------------------------------------------------------------
// running one history against the real middleware

type kv struct{ k, v string }

type rcookie struct{ key, raw, pkey, pvalue, tail string }

func parseSetCookie(raw string) (pkey, pvalue, tail string) {
	var ck fasthttp.Cookie
	_ = ck.Parse(raw) // the middleware ignores the parse error as well
	pkey, pvalue = string(ck.Key()), string(ck.Value())
	ck.SetKey("")
	ck.SetValue("")
	return pkey, pvalue, ck.String()
}

const nAttr = 10

func mkCookie(o op) *fiber.Cookie {
	c := &fiber.Cookie{Name: o.name, Value: o.value}
	switch o.attr {
	case 1:
		c.Path = "/x"
	case 2:
		c.MaxAge, c.Secure, c.HTTPOnly = 3600, true, true
	case 3:
		c.SameSite, c.Domain = "Strict", "example.com"
	case 4:
		c.SessionOnly, c.MaxAge = true, 60
	case 5:
		c.SameSite, c.Partitioned, c.Secure = "None", true, true
	case 6:
		c.Expires = time.Date(2031, 2, 3, 4, 5, 6, 0, time.UTC)
	case 7: // a deletion that still carries a value: Expires in the past
		c.Expires = time.Date(2001, 2, 3, 4, 5, 6, 0, time.UTC)
	case 8: // negative MaxAge (delete now), with a value
		c.MaxAge = -1
	case 9: // past Expires together with other attributes
		c.Expires, c.Path, c.HTTPOnly = time.Date(1999, 12, 31, 23, 59, 59, 0, time.UTC), "/x", true
	}
	return c
}

func hc(s string) string {
	if s == "" {
		return "_"
	}
	return hex.EncodeToString([]byte(s))
}

func jarField(j []kv) string {
	if len(j) == 0 {
		return "-"
	}
	out := make([]string, len(j))
	for i, e := range j {
		out[i] = hc(e.k) + ":" + hc(e.v)
	}
	return strings.Join(out, ",")
}

func applyMuts(v []byte, ms []mut) []byte {
	v = append([]byte(nil), v...)
	for _, m := range ms {
		switch m.kind {
		case 'r':
			if m.pos < len(v) && len(m.data) == 1 {
				v[m.pos] = m.data[0]
			}
		case 'f':
			if m.pos < len(v) && len(m.data) == 1 {
				i := strings.IndexByte(alphabet, v[m.pos])
				switch {
				case m.data[0] == 3:
					v[m.pos] |= 0x80
				case i < 0:
					v[m.pos] = 'A'
				case m.data[0] == 1:
					v[m.pos] = alphabet[(i+1)%64]
				default:
					v[m.pos] = alphabet[(i+32)%64]
				}
			}
		case 't':
			if m.pos < len(v) {
				v = v[:m.pos]
			}
		case 'a':
			v = append(v, m.data...)
		case 'p':
			v = append(append([]byte(nil), m.data...), v...)
		case 'd':
			if m.pos < len(v) {
				v = append(v[:m.pos:m.pos], v[m.pos+1:]...)
			}
		case 'n':
			if m.pos <= len(v) {
				v = append(v[:m.pos:m.pos], append(append([]byte(nil), m.data...), v[m.pos:]...)...)
			}
		}
	}
	return v
}

type stepOut struct {
	jar, enum, look []kv
	stored          []string // Cookie header values as fasthttp stored them (before any cookie access)
	direct          []kv     // req.Header.SetCookie calls made on top
	lookKeys        []string
	bind            [][]string // key, values...
	bindErr         bool
	hdr             string
	pre             []rcookie
	post            []rcookie // after the middleware (key, raw + parse)
	opens           []string  // "x" or hc(plaintext)
	panicked        bool
	ran             bool
	wireBad         bool
}

// validHeaderValue: what fasthttp's request parser accepts inside a header value (RFC 7230).
// (Leading/trailing blanks are trimmed by its header scanner; the J snapshot shows the result.)
func validHeaderValue(v []byte) bool {
	for _, c := range v {
		if c != '\t' && (c < 0x20 || c == 0x7f) {
			return false
		}
	}
	return true
}

var errMangled = fmt.Errorf("mangled")

func buildRequest(hdrs [][]byte, direct []kv, req *fasthttp.Request) error {
	var raw bytes.Buffer
	raw.WriteString("GET / HTTP/1.1\r\nHost: x\r\n")
	for _, h := range hdrs {
		if !validHeaderValue(h) {
			return errMangled
		}
		raw.WriteString("Cookie: ")
		raw.Write(h)
		raw.WriteString("\r\n")
	}
	raw.WriteString("\r\n")
	if err := req.Read(bufio.NewReaderSize(bytes.NewReader(raw.Bytes()), raw.Len()+4096)); err != nil {
		return err
	}
	for _, d := range direct {
		req.Header.SetCookie(d.k, d.v)
	}
	return nil
}

func runCase(id string, c cfgIn, steps []step) (aux, obs string, err error) {
	h := fnv.New64a()
	h.Write([]byte(id))
	rnd := gen.New(h.Sum64())
	saved := crand.Reader
	crand.Reader = &detReader{r: rnd.Fork(1)}
	defer func() { crand.Reader = saved }()
	sealRnd := rnd.Fork(2)

	conf := encryptcookie.Config{Key: c.key, Except: c.except}
	switch c.mode {
	case 1:
		conf.Encryptor, conf.Decryptor = encryptcookie.EncryptCookie, encryptcookie.DecryptCookie
	case 2:
		conf.Encryptor = func(v, k string) (string, error) {
			s, e := encryptcookie.EncryptCookie(v, k)
			if e != nil {
				return "", e
			}
			return wrap(s), nil
		}
		conf.Decryptor = func(v, k string) (string, error) {
			s, ok := unwrap(v)
			if !ok {
				return "", fmt.Errorf("not wrapped")
			}
			return encryptcookie.DecryptCookie(s, k)
		}
	}
	var cur *stepOut
	var curOps []op
	app := fiber.New()
	ctorPanic := false
	func() {
		defer func() {
			if r := recover(); r != nil {
				ctorPanic = true
			}
		}()
		app.Use(encryptcookie.New(conf))
	}()
	if ctorPanic {
		return "-", "ctorpanic", nil
	}
	app.Use(func(ctx fiber.Ctx) error {
		st := cur
		st.ran = true
		ctx.Request().Header.VisitAllCookie(func(k, v []byte) {
			st.enum = append(st.enum, kv{string(k), string(v)})
		})
		for _, k := range st.lookKeys {
			st.look = append(st.look, kv{k, strings.Clone(ctx.Cookies(k))})
		}
		m := map[string][]string{}
		if e := ctx.Bind().Cookie(&m); e != nil {
			st.bindErr = true
		}
		seen := map[string]bool{}
		for _, e := range st.enum {
			if !seen[e.k] {
				seen[e.k] = true
				row := []string{e.k}
				for _, v := range m[e.k] {
					row = append(row, strings.Clone(v))
				}
				st.bind = append(st.bind, row)
			}
		}
		st.hdr = strings.Clone(ctx.Get("Cookie"))
		fail := false
		for _, o := range curOps {
			switch o.kind {
			case 'C':
				ctx.Cookie(mkCookie(o))
			case 'E':
				fail = true
			default:
				ctx.Response().Header.Add("Set-Cookie", o.value)
			}
		}
		ctx.Response().Header.VisitAllCookie(func(k, v []byte) {
			pk, pv, tl := parseSetCookie(string(v))
			st.pre = append(st.pre, rcookie{string(k), string(v), pk, pv, tl})
		})
		if fail {
			return fiber.NewError(fiber.StatusTeapot, "handler failed")
		}
		return nil
	})
	handler := app.Handler()

	outs := make([]*stepOut, len(steps))
	materialise := func(ps []piece) []byte {
		var out []byte
		for _, p := range ps {
			var v []byte
			switch p.kind {
			case 'x':
				v = p.lit
			case 'o':
				v = []byte(refSeal(c.mode, c.okey, string(p.lit), sealRnd))
			case 'i':
				if p.s < len(outs) && outs[p.s] != nil && p.j < len(outs[p.s].post) {
					v = []byte(outs[p.s].post[p.j].pvalue)
				}
			}
			out = append(out, applyMuts(v, p.muts)...)
		}
		return out
	}

	for si, s := range steps {
		st := &stepOut{}
		var hdrs [][]byte
		var direct []kv
		for _, x := range s.srcs {
			if x.kind == 'H' {
				hdrs = append(hdrs, materialise(x.val))
			} else {
				direct = append(direct, kv{string(materialise(x.key)), string(materialise(x.val))})
			}
		}
		// the request cookies as fasthttp sees them, taken from a second, untouched copy
		var probe fasthttp.Request
		if e := buildRequest(hdrs, direct, &probe); e != nil {
			return "", "", errMangled
		}
		var probe2 fasthttp.Request
		if e := buildRequest(hdrs, nil, &probe2); e != nil {
			return "", "", errMangled
		}
		for _, v := range probe2.Header.PeekAll("Cookie") {
			st.stored = append(st.stored, string(v))
		}
		st.direct = direct
		probe.Header.VisitAllCookie(func(k, v []byte) { st.jar = append(st.jar, kv{string(k), string(v)}) })
		seen := map[string]bool{}
		for _, e := range st.jar {
			if !seen[e.k] {
				seen[e.k] = true
				st.lookKeys = append(st.lookKeys, e.k)
			}
		}
		for _, e := range append(append([]string(nil), c.except...), "zz-absent") {
			if !seen[e] {
				seen[e] = true
				st.lookKeys = append(st.lookKeys, e)
			}
		}
		var req fasthttp.Request
		if e := buildRequest(hdrs, direct, &req); e != nil {
			return "", "", errMangled
		}
		var fctx fasthttp.RequestCtx
		fctx.Init(&req, nil, nil)
		cur, curOps = st, s.ops
		func() {
			defer func() {
				if r := recover(); r != nil {
					st.panicked = true
				}
			}()
			handler(&fctx)
		}()
		if !st.panicked {
			fctx.Response.Header.VisitAllCookie(func(k, v []byte) {
				pk, pv, tl := parseSetCookie(string(v))
				st.post = append(st.post, rcookie{string(k), string(v), pk, pv, tl})
			})
			// the bytes on the wire must be the same list
			var wire []string
			for _, l := range strings.Split(string(fctx.Response.Header.Header()), "\r\n") {
				if strings.HasPrefix(l, "Set-Cookie: ") {
					wire = append(wire, l[len("Set-Cookie: "):])
				}
			}
			if len(wire) != len(st.post) {
				st.wireBad = true
			} else {
				for i := range wire {
					if wire[i] != st.post[i].raw {
						st.wireBad = true
					}
				}
			}
			for _, p := range st.post {
				if pl, ok := refOpen(c.mode, c.key, p.pvalue); ok {
					st.opens = append(st.opens, hc(pl))
				} else {
					st.opens = append(st.opens, "x")
				}
			}
		}
		outs[si] = st
	}

	var auxs, obss []string
	for _, st := range outs {
		ks := make([]string, len(st.lookKeys))
		for i, k := range st.lookKeys {
			ks[i] = hc(k)
		}
		rs, ps := []string{}, []string{}
		for _, r := range st.pre {
			rs = append(rs, strings.Join([]string{hc(r.key), hc(r.raw), hc(r.pkey), hc(r.pvalue), hc(r.tail)}, ":"))
		}
		for _, r := range st.post {
			ps = append(ps, strings.Join([]string{hc(r.pkey), hc(r.pvalue), hc(r.tail)}, ":"))
		}
		lst := func(x []string) string {
			if len(x) == 0 {
				return "-"
			}
			return strings.Join(x, ",")
		}
		qs := make([]string, len(st.stored))
		for i, v := range st.stored {
			qs[i] = hc(v)
		}
		auxs = append(auxs, "J"+jarField(st.jar)+"/K"+lst(ks)+"/R"+lst(rs)+"/P"+lst(ps)+"/T"+lst(st.opens)+
			"/Q"+lst(qs)+"/D"+jarField(st.direct))
		var bs []string
		for _, row := range st.bind {
			cs := make([]string, len(row))
			for i, v := range row {
				cs[i] = hc(v)
			}
			bs = append(bs, strings.Join(cs, ":"))
		}
		w := "panic"
		if !st.panicked {
			var post []kv
			for _, r := range st.post {
				post = append(post, kv{r.key, r.raw})
			}
			w = jarField(post)
			if st.wireBad {
				w += "!wire"
			}
		}
		o := "E" + jarField(st.enum) + "/L" + jarField(st.look) + "/B" + lst(bs) + "/H" + hc(st.hdr) + "/W" + w
		if !st.ran {
			// the handler was never reached (the middleware panicked on the way in)
			o = "E-/L-/B-/H_/W" + w + "!norun"
		}
		if st.bindErr {
			o += "!binderr"
		}
		obss = append(obss, o)
	}
	return strings.Join(auxs, ";"), strings.Join(obss, ";"), nil
}

func emit(w *gen.Writer, id string, c cfgIn, steps []step) {
	if len(steps) == 0 {
		return
	}
	aux, obs, err := runCase(id, c, steps)
	if err != nil {
		w.Count("skipped-unbuildable")
		return
	}
	w.Case(id, gen.Hex(c.key), gen.HexList(c.except), gen.I(c.mode), gen.Hex(c.okey), stepsString(steps), aux, obs)
}

func main() {
	log.SetOutput(io.Discard)
	o := gen.ParseFlags()
	w := gen.NewWriter(o.Out)
	defer w.Close()
	if o.Replay != "" {
		for _, f := range gen.ReplayInputs(o.Replay) {
			func() {
				defer func() {
					if r := recover(); r != nil {
						w.Count("replay-skipped")
					}
				}()
				if len(f) < 6 {
					return
				}
				mode, err := strconv.Atoi(f[3])
				if err != nil || mode < 0 || mode > 2 {
					return
				}
				steps, ok := parseSteps(f[5])
				if !ok {
					return
				}
				c := cfgIn{key: gen.UnHex(f[1]), except: gen.UnHexList(f[2]), mode: mode, okey: gen.UnHex(f[4])}
				emit(w, f[0], c, steps)
			}()
		}
		return
	}
	generate(w, o)
}
