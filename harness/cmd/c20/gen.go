package main

import (
	"encoding/base64"
	"fmt"
	"strings"

	"verifharness/internal/gen"
)

// ---------------------------------------------------------------------------------------------
// generators

var namePool = []string{"a", "b", "sid", "token", "csrf_", "CSRF_", "csrf", "csrf_x", "x-y", "A", "id2", "__Host-s", "Sid", "t.k"}
var exceptPool = []string{"csrf_", "csrf_", "sid", "A", "x-y", "token", "", "zz"}

func randBytes(r *gen.Rand, n int) []byte {
	b := make([]byte, n)
	for i := range b {
		b[i] = byte(r.U64())
	}
	return b
}

func genKey(r *gen.Rand) (string, string) {
	switch r.Intn(26) {
	case 0:
		return "", "key-empty"
	case 1:
		n := gen.Pick(r, []int{1, 8, 15, 17, 23, 25, 31, 33, 40, 48, 64})
		return base64.StdEncoding.EncodeToString(randBytes(r, n)), "key-badlen"
	case 2:
		k := base64.StdEncoding.EncodeToString(randBytes(r, gen.Pick(r, []int{16, 24, 32})))
		switch r.Intn(4) {
		case 0:
			return strings.TrimRight(k, "=") + "!", "key-badb64"
		case 1:
			return base64.URLEncoding.EncodeToString(append([]byte{0xfb, 0xff}, randBytes(r, 14)...)), "key-urlalphabet"
		case 2:
			return k[:len(k)-1], "key-truncated"
		default:
			return k + "A", "key-extended"
		}
	case 3:
		// newline inside the key text: ignored by the decoder, so still a valid key
		k := base64.StdEncoding.EncodeToString(randBytes(r, gen.Pick(r, []int{16, 24, 32})))
		i := r.Intn(len(k))
		return k[:i] + gen.Pick(r, []string{"\n", "\r\n", "\r"}) + k[i:], "key-newline"
	case 4:
		// non-canonical padding bits in the key text (16 -> "xx==", 32 -> "xxx="): still valid
		n := gen.Pick(r, []int{16, 32})
		k := []byte(base64.StdEncoding.EncodeToString(randBytes(r, n)))
		i := strings.IndexByte(string(k), '=') - 1
		k[i] = nextAlpha(k[i])
		return string(k), "key-padbits"
	case 5:
		// a key of EVERY decoded length 0..66 (0 = the empty text: constructor panic)
		n := r.Intn(67)
		tag := "key-anylen-invalid"
		if n == 16 || n == 24 || n == 32 {
			tag = fmt.Sprintf("key-%d", n)
		}
		if n == 0 {
			tag = "key-empty"
		}
		return base64.StdEncoding.EncodeToString(randBytes(r, n)), tag
	case 6:
		// a key TEXT of every length 1..70 over the alphabet and '=': almost never valid
		n := 1 + r.Intn(70)
		b := make([]byte, n)
		for i := range b {
			b[i] = (alphabet + "===")[r.Intn(67)]
		}
		k := string(b)
		if d, err := base64.StdEncoding.DecodeString(k); err == nil && (len(d) == 16 || len(d) == 24 || len(d) == 32) {
			return k, fmt.Sprintf("key-%d", len(d))
		}
		return k, "key-anytext-invalid"
	case 8:
		// a valid key text with blanks / a tab / a NUL around or inside it: not valid (only \r and \n are skipped)
		k := base64.StdEncoding.EncodeToString(randBytes(r, gen.Pick(r, []int{16, 24, 32})))
		switch r.Intn(4) {
		case 0:
			return " " + k, "key-blank-around"
		case 1:
			return k + " ", "key-blank-around"
		case 2:
			return k + "\t", "key-blank-around"
		default:
			i := r.Intn(len(k))
			return k[:i] + " " + k[i:], "key-blank-around"
		}
	case 7:
		// texts that decode to nothing or are only padding / blanks: non-empty, so the constructor takes them
		return gen.Pick(r, []string{"\n", "\r\n", "\r\n\r\n", " ", "=", "==", "====", "A", "AA", "AAA", "A===", "AA==", "\t", "\x00", "key", "secret-key-of-some-length!"}), "key-degenerate"
	default:
		n := gen.Pick(r, []int{16, 24, 32})
		return base64.StdEncoding.EncodeToString(randBytes(r, n)), fmt.Sprintf("key-%d", n)
	}
}

const alphabet = "ABCDEFGHIJKLMNOPQRSTUVWXYZabcdefghijklmnopqrstuvwxyz0123456789+/"

func nextAlpha(c byte) byte {
	i := strings.IndexByte(alphabet, c)
	if i < 0 {
		return 'A'
	}
	return alphabet[(i+1)%64]
}

func genCfg(r *gen.Rand, forceValid bool) (cfgIn, string) {
	var c cfgIn
	var tag string
	c.key, tag = genKey(r)
	for forceValid && !strings.HasPrefix(tag, "key-1") && !strings.HasPrefix(tag, "key-2") && !strings.HasPrefix(tag, "key-3") &&
		tag != "key-newline" && tag != "key-padbits" {
		c.key, tag = genKey(r)
	}
	c.ktag = tag
	for i := r.Intn(3); i > 0; i-- {
		c.except = append(c.except, gen.Pick(r, exceptPool))
	}
	if r.Chance(1, 8) {
		c.except = nil
	}
	c.mode = gen.Pick(r, []int{0, 0, 0, 0, 0, 1, 2, 2, 3, 3})
	switch k := r.Intn(20); {
	case k < 13:
		c.next = 0
	case k < 14:
		c.next = 1
	case k < 19:
		c.next = 2
	default:
		c.next = 3
	}
	c.rec = r.Chance(1, 3)
	for {
		c.okey = base64.StdEncoding.EncodeToString(randBytes(r, gen.Pick(r, []int{16, 24, 32})))
		a, _ := base64.StdEncoding.DecodeString(c.key)
		b, _ := base64.StdEncoding.DecodeString(c.okey)
		if string(a) != string(b) {
			break
		}
	}
	return c, tag
}

func genValue(r *gen.Rand) string {
	switch r.Intn(14) {
	case 0:
		return ""
	case 1:
		return gen.Pick(r, []string{"v", "0", "hi", "abc", "hello", "value=with=eq", "a,b"})
	case 2:
		// arbitrary bytes except CR/LF (response splitting is C07's subject)
		b := randBytes(r, 1+r.Intn(40))
		for i := range b {
			if b[i] == '\r' || b[i] == '\n' {
				b[i] = 0
			}
		}
		return string(b)
	case 3:
		// (CR/LF in a value given to c.Cookie: fiber replaces them by blanks before the cookie is stored)
		return gen.Pick(r, []string{"\"quoted\"", " lead", "trail ", "semi;colon", "\"", "a b", "x\x00y", "caf\xc3\xa9", "=", "==",
			"line1\r\nSet-Cookie: injected=1", "a\nb", "\r", "v\r\n"})
	case 4:
		n := gen.Pick(r, []int{100, 255, 256, 1000, 4000})
		b := make([]byte, n)
		for i := range b {
			b[i] = alphabet[r.Intn(62)]
		}
		return string(b)
	case 5:
		// looks like base64 / like a ciphertext
		return base64.StdEncoding.EncodeToString(randBytes(r, gen.Pick(r, []int{11, 12, 28, 29, 30, 33})))
	default:
		n := r.Intn(24)
		b := make([]byte, n)
		for i := range b {
			b[i] = alphabet[r.Intn(62)]
		}
		return string(b)
	}
}

func lit(s string) piece         { return piece{kind: 'x', lit: []byte(s)} }
func ref(s, j int) piece         { return piece{kind: 'i', s: s, j: j} }
func other(p string) piece       { return piece{kind: 'o', lit: []byte(p)} }
func (p piece) with(m mut) piece { p.muts = append(append([]mut(nil), p.muts...), m); return p }

// postKeys simulates which stored keys a step leaves on the wire (fasthttp SetCookie replaces the first
// cookie with that key, Header.Add appends, ClearCookie(name) deletes and appends), so a generator can
// refer to them: the writes in front of the middleware, the handler's, and the late ones.
func postKeys(st step, c cfgIn) []string {
	var keys []string
	apply := func(o op) {
		switch o.kind {
		case 'C':
			for _, k := range keys {
				if k == o.name {
					return
				}
			}
			keys = append(keys, o.name)
		case 'A':
			k := o.value
			if i := strings.IndexByte(k, '='); i >= 0 {
				k = k[:i]
			}
			keys = append(keys, strings.Trim(k, " "))
		case 'X':
			if o.name != "" {
				keys = append(without(keys, o.name), o.name)
			}
		}
	}
	fail, pan := false, false
	for _, o := range st.outerPre {
		apply(o)
	}
	for _, o := range st.ops {
		switch o.kind {
		case 'E':
			fail = true
		case 'P':
			pan = true
		default:
			apply(o)
		}
	}
	if pan && !c.rec {
		return nil // nothing is sent
	}
	if !pan {
		for _, o := range st.outerPost {
			apply(o)
		}
	}
	if fail || pan {
		for _, o := range st.ehOps {
			apply(o)
		}
	}
	return keys
}

// Set-Cookie texts a handler can add directly: well-formed, with attributes fasthttp's parser rejects
// (it stops there: the attributes behind are lost when the cookie is re-rendered), nameless, empty
func genRaw(r *gen.Rand) string {
	if r.Chance(1, 6) {
		return gen.Pick(r, []string{"", "=", ";", "novalue", "=onlyvalue", "a", "; Secure", "novalue; path=/; HttpOnly"," sp = v ; Path=/q", "a=\"q\"; Path=/", "a=b;;", "a==", "a=b=c; Secure", "a=;", "a=b; ",
			"A=b; Path=/; Path=/y", "b= ; HttpOnly", "sid=\"\"", "a=\"; Secure", "token =x;Secure;HttpOnly"})
	}
	name := gen.Pick(r, namePool)
	v := gen.Pick(r, []string{"one", "two", "", "x y", "tok", "se cret", "v;w"})
	return name + "=" + v + gen.Pick(r, []string{"", "; path=/", "; path=/x; HttpOnly", "; max-age=60", "; Secure; SameSite=None",
		"; unknown=1", "; max-age=oops", "; max-age=oops; HttpOnly; Secure", "; expires=garbage; Secure",
		"; Secure; max-age=99999999999999999999; HttpOnly", "; samesite=bogus; HttpOnly", "; domain=; path=", "; =x",
		"; HttpOnly=1; Secure=0", "; expires=Tue, 10 Nov 2009 23:00:00 GMT", "; max-age=-1", "; max-age=0; path=/",
		"; Partitioned; Secure", "; note=secret-in-an-attribute"})
}

// a cookie write by code that is not behind the middleware
func genLate(r *gen.Rand, inner []op) op {
	name := gen.Pick(r, []string{"outer", "eh", "late", "csrf_", "sid"})
	if len(inner) > 0 && r.Chance(1, 3) {
		if o := inner[r.Intn(len(inner))]; o.kind == 'C' {
			name = o.name // same stored key as a cookie of the handler: SetCookie replaces it
		}
	}
	if r.Chance(1, 4) {
		return op{kind: 'A', value: name + "=" + gen.Pick(r, []string{"late", "", "x"}) + gen.Pick(r, []string{"", "; path=/"})}
	}
	return op{kind: 'C', name: name, value: gen.Pick(r, []string{"late-value", "", "v", "written-in-front"}), attr: r.Intn(nAttr)}
}

// decorate adds, to the steps of a scenario, what surrounds the handler: the skip header for
// Config.Next, cookie writes in front of the middleware / after it / in the ErrorHandler, a handler that
// panics, ClearCookie, and (with the faulty custom pair) values the Encryptor / Decryptor choke on.
func decorate(r *gen.Rand, c cfgIn, steps []step, keepFirst bool) []step {
	out := make([]step, len(steps))
	for i, st := range steps {
		if keepFirst && i == 0 {
			// later steps refer to this step's cookies by position: only additions that keep positions
			if c.next == 2 && r.Chance(1, 8) {
				st.skip = true
			}
			if r.Chance(1, 8) {
				st.outerPost = append(st.outerPost, genLate(r, nil))
			}
			if r.Chance(1, 10) {
				st.ehOps = append(st.ehOps, genLate(r, nil))
				st.ops = append(append([]op(nil), st.ops...), op{kind: 'E'})
			}
			out[i] = st
			continue
		}
		if c.next == 2 && r.Chance(2, 5) {
			st.skip = true
		} else if c.next != 2 && r.Chance(1, 20) {
			st.skip = true // inert: no Next looks at it
		}
		if r.Chance(1, 8) {
			st.outerPre = append(st.outerPre, genLate(r, st.ops))
		}
		if r.Chance(1, 6) {
			st.outerPost = append(st.outerPost, genLate(r, st.ops))
			if r.Chance(1, 4) {
				st.outerPost = append(st.outerPost, genLate(r, st.ops))
			}
		}
		if r.Chance(1, 5) {
			st.ehOps = append(st.ehOps, genLate(r, st.ops))
		}
		ends := false
		for _, o := range st.ops {
			if o.kind == 'E' || o.kind == 'P' {
				ends = true
			}
		}
		if !ends && r.Chance(1, 9) {
			st.ops = append(append([]op(nil), st.ops...), op{kind: 'P'}) // the handler panics after its writes
		} else if !ends && r.Chance(1, 12) {
			st.ops = append(append([]op(nil), st.ops...), op{kind: 'E'})
		}
		if r.Chance(1, 12) {
			x := op{kind: 'X', name: gen.Pick(r, append([]string{"", "a", "sid"}, namePool...))}
			pos := r.Intn(len(st.ops) + 1)
			st.ops = append(st.ops[:pos:pos], append([]op{x}, st.ops[pos:]...)...)
		}
		if c.mode == 3 {
			if r.Chance(1, 4) {
				for j := range st.ops {
					if st.ops[j].kind == 'C' && r.Chance(1, 2) {
						ops := append([]op(nil), st.ops...)
						ops[j].value = gen.Pick(r, []string{"ERR", "ERRor", "PANIC", "PANIC now", "ERR;x"}) + gen.Pick(r, []string{"", "1", "zz"})
						st.ops = ops
						break
					}
				}
			}
			if r.Chance(1, 7) {
				nm := gen.Pick(r, []string{"pz", "a", "sid", "csrf_"})
				st.srcs = append(append([]src(nil), st.srcs...), hdr(lit(nm+"="+gen.Pick(r, []string{"PANIC", "PANIC1", "PANICxyz", "ERR1"}))))
			}
		}
		out[i] = st
	}
	return out
}

func genOps(r *gen.Rand, n int, allowRaw bool) []op {
	var ops []op
	for i := 0; i < n; i++ {
		if allowRaw && r.Chance(1, 5) {
			ops = append(ops, op{kind: 'A', value: genRaw(r)})
		} else {
			ops = append(ops, op{kind: 'C', name: gen.Pick(r, namePool), value: genValue(r), attr: r.Intn(nAttr)})
		}
	}
	if n > 0 && r.Chance(1, 6) {
		ops = append(ops, op{kind: 'E'}) // the handler fails after setting its cookies
	}
	return ops
}

type scase struct {
	c     cfgIn
	steps []step
}

func hdr(parts ...piece) src { return src{kind: 'H', val: parts} }

// cookie header from (name, value-piece) pairs: n1=v1; n2=v2
func cookieHdr(kvs []struct {
	n string
	v piece
}) src {
	var ps []piece
	for i, e := range kvs {
		pre := e.n + "="
		if i > 0 {
			pre = "; " + pre
		}
		ps = append(ps, lit(pre), e.v)
	}
	return src{kind: 'H', val: ps}
}

type nv = struct {
	n string
	v piece
}

// every single-byte alteration, truncation and extension of a value of length l (symbolic)
func allMutants(l int, lastData int) (wire []mut, direct []mut) {
	repl := []byte{'A', '/', '-', '_', '=', ';', ' ', '"', ',', '\t', '.', 'z'}
	for pos := 0; pos < l; pos++ {
		for _, b := range repl {
			wire = append(wire, mut{kind: 'r', pos: pos, data: []byte{b}})
		}
		// relative alterations (resolved against the actual byte when the request is built):
		// 1 = next alphabet character, 2 = the character 32 places on, 3 = high bit set
		wire = append(wire, mut{kind: 'f', pos: pos, data: []byte{1}}, mut{kind: 'f', pos: pos, data: []byte{2}}, mut{kind: 'f', pos: pos, data: []byte{3}})
		wire = append(wire, mut{kind: 'd', pos: pos}, mut{kind: 't', pos: pos})
		for _, b := range []byte{'\r', '\n', 0} {
			direct = append(direct, mut{kind: 'r', pos: pos, data: []byte{b}})
		}
		direct = append(direct, mut{kind: 'n', pos: pos, data: []byte("\r\n")}, mut{kind: 'n', pos: pos, data: []byte("\n")})
	}
	if lastData >= 0 {
		for i := 0; i < 64; i++ {
			wire = append(wire, mut{kind: 'r', pos: lastData, data: []byte{alphabet[i]}})
		}
	}
	for _, s := range []string{"A", "=", "==", "AAAA", "QQ==", " ", "\t", ";", "; ", "\"", ".", "A=", "===="} {
		wire = append(wire, mut{kind: 'a', data: []byte(s)}, mut{kind: 'p', data: []byte(s)})
	}
	for pos := 0; pos <= l; pos += 1 {
		for _, s := range []string{"A", "=", " "} {
			wire = append(wire, mut{kind: 'n', pos: pos, data: []byte(s)})
		}
	}
	for _, s := range []string{"\n", "\r\n", "\r", "\n\n", "=\n", "\x00", "\n="} {
		direct = append(direct, mut{kind: 'a', data: []byte(s)}, mut{kind: 'p', data: []byte(s)})
	}
	return wire, direct
}

// scenario: exhaustive tampering with one issued value
func scTamperAll(r *gen.Rand) []scase {
	c, _ := genCfg(r, true)
	if c.next > 1 {
		c.next = 0
	}
	name := gen.Pick(r, []string{"a", "sid", "token", "b"})
	c.except = without(c.except, name)
	plen := gen.Pick(r, []int{0, 1, 2, 3, 4, 5, 6, 7, 8, 16, 17, 30})
	pb := make([]byte, plen)
	for i := range pb {
		pb[i] = alphabet[r.Intn(62)]
	}
	step0 := step{ops: []op{{kind: 'C', name: name, value: string(pb), attr: r.Intn(nAttr)}}}
	// length of the wire value: base64 of 12 + plen + 16 bytes (+1 for the custom codec's tag)
	n := 12 + plen + 16
	l := (n + 2) / 3 * 4
	lastData := l - 1
	switch n % 3 {
	case 1:
		lastData = l - 3
	case 2:
		lastData = l - 2
	}
	if c.mode >= 2 {
		// reversed behind 'X': the last data character sits near the front
		lastData = l - lastData
		l++
	}
	wire, direct := allMutants(l, lastData)
	var out []scase
	const chunk = 40
	for st := 0; st < len(wire); st += chunk {
		end := st + chunk
		if end > len(wire) {
			end = len(wire)
		}
		var kvs []nv
		same := (st/chunk)%5 == 4
		for i, m := range wire[st:end] {
			nm := fmt.Sprintf("m%d", i)
			if same {
				nm = name
			}
			kvs = append(kvs, nv{nm, ref(0, 0).with(m)})
		}
		if same || r.Chance(1, 3) {
			pos := r.Intn(len(kvs) + 1)
			kvs = append(kvs[:pos:pos], append([]nv{{name, ref(0, 0)}}, kvs[pos:]...)...)
		}
		out = append(out, scase{c, []step{step0, {srcs: []src{cookieHdr(kvs)}}}})
	}
	for st := 0; st < len(direct); st += chunk {
		end := st + chunk
		if end > len(direct) {
			end = len(direct)
		}
		var srcs []src
		for i, m := range direct[st:end] {
			srcs = append(srcs, src{kind: 'D', key: []piece{lit(fmt.Sprintf("d%d", i))}, val: []piece{ref(0, 0).with(m)}})
		}
		out = append(out, scase{c, []step{step0, {srcs: srcs}}})
	}
	return out
}

func without(xs []string, x string) []string {
	var out []string
	for _, e := range xs {
		if e != x {
			out = append(out, e)
		}
	}
	return out
}

// a value piece for a request cookie, aimed at cookie j of step s (whose plaintext was `plain`)
func genReqValue(r *gen.Rand, s, j int, plain string, wireLen int) (piece, string) {
	switch r.Intn(12) {
	case 0, 1, 2, 3:
		return ref(s, j), "valid"
	case 4:
		return ref(s, j).with(mut{kind: 'r', pos: r.Intn(wireLen + 1), data: []byte{alphabet[r.Intn(64)]}}), "mutated"
	case 5:
		return ref(s, j).with(mut{kind: 't', pos: r.Intn(wireLen + 1)}), "truncated"
	case 6:
		return ref(s, j).with(mut{kind: 'a', data: []byte(gen.Pick(r, []string{"A", "=", "AAAA", "QQ=="}))}), "extended"
	case 7:
		return other(plain), "otherkey"
	case 8:
		return lit(gen.Pick(r, []string{"", "admin", "true", "1", "QUFBQQ==", "AAAAAAAAAAAAAAAAAAAAAAAAAAAAAAAAAAAAAA==", plain})), "literal"
	case 9:
		return lit(plain), "plaintext"
	case 10:
		return piece{kind: 'x', lit: []byte("\"")}, "quote"
	default:
		return ref(s, j).with(mut{kind: 'p', data: []byte("\"")}).with(mut{kind: 'a', data: []byte("\"")}), "quoted-valid"
	}
}

func wireLenOf(plain string) int { return (12 + len(plain) + 16 + 2) / 3 * 4 }

// scenario: set cookies, send them back (browser-like), set more, send back again
func scRoundtrip(r *gen.Rand) []scase {
	c, _ := genCfg(r, !r.Chance(1, 3))
	s0 := decorate(r, c, []step{{ops: genOps(r, 1+r.Intn(5), r.Chance(1, 3))}}, false)[0]
	keys0 := postKeys(s0, c)
	var kvs []nv
	for j, k := range keys0 {
		if r.Chance(5, 6) {
			kvs = append(kvs, nv{k, ref(0, j)})
		}
	}
	r.Fork(9) // keep streams apart
	if r.Chance(1, 3) && len(kvs) > 1 {
		kvs[0], kvs[len(kvs)-1] = kvs[len(kvs)-1], kvs[0]
	}
	s1 := step{ops: genOps(r, r.Intn(4), r.Chance(1, 3))}
	if len(kvs) > 0 {
		s1.srcs = []src{cookieHdr(kvs)}
	}
	s1 = decorate(r, c, []step{s1}, false)[0]
	keys1 := postKeys(s1, c)
	var kvs2 []nv
	for j, k := range keys1 {
		kvs2 = append(kvs2, nv{k, ref(1, j)})
	}
	for j, k := range keys0 {
		if r.Chance(1, 2) {
			kvs2 = append(kvs2, nv{k, ref(0, j)})
		}
	}
	steps := []step{s0, s1}
	if len(kvs2) > 0 {
		steps = append(steps, decorate(r, c, []step{{srcs: []src{cookieHdr(kvs2)}, ops: genOps(r, r.Intn(2), false)}}, false)[0])
	}
	return []scase{{c, steps}}
}

// scenario: several cookies per request incl. duplicate names, tampered / foreign / literal values,
// several Cookie header lines, direct SetCookie on top; duplicate names in the response
func scDups(r *gen.Rand) []scase {
	c, _ := genCfg(r, !r.Chance(1, 3))
	names := []string{gen.Pick(r, namePool), gen.Pick(r, namePool), gen.Pick(r, namePool)}
	plains := []string{genValue(r), genValue(r), genValue(r)}
	var ops0 []op
	for i := range names {
		// distinct stored keys so that issued cookie i is post index i
		dup := false
		for _, o := range ops0 {
			if o.name == names[i] {
				dup = true
			}
		}
		if dup {
			names[i] = fmt.Sprintf("%s%d", names[i], i)
		}
		ops0 = append(ops0, op{kind: 'C', name: names[i], value: plains[i], attr: r.Intn(nAttr)})
	}
	var lines [][]nv
	nl := 1 + r.Intn(2)
	for li := 0; li < nl; li++ {
		var kvs []nv
		for n := 1 + r.Intn(5); n > 0; n-- {
			i := r.Intn(len(names))
			nm := names[i]
			if r.Chance(1, 3) {
				nm = names[0] // push towards duplicates of one name
			}
			if r.Chance(1, 10) {
				nm = gen.Pick(r, exceptPool)
			}
			if r.Chance(1, 25) {
				nm = ""
			}
			v, _ := genReqValue(r, 0, i, plains[i], wireLenOf(plains[i]))
			kvs = append(kvs, nv{nm, v})
		}
		lines = append(lines, kvs)
	}
	var srcs []src
	for _, kvs := range lines {
		srcs = append(srcs, cookieHdr(kvs))
	}
	if r.Chance(1, 5) {
		i := r.Intn(len(names))
		v, _ := genReqValue(r, 0, i, plains[i], wireLenOf(plains[i]))
		srcs = append(srcs, src{kind: 'D', key: []piece{lit(names[i])}, val: []piece{v}})
	}
	// response with repeated names
	var ops1 []op
	for n := r.Intn(4); n > 0; n-- {
		nm := gen.Pick(r, []string{names[0], names[0], names[1], "csrf_"})
		if r.Chance(1, 2) {
			ops1 = append(ops1, op{kind: 'A', value: nm + "=" + gen.Pick(r, []string{"one", "two", "three", ""}) + gen.Pick(r, []string{"", "; path=/", "; path=/x"})})
		} else {
			ops1 = append(ops1, op{kind: 'C', name: nm, value: genValue(r), attr: r.Intn(nAttr)})
		}
	}
	return []scase{{c, decorate(r, c, []step{{ops: ops0}, {srcs: srcs, ops: ops1}}, true)}}
}

// scenario: the GENUINE value is presented first (and decrypts), then — to the same app, the same middleware
// instance, under the same name, one per request (only the first cookie of a name is looked at) — values that
// share its first 16/20/24 characters (the base64 of the nonce) and differ behind: a byte changed at a
// position behind the shared part, a truncation, an extension, a deletion, the tail of ANOTHER genuine value.
// Nothing the middleware learnt from the genuine request may make it accept these: the request-side view is a
// function of (configuration, that request's cookies) only (`request_view_stateless`). Some altered values
// are sent before the genuine one as well, and the genuine one again in between and at the end.
func scAfterGenuine(r *gen.Rand) []scase {
	c, _ := genCfg(r, true)
	if c.next > 1 {
		c.next = gen.Pick(r, []int{0, 1})
	}
	if r.Chance(1, 2) {
		c.mode = 0 // the built-in pair, Encryptor/Decryptor left nil
	}
	name := gen.Pick(r, []string{"a", "sid", "token", "b"})
	other := name + "2"
	c.except = without(without(c.except, name), other)
	plen := gen.Pick(r, []int{0, 1, 5, 8, 16, 17, 30, 60})
	mk := func() string {
		b := make([]byte, plen)
		for i := range b {
			b[i] = alphabet[r.Intn(62)]
		}
		return string(b)
	}
	step0 := step{ops: []op{{kind: 'C', name: name, value: mk(), attr: r.Intn(nAttr)}, {kind: 'C', name: other, value: mk(), attr: r.Intn(nAttr)}}}
	l := (12 + plen + 16 + 2) / 3 * 4
	if c.mode >= 2 {
		l++
	}
	one := func(ps ...piece) step {
		return step{srcs: []src{{kind: 'H', val: append([]piece{lit(name + "=")}, ps...)}}}
	}
	genuine := one(ref(0, 0))
	altered := func() step {
		keep := gen.Pick(r, []int{16, 16, 20, 24})
		pos := keep + r.Intn(l-keep)
		switch r.Intn(8) {
		case 0, 1:
			return one(ref(0, 0).with(mut{kind: 'f', pos: pos, data: []byte{byte(1 + r.Intn(2))}}))
		case 2:
			return one(ref(0, 0).with(mut{kind: 'r', pos: pos, data: []byte{alphabet[r.Intn(64)]}}))
		case 3:
			return one(ref(0, 0).with(mut{kind: 't', pos: pos}))
		case 4:
			return one(ref(0, 0).with(mut{kind: 'a', data: []byte(gen.Pick(r, []string{"A", "AAAA", "=", "QQ==", "A="}))}))
		case 5:
			return one(ref(0, 0).with(mut{kind: 'd', pos: pos}))
		case 6:
			// head of the genuine value, tail of another genuine value
			tail := ref(0, 1)
			for i := 0; i < keep; i++ {
				tail = tail.with(mut{kind: 'd', pos: 0})
			}
			return one(ref(0, 0).with(mut{kind: 't', pos: keep}), tail)
		default:
			return one(ref(0, 0).with(mut{kind: 't', pos: keep})) // nothing but the shared part
		}
	}
	steps := []step{step0}
	for i := r.Intn(3); i > 0; i-- {
		steps = append(steps, altered()) // before the genuine value was ever presented
	}
	steps = append(steps, genuine)
	for i := 8 + r.Intn(8); i > 0; i-- {
		steps = append(steps, altered())
		if r.Chance(1, 6) {
			steps = append(steps, genuine)
		}
	}
	steps = append(steps, genuine)
	return []scase{{c, steps}}
}

// scenario: a ciphertext under another name / an excepted name, plaintexts sent as if ciphertext
func scCross(r *gen.Rand) []scase {
	c, _ := genCfg(r, true)
	if len(c.except) == 0 {
		c.except = []string{"csrf_"}
	}
	ex := c.except[0]
	c.except = without(c.except, "a")
	c.except = without(c.except, "b")
	pa, pe := genValue(r), gen.Pick(r, []string{"tok", "t0k3n", "", "QUJD"})
	ops0 := []op{{kind: 'C', name: "a", value: pa, attr: r.Intn(nAttr)}, {kind: 'C', name: ex, value: pe, attr: r.Intn(nAttr)}}
	if ex == "a" || ex == "b" {
		return nil
	}
	kvs := []nv{{ex, ref(0, 0)}, {"b", ref(0, 0)}, {"a", lit(pe)}}
	if r.Bool() {
		kvs = append(kvs, nv{"a", ref(0, 0)})
	}
	if r.Bool() {
		kvs = append([]nv{{ex, ref(0, 1)}}, kvs...)
	}
	if r.Chance(1, 3) {
		kvs = append(kvs, nv{strings.ToUpper(ex), ref(0, 0)}, nv{ex + "x", ref(0, 0)})
	}
	return []scase{{c, decorate(r, c, []step{{ops: ops0}, {srcs: []src{cookieHdr(kvs)}, ops: genOps(r, r.Intn(3), true)}}, true)}}
}

// scenario: odd but legal Cookie header shapes
func scWeird(r *gen.Rand) []scase {
	c, _ := genCfg(r, true)
	pa := genValue(r)
	ops0 := []op{{kind: 'C', name: "a", value: pa, attr: 0}, {kind: 'C', name: "b", value: genValue(r), attr: 1}}
	var ps []piece
	n := 1 + r.Intn(5)
	for i := 0; i < n; i++ {
		if i > 0 {
			ps = append(ps, lit(gen.Pick(r, []string{"; ", ";", " ;  ", "; ;"})))
		}
		switch r.Intn(8) {
		case 0:
			ps = append(ps, lit("a=\""), ref(0, 0), lit("\""))
		case 1:
			ps = append(ps, lit("a = "), ref(0, 0), lit(" "))
		case 2:
			ps = append(ps, ref(0, 0)) // no name at all
		case 3:
			ps = append(ps, lit("="), ref(0, 1))
		case 4:
			ps = append(ps, lit("b=a="), ref(0, 0))
		case 5:
			ps = append(ps, lit("a="), ref(0, 0), lit(gen.Pick(r, []string{"\t", "\"", " x", ",", "\x80"})))
		case 6:
			ps = append(ps, lit("a="), ref(0, 0).with(mut{kind: 'n', pos: r.Intn(20), data: []byte(gen.Pick(r, []string{";", " ", "\""}))}))
		default:
			ps = append(ps, lit(gen.Pick(r, []string{"a=", "b="})), ref(0, r.Intn(2)))
		}
	}
	for len(ps) > 0 && ps[0].kind == 'x' && strings.TrimLeft(string(ps[0].lit), " \t") == "" {
		ps = ps[1:]
	}
	return []scase{{c, decorate(r, c, []step{{ops: ops0}, {srcs: []src{{kind: 'H', val: ps}}}}, true)}}
}

func generate(w *gen.Writer, o gen.Opts) {
	root := gen.New(o.Seed)
	n := 0
	for sc := 0; n < o.N; sc++ {
		r := root.Fork(uint64(sc))
		var cases []scase
		var kind string
		switch k := r.Intn(100); {
		case k < 3:
			kind, cases = "tamper-all", scTamperAll(r)
		case k < 9:
			kind, cases = "after-genuine", scAfterGenuine(r)
		case k < 38:
			kind, cases = "roundtrip", scRoundtrip(r)
		case k < 78:
			kind, cases = "dups", scDups(r)
		case k < 90:
			kind, cases = "cross", scCross(r)
		default:
			kind, cases = "weird", scWeird(r)
		}
		for ci, cs := range cases {
			if n >= o.N {
				break
			}
			w.Count("kind-" + kind)
			w.Count(cs.c.ktag)
			emit(w, fmt.Sprintf("s%d.%d.%d", o.Seed, sc, ci), cs.c, cs.steps)
			n++
		}
	}
}
