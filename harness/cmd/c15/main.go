// Harness for C15: runs the real session middleware and Store API on generated operation histories
// under the virtual clock of `-tags faketime` and writes one case line per history.
//
// Case fields after the id:
//   source(cookie|header|query) storage(mem|inj) idle(secs) abs(secs, 0 = none) ops obs
// Ops (`;`-separated; sub-fields `:`-separated; byte strings hex, `-` = empty):
//   a:<secs>
//   r:<m|s>:<cookie id>:<header id>:<query id>:<script>      m = route behind the middleware, s = Store API route
//     (the cookie is the one named like the session: session_id / X-Session / sid)
// Script = `.`-separated handler actions:
//   G (store.Get)  B<id> (store.GetByID)  I (observe ID/Fresh)  g<key>  s<key>=<val>  d<key>  K (keys)
//   D (Destroy)  R (Regenerate)  X (Reset)  T<secs> (SetIdleTimeout)  S (Save)  L (Release)
//   Z<id> (store.Delete)  W (store.Reset)
//   c:<id>:<p|t|g>:<n>   damage the blob stored under <id> (injected storage only; see corrupt.go); obs c0 | c1
// A request whose middleware panics (decode error of a damaged blob) is observed as `panic`; a store.Get /
// GetByID that returns an error which is none of the package's sentinel errors is observed as `err`.
// Observation per `r` op: <action obs `.`-separated>,<ck>,<hd>,<gens>,<live storage keys>
//   ck = Set-Cookie of the session cookie: cnone | cexp | c<hex>;  hd = response header: hnone | h<hex>
package main

import (
	"fmt"
	"io"
	"os"
	"runtime"
	"runtime/debug"
	"sort"
	"strconv"
	"strings"
	"time"

	"github.com/gofiber/fiber/v3"
	"github.com/gofiber/fiber/v3/log"
	"github.com/gofiber/fiber/v3/middleware/session"
	"github.com/valyala/fasthttp"

	"verifharness/internal/gen"
)

const (
	defaultIdle = 1800
	cookieName  = "session_id"
	headerName = "X-Session"
	queryName  = "sid"
)

// ---------------------------------------------------------------------------------------------
// injected storage: a map with TTL on the (virtual) clock; keeps the key string it is given

type entry struct {
	val []byte
	exp time.Time
}

type mapStorage struct{ m map[string]entry }

func newMapStorage() *mapStorage { return &mapStorage{m: map[string]entry{}} }

func (s *mapStorage) live(e entry) bool { return e.exp.IsZero() || time.Now().Before(e.exp) }

func (s *mapStorage) Get(key string) ([]byte, error) {
	e, ok := s.m[key]
	if !ok || !s.live(e) {
		return nil, nil
	}
	return e.val, nil
}

func (s *mapStorage) Set(key string, val []byte, exp time.Duration) error {
	if len(key) == 0 || len(val) == 0 {
		return nil
	}
	e := entry{val: append([]byte(nil), val...)}
	if exp != 0 {
		e.exp = time.Now().Add(exp)
	}
	s.m[key] = e
	return nil
}

func (s *mapStorage) Delete(key string) error { delete(s.m, key); return nil }
func (s *mapStorage) Reset() error            { s.m = map[string]entry{}; return nil }
func (s *mapStorage) Close() error            { return nil }
func (s *mapStorage) Keys() ([][]byte, error) {
	var out [][]byte
	for k, e := range s.m {
		if s.live(e) {
			out = append(out, []byte(k))
		}
	}
	return out, nil
}

type keyser interface{ Keys() ([][]byte, error) }

// ---------------------------------------------------------------------------------------------

type cfgIn struct {
	source, storage string
	idle, abs       int
}

type op struct {
	kind             string // "a" | "r" | "b" (begin) | "s" (step) | "e" (end) | "c" (corrupt)
	cid, ckind       string // corrupt: id, kind
	cn               int    // corrupt: offset selector
	rid              int
	secs             int
	api              string // "m" | "s"
	ck, hd, qr       string
	script           []string
}

func (o op) String() string {
	if o.kind == "a" {
		return "a:" + strconv.Itoa(o.secs)
	}
	if o.kind == "c" {
		return "c:" + gen.Hex(o.cid) + ":" + o.ckind + ":" + strconv.Itoa(o.cn)
	}
	if o.kind == "s" || o.kind == "e" {
		return o.kind + ":" + strconv.Itoa(o.rid)
	}
	sc := "-"
	if len(o.script) > 0 {
		sc = strings.Join(o.script, ".")
	}
	if o.kind == "b" {
		return strings.Join([]string{"b", strconv.Itoa(o.rid), o.api, gen.Hex(o.ck), gen.Hex(o.hd), gen.Hex(o.qr), sc}, ":")
	}
	return strings.Join([]string{"r", o.api, gen.Hex(o.ck), gen.Hex(o.hd), gen.Hex(o.qr), sc}, ":")
}

func idSafe(s string) bool {
	for i := 0; i < len(s); i++ {
		c := s[i]
		if !(c >= 'a' && c <= 'z' || c >= '0' && c <= '9' || c >= 'A' && c <= 'Z' || c == '_' || c == '-') {
			return false
		}
	}
	return true
}

func parseOp(s string) (o op, ok bool) {
	defer func() {
		if recover() != nil {
			ok = false
		}
	}()
	f := strings.Split(s, ":")
	switch {
	case len(f) == 2 && f[0] == "a":
		n, err := strconv.Atoi(f[1])
		if err != nil || n < 0 || n > 100000 {
			return o, false
		}
		return op{kind: "a", secs: n}, true
	case len(f) == 4 && f[0] == "c" && (f[2] == "p" || f[2] == "t" || f[2] == "g"):
		n, err := strconv.Atoi(f[3])
		if err != nil || n < 0 || n > 999 {
			return o, false
		}
		o = op{kind: "c", cid: gen.UnHex(f[1]), ckind: f[2], cn: n}
		return o, idSafe(o.cid)
	case len(f) == 2 && (f[0] == "s" || f[0] == "e"):
		n, err := strconv.Atoi(f[1])
		if err != nil || n < 0 || n > 99 {
			return o, false
		}
		return op{kind: f[0], rid: n}, true
	case len(f) == 7 && f[0] == "b" && (f[2] == "m" || f[2] == "s"):
		n, err := strconv.Atoi(f[1])
		if err != nil || n < 0 || n > 99 {
			return o, false
		}
		f = append([]string{"r"}, f[2:]...)
		o, ok = parseOp(strings.Join(f, ":"))
		o.kind, o.rid = "b", n
		return o, ok
	case len(f) == 6 && f[0] == "r" && (f[1] == "m" || f[1] == "s"):
		o = op{kind: "r", api: f[1], ck: gen.UnHex(f[2]), hd: gen.UnHex(f[3]), qr: gen.UnHex(f[4])}
		if !idSafe(o.ck) || !idSafe(o.hd) || !idSafe(o.qr) {
			return o, false
		}
		if f[5] != "-" {
			o.script = strings.Split(f[5], ".")
			for _, a := range o.script {
				if !actionOK(a) {
					return o, false
				}
			}
		}
		return o, true
	}
	return o, false
}

func actionOK(a string) bool {
	if a == "" {
		return false
	}
	arg := a[1:]
	hexOK := func(s string) bool {
		if s == "" || len(s)%2 != 0 {
			return false
		}
		for i := 0; i < len(s); i++ {
			c := s[i]
			if !(c >= '0' && c <= '9' || c >= 'a' && c <= 'f') {
				return false
			}
		}
		return idSafe(gen.UnHex(s))
	}
	switch a[0] {
	case 'G', 'I', 'K', 'D', 'R', 'X', 'S', 'L', 'W':
		return arg == ""
	case 'B', 'Z':
		return arg == "-" || hexOK(arg)
	case 'g', 'd':
		return hexOK(arg)
	case 's':
		kv := strings.Split(arg, "=")
		return len(kv) == 2 && hexOK(kv[0]) && (kv[1] == "-" || hexOK(kv[1]))
	case 'T':
		n, err := strconv.Atoi(arg)
		return err == nil && n >= -5 && n <= 100000
	}
	return false
}

// sessionName is the name part of KeyLookup: it names the header / query parameter AND the cookie that
// `getSessionID` always consults first and that `setSession` writes for the non-header sources.
func (c cfgIn) sessionName() string {
	switch c.source {
	case "header":
		return headerName
	case "query":
		return queryName
	}
	return cookieName
}

type world struct {
	cfg   cfgIn
	h     fasthttp.RequestHandler
	store *session.Store
	keys  keyser
	inj   *mapStorage // the injected storage, if configured (corrupt ops reach into it)
	wr    *gen.Writer // distribution counters (may be nil)
	gens  []string
	nid   int
	acts  []string // action observations of the current request
	ctx   *fasthttp.RequestCtx
	cur   op
	// schedules (overlapping requests): the flights by rid and the one whose goroutine runs right now
	flights map[int]*flight
	active  *flight
}

func newWorld(c cfgIn) (w *world, panicked bool) {
	defer func() {
		if r := recover(); r != nil {
			w, panicked = nil, true
		}
	}()
	flushPool()
	w = &world{cfg: c}
	conf := session.Config{
		AbsoluteTimeout: time.Duration(c.abs) * time.Second,
		KeyGenerator: func() string {
			w.nid++
			id := "id" + strconv.Itoa(w.nid)
			w.gens = append(w.gens, id)
			return id
		},
	}
	if c.source != "default" {
		conf.IdleTimeout = time.Duration(c.idle) * time.Second
	} else if c.idle != defaultIdle {
		panic("default configuration has the default idle timeout")
	}
	switch c.source {
	case "default":
		// KeyLookup and IdleTimeout left to configDefault: cookie:session_id, 30 minutes
	case "cookie":
		conf.KeyLookup = "cookie:" + cookieName
	case "header":
		conf.KeyLookup = "header:" + headerName
	case "query":
		conf.KeyLookup = "query:" + queryName
	default:
		panic("bad source")
	}
	switch strings.TrimSuffix(c.storage, "N") {
	case "inj":
		w.inj = newMapStorage()
		conf.Storage = w.inj
	case "mem":
	default:
		panic("bad storage")
	}
	var mw fiber.Handler
	var store *session.Store
	if strings.HasSuffix(c.storage, "N") {
		// the other construction path: an explicit Store handed to session.New
		store = session.NewStore(conf)
		conf.Store = store
		mw = session.New(conf)
	} else {
		mw, store = session.NewWithStore(conf)
	}
	w.store = store
	ks, ok := store.Storage.(keyser)
	if !ok {
		panic("storage has no Keys()")
	}
	w.keys = ks
	app := fiber.New()
	app.Use("/m", mw, func(c fiber.Ctx) error { w.handler(c, true); return nil })
	app.Use("/s", func(c fiber.Ctx) error { w.handler(c, false); return nil })
	w.h = app.Handler()
	w.ctx = &fasthttp.RequestCtx{}
	w.ctx.Init(&fasthttp.Request{}, nil, nil)
	return w, false
}

func errObs(err error) string {
	if err == nil {
		return "ok"
	}
	switch err {
	case session.ErrEmptySessionID:
		return "empty"
	case session.ErrSessionIDNotFoundInStore:
		return "notfound"
	case session.ErrSessionAlreadyLoadedByMiddleware:
		return "loaded"
	}
	return "err"
}

func valObs(v any) string {
	if v == nil {
		return "vnil"
	}
	if s, ok := v.(string); ok {
		return "v" + gen.Hex(s)
	}
	return "vother"
}

// handler is the route handler: it runs the script of the request it belongs to — the only request in
// sequential histories, the flight the scheduler just started in schedules (w.active).
func (w *world) handler(c fiber.Ctx, viaMiddleware bool) {
	if fl := w.active; fl != nil {
		w.runScript(c, viaMiddleware, fl.o.script, &fl.acts, fl.park)
		return
	}
	w.runScript(c, viaMiddleware, w.cur.script, &w.acts, nil)
}

// runScript executes handler actions on the real API; yield (if any) is called before every action and
// once after the last one.
func (w *world) runScript(c fiber.Ctx, viaMiddleware bool, script []string, acts *[]string, yield func()) {
	var m *session.Middleware
	var sess *session.Session
	if viaMiddleware {
		m = session.FromContext(c)
		if m == nil {
			*acts = append(*acts, "nomw")
			return
		}
		sess = m.Session
	}
	store := w.store
	if m != nil {
		store = m.Store() // the same store, through the middleware's accessor
	}
	for _, a := range script {
		if yield != nil {
			yield()
		}
		arg := a[1:]
		obs := "-"
		func() {
			defer func() {
				if r := recover(); r != nil {
					obs = "panic"
				}
			}()
			switch a[0] {
			case 'G':
				s, err := store.Get(c)
				obs = errObs(err)
				if err == nil {
					sess = s
				}
			case 'B':
				s, err := store.GetByID(gen.UnHex(arg))
				obs = errObs(err)
				if err == nil {
					sess = s
				}
			case 'Z':
				obs = errObs(store.Delete(gen.UnHex(arg)))
			case 'W':
				obs = errObs(store.Reset())
			default:
				if sess == nil {
					obs = "!"
					return
				}
				switch a[0] {
				case 'I':
					if m != nil && sess == m.Session {
						obs = "i" + gen.Hex(m.ID()) + "/" + gen.B(m.Fresh())
					} else {
						obs = "i" + gen.Hex(sess.ID()) + "/" + gen.B(sess.Fresh())
					}
				case 'g':
					if m != nil && sess == m.Session {
						obs = valObs(m.Get(gen.UnHex(arg)))
					} else {
						obs = valObs(sess.Get(gen.UnHex(arg)))
					}
				case 's':
					kv := strings.Split(arg, "=")
					if m != nil && sess == m.Session {
						m.Set(gen.UnHex(kv[0]), gen.UnHex(kv[1]))
					} else {
						sess.Set(gen.UnHex(kv[0]), gen.UnHex(kv[1]))
					}
				case 'd':
					if m != nil && sess == m.Session {
						m.Delete(gen.UnHex(arg))
					} else {
						sess.Delete(gen.UnHex(arg))
					}
				case 'K':
					var ks []string
					other := false
					for _, k := range sess.Keys() {
						if s, ok := k.(string); ok {
							ks = append(ks, gen.Hex(s))
						} else {
							other = true
						}
					}
					sort.Strings(ks)
					obs = "k" + strings.Join(ks, "+")
					if other {
						obs += "#"
					}
				case 'D':
					if m != nil && sess == m.Session {
						obs = errObs(m.Destroy())
					} else {
						obs = errObs(sess.Destroy())
					}
				case 'R':
					obs = errObs(sess.Regenerate())
				case 'X':
					if m != nil && sess == m.Session {
						obs = errObs(m.Reset())
					} else {
						obs = errObs(sess.Reset())
					}
				case 'T':
					n, _ := strconv.Atoi(arg)
					sess.SetIdleTimeout(time.Duration(n) * time.Second)
				case 'S':
					obs = errObs(sess.Save())
				case 'L':
					if m != nil && sess == m.Session {
						obs = "!" // releasing the middleware's session is a misuse; not exercised
						return
					}
					sess.Release()
					sess = nil
				}
			}
		}()
		*acts = append(*acts, obs)
	}
	if yield != nil {
		yield()
	}
}

func (w *world) liveKeys() string {
	ks, err := w.keys.Keys()
	if err != nil {
		return "err"
	}
	out := make([]string, 0, len(ks))
	for _, k := range ks {
		out = append(out, gen.Hex(string(k)))
	}
	if len(out) == 0 {
		return "-"
	}
	sort.Strings(out)
	return strings.Join(out, "+")
}

func plusList(xs []string) string {
	if len(xs) == 0 {
		return "-"
	}
	o := make([]string, len(xs))
	for i, x := range xs {
		o[i] = gen.Hex(x)
	}
	return strings.Join(o, "+")
}

// buildRequest fills fctx with the request of o.
func (w *world) buildRequest(fctx *fasthttp.RequestCtx, o op) {
	var req fasthttp.Request
	req.Header.SetMethod("GET")
	path := "/" + o.api
	if o.qr != "" {
		path += "?" + queryName + "=" + o.qr
	}
	req.SetRequestURI(path)
	req.Header.SetHost("example.com")
	if o.ck != "" {
		req.Header.SetCookie(w.cfg.sessionName(), o.ck)
	}
	if o.hd != "" {
		req.Header.Set(headerName, o.hd)
	}
	fctx.Request.Reset()
	fctx.Response.Reset()
	fctx.ResetUserValues() // as fasthttp's server loop does between requests (fiber Locals live there)
	req.CopyTo(&fctx.Request)
}

// reply reads the session cookie / header of the response: (ck, hd).
func (w *world) reply(fctx *fasthttp.RequestCtx) (string, string) {
	ck := "cnone"
	fctx.Response.Header.VisitAllCookie(func(k, v []byte) {
		if string(k) != w.cfg.sessionName() {
			return
		}
		var c fasthttp.Cookie
		if err := c.ParseBytes(v); err != nil {
			ck = "cbad"
			return
		}
		if len(c.Value()) == 0 {
			ck = "cexp"
		} else {
			ck = "c" + gen.Hex(string(c.Value()))
		}
	})
	hd := "hnone"
	if v := fctx.Response.Header.Peek(headerName); len(v) > 0 {
		hd = "h" + gen.Hex(string(v))
	}
	return ck, hd
}

func (w *world) do(o op) (obs string) {
	defer func() {
		if r := recover(); r != nil {
			obs = "panic"
		}
	}()
	fctx := w.ctx
	w.buildRequest(fctx, o)
	w.cur, w.acts, w.gens, w.active = o, nil, nil, nil
	w.h(fctx)
	ck, hd := w.reply(fctx)
	acts := "noacts"
	if len(w.acts) > 0 {
		acts = strings.Join(w.acts, ".")
	}
	if fctx.Response.StatusCode() != 200 {
		acts += "~" + strconv.Itoa(fctx.Response.StatusCode())
	}
	return strings.Join([]string{acts, ck, hd, plusList(w.gens), w.liveKeys()}, ",")
}

func runCase(c cfgIn, ops []op) string {
	w, panicked := newWorld(c)
	if panicked {
		return "panic"
	}
	out := make([]string, len(ops))
	for i, o := range ops {
		switch o.kind {
		case "a":
			time.Sleep(time.Duration(o.secs) * time.Second)
			out[i] = "-"
		case "b", "s", "e":
			out[i] = w.event(o)
		case "c":
			out[i] = w.corrupt(o)
		default:
			out[i] = w.do(o)
		}
	}
	w.drain()
	w.close()
	if len(out) == 0 {
		return "-"
	}
	return strings.Join(out, ";")
}

// close stops the built-in memory storage's GC goroutine (one per store otherwise leaks).
func (w *world) close() {
	if strings.HasPrefix(w.cfg.storage, "mem") {
		_ = w.store.Storage.Close()
	}
}

func emit(wr *gen.Writer, id string, c cfgIn, ops []op, obs string) {
	s := make([]string, len(ops))
	for i, o := range ops {
		s[i] = o.String()
	}
	opsField := "-"
	if len(s) > 0 {
		opsField = strings.Join(s, ";")
	}
	wr.Case(id, c.source, c.storage, gen.I(c.idle), gen.I(c.abs), opsField, obs)
}

func replay(wr *gen.Writer, file string) {
	for _, f := range gen.ReplayInputs(file) {
		func() {
			defer func() {
				if r := recover(); r != nil {
					wr.Count("replay-skipped")
				}
			}()
			if len(f) < 6 {
				wr.Count("replay-skipped")
				return
			}
			idle, err1 := strconv.Atoi(f[3])
			abs, err2 := strconv.Atoi(f[4])
			if err1 != nil || err2 != nil || idle <= 0 || abs < 0 || (abs > 0 && abs < idle) {
				wr.Count("replay-skipped")
				return
			}
			c := cfgIn{source: f[1], storage: f[2], idle: idle, abs: abs}
			if (c.source != "cookie" && c.source != "header" && c.source != "query") || (c.storage != "mem" && c.storage != "inj" && c.storage != "memN" && c.storage != "injN") {
				wr.Count("replay-skipped")
				return
			}
			var ops []op
			if f[5] != "-" {
				for _, s := range strings.Split(f[5], ";") {
					o, ok := parseOp(s)
					if !ok {
						wr.Count("replay-skipped")
						return
					}
					ops = append(ops, o)
				}
			}
			emit(wr, f[0], c, ops, runCase(c, ops))
		}()
	}
}

func main() {
	debug.SetGCPercent(-1) // see chunk.go
	// one P: sync.Pool keeps a released object in the per-P private slot, so the next acquire on the same
	// P gets that very object back. With one P "the next request draws the Session the last one released"
	// holds deterministically (a sleeping goroutine may otherwise resume on another P and a leftover of a
	// failed load would surface in some later, unrelated case).
	runtime.GOMAXPROCS(1)
	log.SetOutput(io.Discard)
	o := gen.ParseFlags()
	if o.Replay == "" && *flagLo < 0 && o.N > chunkSize {
		runParent(o)
		return
	}
	// start gofiber/utils' 1 s timestamp updater now (a session store without Storage creates the
	// built-in memory storage, which starts it), then move the harness half a second off its ticks so
	// that whole-second advances never race the updater: utils.Timestamp() is exactly floor(now)
	_ = session.NewStore()
	time.Sleep(500 * time.Millisecond)
	wr := gen.NewWriter(o.Out)
	defer wr.Close()
	if o.Replay != "" {
		replay(wr, o.Replay)
		return
	}
	lo, hi := 0, o.N
	if *flagLo >= 0 {
		lo, hi = *flagLo, *flagHi
	}
	root := gen.New(o.Seed)
	for i := lo; i < hi; i++ {
		r := root.Fork(uint64(i))
		var c cfgIn
		var ops []op
		var obs string
		sched := r.Chance(1, 4)
		switch os.Getenv("C15_MODE") { // self-test knob: only schedules / only sequential histories
		case "sched":
			sched = true
		case "seq":
			sched = false
		}
		corrupt := i%12 == 7 // one history in twelve has a damaged blob (corrupt.go); the others are as before
		switch os.Getenv("C15_MODE") {
		case "corrupt":
			corrupt = true
		case "sched", "seq":
			corrupt = false
		}
		if corrupt {
			c, ops, obs = genCorrupt(r, wr)
		} else if sched {
			c, ops, obs = genSchedule(r, wr)
		} else {
			c, ops, obs = genCase(r, wr)
		}
		emit(wr, fmt.Sprintf("s%d.%d", o.Seed, i), c, ops, obs)
	}
}
