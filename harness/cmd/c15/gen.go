package main

import (
	"strconv"
	"strings"
	"time"

	"verifharness/internal/gen"
)

type client struct{ id string }

var keysV = []string{"a", "b", "c"}
var valsV = []string{"1", "2", "xy", "alice", "bob", "", strings.Repeat("x", 200)}

// genScript: a Store-API handler may look the request's session up several times (guard middleware +
// handler, each Get / work / Save / Release): one script in three has two or three such segments.
func genScript(r *gen.Rand, api string, c cfgIn, ids []string, own string, calm bool) []string {
	sc := genSegment(r, api, c, ids, own, calm, true, false)
	if api != "s" {
		return sc
	}
	segs := 1
	switch r.Intn(9) {
	case 0, 1:
		segs = 2
	case 2:
		segs = 3
	}
	if calm && r.Chance(1, 3) {
		segs = 2 + r.Intn(2)
	}
	destroyed := false
	for _, a := range sc {
		if a == "D" {
			destroyed = true
		}
	}
	for i := 1; i < segs; i++ {
		seg := genSegment(r, api, c, ids, own, calm, false, destroyed)
		for _, a := range seg {
			if a == "D" {
				destroyed = true
			}
		}
		sc = append(sc, seg...)
	}
	return sc
}

// genSegment: one lookup (or none) followed by handler work; `first` = the segment that opens the script,
// `noSave` = a Destroy happened earlier in the script (the oracle's domain has no Save after Destroy).
func genSegment(r *gen.Rand, api string, c cfgIn, ids []string, own string, calm, first, noSave bool) []string {
	var sc []string
	pickID := func() string {
		if own != "" && r.Chance(1, 2) {
			return gen.Hex(own)
		}
		return gen.Hex(gen.Pick(r, ids))
	}
	alive := true // a session variable is held and usable
	if api == "s" && !first {
		sc = append(sc, "G") // a later lookup of the same request
	}
	if api == "s" && first {
		first := r.Intn(12)
		if calm && own != "" && r.Chance(1, 3) {
			first = 0
			sc = append(sc, "B"+gen.Hex(own))
		}
		switch first {
		case 0:
			if len(sc) == 0 {
				sc = append(sc, "B"+pickID())
			}
		case 1:
			sc = append(sc, "B"+pickID())
		case 2:
			alive = false
		default:
			// store.Get need not be the handler's first call
			switch r.Intn(10) {
			case 0:
				sc = append(sc, "Z"+pickID())
			case 1:
				sc = append(sc, "B"+pickID(), "I")
			case 2:
				sc = append(sc, "I")
			}
			sc = append(sc, "G")
		}
	}
	n := 1 + r.Intn(6)
	destroyed := noSave
	for i := 0; i < n; i++ {
		if !alive {
			switch r.Intn(4) {
			case 0:
				sc = append(sc, "Z"+pickID())
			case 1:
				if r.Chance(1, 6) {
					sc = append(sc, "W")
				}
			case 2:
				sc = append(sc, "B"+pickID())
				alive = true
			default:
			}
			continue
		}
		what := r.Intn(20)
		if calm && what >= 12 && what <= 14 && r.Chance(3, 4) {
			what = 0 // keep the session going most of the time
		}
		switch what {
		case 0, 1, 2:
			sc = append(sc, "I")
		case 3, 4, 5:
			sc = append(sc, "g"+gen.Hex(gen.Pick(r, keysV)))
		case 6, 7, 8, 9:
			if !destroyed || api == "m" {
				sc = append(sc, "s"+gen.Hex(gen.Pick(r, keysV))+"="+gen.Hex(gen.Pick(r, valsV)))
			}
		case 10:
			sc = append(sc, "d"+gen.Hex(gen.Pick(r, keysV)))
		case 11:
			sc = append(sc, "K")
		case 12:
			if r.Chance(1, 2) {
				sc = append(sc, "D")
				destroyed = true
			}
		case 13:
			if !destroyed {
				sc = append(sc, "R")
			}
		case 14:
			if !destroyed {
				sc = append(sc, "X")
			}
		case 15:
			sc = append(sc, "T"+strconv.Itoa(gen.Pick(r, []int{1, 3, 20, 0, -1, c.idle + 2})))
		case 16:
			if !destroyed {
				sc = append(sc, "S")
			}
		case 17:
			if r.Chance(1, 3) {
				sc = append(sc, "Z"+pickID())
			} else if r.Chance(1, 10) {
				sc = append(sc, "W")
			}
		case 18:
			if api == "m" && r.Chance(1, 3) {
				sc = append(sc, "G") // behind the middleware: ErrSessionAlreadyLoadedByMiddleware
			}
		default:
			sc = append(sc, "I", "g"+gen.Hex(gen.Pick(r, keysV)))
		}
	}
	if api == "s" && alive {
		if !destroyed && (calm || r.Chance(5, 6)) {
			sc = append(sc, "S")
		}
		if r.Chance(5, 6) {
			sc = append(sc, "L")
		}
	}
	return sc
}

// genCase generates a history adaptively (choices look at what the server answered so far) but
// records only concrete values, so the case replays and shrinks as plain data.
func genCase(r *gen.Rand, wr *gen.Writer) (cfgIn, []op, string) {
	c := cfgIn{source: gen.Pick(r, []string{"cookie", "cookie", "header", "query"}),
		storage: gen.Pick(r, []string{"inj", "inj", "inj", "mem"}), idle: gen.Pick(r, []int{2, 5, 10, 60})}
	if r.Chance(1, 32) {
		c.source, c.idle = "default", defaultIdle // session.Config without KeyLookup / IdleTimeout
	}
	if r.Chance(1, 4) {
		c.storage += "N" // session.New with an explicit Store instead of session.NewWithStore
	}
	c.abs = gen.Pick(r, []int{0, 0, c.idle, 2 * c.idle, 3*c.idle + 1})
	wr.Count("source-" + c.source)
	wr.Count("storage-" + c.storage)
	if c.abs > 0 {
		wr.Count("abs")
	}
	// keep-alive stream: few clients that come back just before the idle timeout, so that sessions
	// outlive their absolute deadline (and custom idle timeouts) while still live in the storage
	keepAlive := c.abs > 0 && c.idle <= 10 && r.Chance(4, 5) // (every virtual second costs a timer wake-up)
	if keepAlive {
		wr.Count("keep-alive")
	}
	longAdvances := 0
	w, panicked := newWorld(c)
	if panicked {
		return c, []op{{kind: "a", secs: 1}}, "panic"
	}
	ncl := 1 + r.Intn(3)
	if keepAlive {
		ncl = 1
		if r.Chance(1, 4) {
			ncl = 2
		}
	}
	elapsed := 0
	cls := make([]client, ncl)
	seen := []string{"forged", "id999", "ID1", "123e4567-e89b-42d3-a456-426614174000",
		"0123456789abcdef0123456789abcdef0123456789abcdef0123456789abcdef", "id1_", "-"}
	n := 3 + r.Intn(10)
	if keepAlive {
		n = 8 + r.Intn(10)
	}
	var ops []op
	var obs []string
	for i := 0; i < n; i++ {
		advance := r.Chance(1, 5)
		if keepAlive {
			advance = i%2 == 1 && r.Chance(5, 6)
		}
		if advance {
			choices := []int{1, 1, 2, c.idle - 1, c.idle, c.idle + 1}
			if c.abs > 0 {
				choices = append(choices, c.abs-c.idle, c.abs, c.abs+1)
			}
			if keepAlive {
				choices = []int{c.idle - 1, c.idle - 1, c.idle - 1, c.idle / 2, 1, c.idle}
				if left := c.abs - elapsed; left >= 0 && left < c.idle {
					choices = append(choices, left, left, left+1, left+1) // land on / just past the absolute deadline
				}
			}
			o := op{kind: "a", secs: gen.Pick(r, choices)}
			if o.secs < 0 {
				o.secs = 0
			}
			if o.secs > 100 { // the 30-minute default: one long advance per history is enough
				if longAdvances > 0 {
					o.secs = 1 + r.Intn(2)
				}
				longAdvances++
			}
			time.Sleep(time.Duration(o.secs) * time.Second)
			elapsed += o.secs
			ops = append(ops, o)
			obs = append(obs, "-")
			continue
		}
		cl := &cls[r.Intn(ncl)]
		o := op{kind: "r", api: "m"}
		if r.Chance(2, 5) {
			o.api = "s"
		}
		id := cl.id
		pickOther := r.Intn(14)
		if keepAlive && r.Chance(2, 3) {
			pickOther = 13 // mostly the client's own id
		}
		switch pickOther {
		case 0:
			id = ""
		case 1:
			id = cls[r.Intn(ncl)].id
		case 2:
			id = gen.Pick(r, seen)
		case 3:
			id = "id" + strconv.Itoa(w.nid+1+r.Intn(2)) // an id the server has not issued yet
		}
		switch c.source {
		case "cookie", "default":
			o.ck = id
			if r.Chance(1, 12) {
				o.hd = gen.Pick(r, seen)
			}
		case "header":
			o.hd = id
			if r.Chance(1, 8) {
				o.ck = gen.Pick(r, seen) // the cookie is consulted first, whatever the source
			}
		case "query":
			// the server answers with a cookie; a client replays it and/or the query parameter
			switch r.Intn(4) {
			case 0:
				o.qr = id
			case 1:
				o.ck = id
			default:
				o.qr, o.ck = id, id
			}
			if r.Chance(1, 10) {
				o.ck = gen.Pick(r, seen)
			}
		}
		o.script = genScript(r, o.api, c, seen, cl.id, keepAlive)
		res := w.do(o)
		ops = append(ops, o)
		obs = append(obs, res)
		f := strings.Split(res, ",")
		if len(f) == 5 {
			got := ""
			switch {
			case c.source == "header":
				if strings.HasPrefix(f[2], "h") && f[2] != "hnone" {
					got = gen.UnHex(f[2][1:])
				}
			default:
				if f[1] == "cexp" {
					cl.id = ""
				} else if f[1] != "cnone" && f[1] != "cbad" {
					got = gen.UnHex(f[1][1:])
				}
			}
			if got != "" {
				cl.id = got
				seen = append(seen, got)
			}
			if strings.Contains(f[0], "v") {
				wr.Count("req-saw-data")
			}
		}
	}
	w.close()
	return c, ops, strings.Join(obs, ";")
}

// pickPresented chooses what a request of client cl presents (mostly its current id).
func pickPresented(r *gen.Rand, c cfgIn, o *op, cls []client, cl *client, seen []string, nid int) {
	id := cl.id
	switch r.Intn(14) {
	case 0:
		id = ""
	case 1:
		id = cls[r.Intn(len(cls))].id
	case 2:
		id = gen.Pick(r, seen)
	case 3:
		id = "id" + strconv.Itoa(nid+1+r.Intn(2))
	}
	switch c.source {
	case "cookie", "default":
		o.ck = id
	case "header":
		o.hd = id
		if r.Chance(1, 8) {
			o.ck = gen.Pick(r, seen)
		}
	case "query":
		switch r.Intn(3) {
		case 0:
			o.qr = id
		case 1:
			o.ck = id
		default:
			o.qr, o.ck = id, id
		}
	}
}

type genFlight struct {
	rid, cl, todo int
}

// genSchedule generates a schedule of overlapping requests: up to three requests in flight, their
// handler actions interleaved at random, two requests of one client (same id) overlapping included.
func genSchedule(r *gen.Rand, wr *gen.Writer) (cfgIn, []op, string) {
	c := cfgIn{source: gen.Pick(r, []string{"cookie", "cookie", "header", "query"}),
		storage: gen.Pick(r, []string{"inj", "inj", "mem"}), idle: gen.Pick(r, []int{2, 5, 10})}
	c.abs = gen.Pick(r, []int{0, 0, c.idle, 2 * c.idle})
	if r.Chance(1, 4) {
		c.storage += "N"
	}
	wr.Count("schedule")
	wr.Count("source-" + c.source)
	wr.Count("storage-" + c.storage)
	w, panicked := newWorld(c)
	if panicked {
		return c, []op{{kind: "a", secs: 1}}, "panic"
	}
	ncl := 1 + r.Intn(3)
	cls := make([]client, ncl)
	seen := []string{"forged", "id999", "ID1"}
	var ops []op
	var obs []string
	var fl []genFlight
	nextRid := 0
	do := func(o op) string {
		var res string
		if o.kind == "a" {
			time.Sleep(time.Duration(o.secs) * time.Second)
			res = "-"
		} else {
			res = w.event(o)
		}
		ops = append(ops, o)
		obs = append(obs, res)
		return res
	}
	finish := func(i int) {
		f := fl[i]
		res := do(op{kind: "e", rid: f.rid})
		fl = append(fl[:i], fl[i+1:]...)
		p := strings.Split(res, ",")
		if len(p) == 4 && p[0] == "F" {
			cl := &cls[f.cl]
			got := ""
			if c.source == "header" {
				if p[2] != "hnone" {
					got = gen.UnHex(p[2][1:])
				}
			} else if p[1] == "cexp" {
				cl.id = ""
			} else if p[1] != "cnone" && p[1] != "cbad" {
				got = gen.UnHex(p[1][1:])
			}
			if got != "" {
				cl.id = got
				seen = append(seen, got)
			}
		}
	}
	n := 10 + r.Intn(30)
	for i := 0; i < n; i++ {
		switch {
		case r.Chance(1, 40):
			// an event that does not fit: must change nothing
			switch r.Intn(3) {
			case 0:
				do(op{kind: "s", rid: 90 + r.Intn(5)})
			case 1:
				do(op{kind: "e", rid: 90 + r.Intn(5)})
			default:
				if len(fl) > 0 {
					f := fl[r.Intn(len(fl))]
					if f.todo > 0 {
						do(op{kind: "e", rid: f.rid})
					} else {
						do(op{kind: "s", rid: f.rid})
					}
				}
			}
		case r.Chance(1, 10):
			do(op{kind: "a", secs: gen.Pick(r, []int{1, 1, 2, c.idle - 1, c.idle, c.idle + 1})})
		case len(fl) == 0 || (len(fl) < 3 && r.Chance(1, 3)):
			ci := r.Intn(ncl)
			o := op{kind: "b", rid: nextRid, api: "m"}
			nextRid++
			if r.Chance(2, 5) {
				o.api = "s"
			}
			pickPresented(r, c, &o, cls, &cls[ci], seen, w.nid)
			o.script = genScript(r, o.api, c, seen, cls[ci].id, false)
			if res := do(o); strings.HasPrefix(res, "S,") {
				fl = append(fl, genFlight{rid: o.rid, cl: ci, todo: len(o.script)})
			}
		default:
			j := r.Intn(len(fl))
			if fl[j].todo > 0 {
				if res := do(op{kind: "s", rid: fl[j].rid}); strings.HasPrefix(res, "T,") {
					fl[j].todo--
				} else {
					fl = append(fl[:j], fl[j+1:]...)
				}
			} else {
				finish(j)
			}
		}
	}
	for len(fl) > 0 {
		if fl[0].todo > 0 {
			if res := do(op{kind: "s", rid: fl[0].rid}); strings.HasPrefix(res, "T,") {
				fl[0].todo--
			} else {
				fl = fl[1:]
			}
		} else {
			finish(0)
		}
	}
	w.drain()
	w.close()
	return c, ops, strings.Join(obs, ";")
}
