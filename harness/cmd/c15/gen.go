package main

import (
	"strconv"
	"strings"
	"time"

	"verifharness/internal/gen"
)

type client struct{ id string }

var keysV = []string{"a", "b", "c"}
var valsV = []string{"1", "2", "xy", "alice", "bob"}

func genScript(r *gen.Rand, api string, c cfgIn, ids []string, own string) []string {
	var sc []string
	pickID := func() string {
		if own != "" && r.Chance(1, 2) {
			return gen.Hex(own)
		}
		return gen.Hex(gen.Pick(r, ids))
	}
	alive := true // a session variable is held and usable
	if api == "s" {
		switch r.Intn(12) {
		case 0:
			sc = append(sc, "B"+pickID())
		case 1:
			alive = false
		default:
			sc = append(sc, "G")
		}
	}
	n := 1 + r.Intn(6)
	destroyed := false
	for i := 0; i < n; i++ {
		if !alive {
			switch r.Intn(4) {
			case 0:
				sc = append(sc, "Z"+pickID())
			case 1:
				if r.Chance(1, 6) {
					sc = append(sc, "W")
				}
			case 2:
				sc = append(sc, "B"+pickID())
				alive, destroyed = true, false
			default:
			}
			continue
		}
		switch r.Intn(20) {
		case 0, 1, 2:
			sc = append(sc, "I")
		case 3, 4, 5:
			sc = append(sc, "g"+gen.Hex(gen.Pick(r, keysV)))
		case 6, 7, 8, 9:
			if !destroyed || api == "m" {
				sc = append(sc, "s"+gen.Hex(gen.Pick(r, keysV))+"="+gen.Hex(gen.Pick(r, valsV)))
			}
		case 10:
			sc = append(sc, "d"+gen.Hex(gen.Pick(r, keysV)))
		case 11:
			sc = append(sc, "K")
		case 12:
			if r.Chance(1, 2) {
				sc = append(sc, "D")
				destroyed = true
			}
		case 13:
			if !destroyed {
				sc = append(sc, "R")
			}
		case 14:
			if !destroyed {
				sc = append(sc, "X")
			}
		case 15:
			sc = append(sc, "T"+strconv.Itoa(gen.Pick(r, []int{1, 3, 20, 0, -1, c.idle + 2})))
		case 16:
			if !destroyed {
				sc = append(sc, "S")
			}
		case 17:
			if r.Chance(1, 3) {
				sc = append(sc, "Z"+pickID())
			} else if r.Chance(1, 10) {
				sc = append(sc, "W")
			}
		case 18:
			if api == "m" && r.Chance(1, 3) {
				sc = append(sc, "G") // behind the middleware: ErrSessionAlreadyLoadedByMiddleware
			}
		default:
			sc = append(sc, "I", "g"+gen.Hex(gen.Pick(r, keysV)))
		}
	}
	if api == "s" && alive {
		if !destroyed && r.Chance(5, 6) {
			sc = append(sc, "S")
		}
		if r.Chance(5, 6) {
			sc = append(sc, "L")
		}
	}
	return sc
}

// genCase generates a history adaptively (choices look at what the server answered so far) but
// records only concrete values, so the case replays and shrinks as plain data.
func genCase(r *gen.Rand, wr *gen.Writer) (cfgIn, []op, string) {
	c := cfgIn{source: gen.Pick(r, []string{"cookie", "cookie", "header", "query"}),
		storage: gen.Pick(r, []string{"inj", "inj", "inj", "mem"}), idle: gen.Pick(r, []int{2, 5, 10, 60})}
	c.abs = gen.Pick(r, []int{0, 0, c.idle, 2 * c.idle, 3*c.idle + 1})
	wr.Count("source-" + c.source)
	wr.Count("storage-" + c.storage)
	if c.abs > 0 {
		wr.Count("abs")
	}
	w, panicked := newWorld(c)
	if panicked {
		return c, []op{{kind: "a", secs: 1}}, "panic"
	}
	ncl := 1 + r.Intn(3)
	cls := make([]client, ncl)
	seen := []string{"forged", "id999", "ID1"}
	n := 3 + r.Intn(10)
	var ops []op
	var obs []string
	for i := 0; i < n; i++ {
		if r.Chance(1, 5) {
			choices := []int{1, 1, 2, c.idle - 1, c.idle, c.idle + 1}
			if c.abs > 0 {
				choices = append(choices, c.abs-c.idle, c.abs, c.abs+1)
			}
			o := op{kind: "a", secs: gen.Pick(r, choices)}
			if o.secs < 0 {
				o.secs = 0
			}
			time.Sleep(time.Duration(o.secs) * time.Second)
			ops = append(ops, o)
			obs = append(obs, "-")
			continue
		}
		cl := &cls[r.Intn(ncl)]
		o := op{kind: "r", api: "m"}
		if r.Chance(2, 5) {
			o.api = "s"
		}
		id := cl.id
		switch r.Intn(14) {
		case 0:
			id = ""
		case 1:
			id = cls[r.Intn(ncl)].id
		case 2:
			id = gen.Pick(r, seen)
		case 3:
			id = "id" + strconv.Itoa(w.nid+1+r.Intn(2)) // an id the server has not issued yet
		}
		switch c.source {
		case "cookie":
			o.ck = id
			if r.Chance(1, 12) {
				o.hd = gen.Pick(r, seen)
			}
		case "header":
			o.hd = id
			if r.Chance(1, 8) {
				o.ck = gen.Pick(r, seen) // the cookie is consulted first, whatever the source
			}
		case "query":
			// the server answers with a cookie; a client replays it and/or the query parameter
			switch r.Intn(4) {
			case 0:
				o.qr = id
			case 1:
				o.ck = id
			default:
				o.qr, o.ck = id, id
			}
			if r.Chance(1, 10) {
				o.ck = gen.Pick(r, seen)
			}
		}
		o.script = genScript(r, o.api, c, seen, cl.id)
		res := w.do(o)
		ops = append(ops, o)
		obs = append(obs, res)
		f := strings.Split(res, ",")
		if len(f) == 5 {
			got := ""
			switch {
			case c.source == "header":
				if strings.HasPrefix(f[2], "h") && f[2] != "hnone" {
					got = gen.UnHex(f[2][1:])
				}
			default:
				if f[1] == "cexp" {
					cl.id = ""
				} else if f[1] != "cnone" && f[1] != "cbad" {
					got = gen.UnHex(f[1][1:])
				}
			}
			if got != "" {
				cl.id = got
				seen = append(seen, got)
			}
			if strings.Contains(f[0], "v") {
				wr.Count("req-saw-data")
			}
		}
	}
	w.close()
	return c, ops, strings.Join(obs, ";")
}
