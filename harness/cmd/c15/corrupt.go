package main

// Stored session blobs that fail to decode (store.go getSession / GetByID, the decode-error paths).
//
// Op `c:<id>:<kind>:<n>` rewrites, in the injected storage, the blob of the live entry <id> (its expiry is
// kept). Kinds:
//   p  damage IN PLACE inside the last third of the valid blob (byte := 0xff at an offset chosen by n): gob
//      reads the whole length-prefixed message, decodes the map entry by entry INTO THE MAP IT IS GIVEN and
//      fails inside a later entry — the earlier entries are already in the pooled Session's map. The
//      offset is searched (starting at n) until a decode into a scratch map fails with >= 1 entry decoded;
//   t  cut bytes off the end: the message is shorter than its length prefix, gob fails at once
//      (unexpected EOF) with nothing decoded;
//   g  garbage bytes: fails at once.
// Observation: c1 (a live entry was damaged) | c0 (no live entry under that id; nothing done).

import (
	"bytes"
	"encoding/gob"
	"errors"
	"strconv"
	"strings"
	"time"

	"github.com/gofiber/fiber/v3/middleware/session"

	"verifharness/internal/gen"
)

// tryDecode decodes b the way session.decodeSessionData does, into a scratch map.
func tryDecode(b []byte) (entries int, err error) {
	defer func() {
		if r := recover(); r != nil {
			entries, err = 0, errors.New("gob panicked")
		}
	}()
	out := map[any]any{}
	err = gob.NewDecoder(bytes.NewReader(b)).Decode(&out)
	return len(out), err
}

// damage returns the damaged blob and whether it decodes part-way before failing.
func damage(blob []byte, kind string, n int) ([]byte, bool) {
	garbage := []byte("\x07\xff\x81not-a-gob-stream")
	switch kind {
	case "p":
		lo := len(blob) * 2 / 3
		span := len(blob) - lo
		best := []byte(nil)
		for i := 0; i < span; i++ {
			off := lo + (n+i)%span
			b := append([]byte(nil), blob...)
			b[off] = 0xff
			k, err := tryDecode(b)
			if err == nil {
				continue
			}
			if k >= 1 {
				return b, true
			}
			if best == nil {
				best = b
			}
		}
		if best != nil {
			return best, false
		}
		return garbage, false
	case "t":
		cut := 1 + n%8
		if cut >= len(blob) {
			return garbage, false
		}
		b := append([]byte(nil), blob[:len(blob)-cut]...)
		if _, err := tryDecode(b); err == nil {
			return garbage, false
		}
		return b, false
	}
	return garbage, false
}

// flushPool makes every case start from a pool of clean Session objects: it draws several pooled
// Sessions through the public API (GetByID of an empty, valid blob in a scratch store) and releases them —
// `Release` resets each. On the unchanged code this is unobservable; if a failed load left data in a
// pooled object at the very end of a case (or of a shrinking candidate), it keeps that leftover from
// surfacing in the NEXT case, so every reported case fails by itself when replayed.
var flushStore *session.Store

func flushPool() {
	defer func() { _ = recover() }()
	if flushStore == nil {
		st := newMapStorage()
		var buf bytes.Buffer
		m := map[any]any{}
		if err := gob.NewEncoder(&buf).Encode(&m); err != nil {
			return
		}
		_ = st.Set("flush", buf.Bytes(), 0)
		flushStore = session.NewStore(session.Config{Storage: st})
	}
	var held []*session.Session
	for i := 0; i < 6; i++ {
		if s, err := flushStore.GetByID("flush"); err == nil {
			held = append(held, s)
		}
	}
	for _, s := range held {
		s.Release()
	}
}

func (w *world) count(k string) {
	if w.wr != nil {
		w.wr.Count(k)
	}
}

func (w *world) corrupt(o op) string {
	if w.inj == nil || o.cid == "" {
		return "c0"
	}
	e, ok := w.inj.m[o.cid]
	if !ok || !w.inj.live(e) {
		return "c0"
	}
	nb, partial := damage(e.val, o.ckind, o.cn)
	w.inj.m[o.cid] = entry{val: nb, exp: e.exp}
	if partial {
		w.count("corrupt-partial")
	} else {
		w.count("corrupt-at-once")
	}
	return "c1"
}

// ---------------------------------------------------------------------------------------------
// generator: sessions are created, one (the victim) gets a damaged blob, the victim's id is presented,
// and then — on the same goroutine, so that sync.Pool hands the very Session object back — new visitors
// and the other sessions are served, through the middleware, store.Get and GetByID. The victim's keys
// (vk1…) and values are used by nobody else; every follow-up lists ALL keys of the session it sees.

var victimKeys = []string{"vk1", "vk2", "vk3", "vk4"}

func present(c cfgIn, r *gen.Rand, o *op, id string) {
	switch c.source {
	case "header":
		o.hd = id
	case "query":
		switch r.Intn(3) {
		case 0:
			o.qr = id
		case 1:
			o.ck = id
		default:
			o.qr, o.ck = id, id
		}
	default:
		o.ck = id
	}
}

// replyID: the id a reply hands to the client ("" = none)
func replyID(c cfgIn, res string) string {
	f := strings.Split(res, ",")
	if len(f) != 5 {
		return ""
	}
	if c.source == "header" {
		if strings.HasPrefix(f[2], "h") && f[2] != "hnone" {
			return gen.UnHex(f[2][1:])
		}
		return ""
	}
	if f[1] != "cnone" && f[1] != "cexp" && f[1] != "cbad" && strings.HasPrefix(f[1], "c") {
		return gen.UnHex(f[1][1:])
	}
	return ""
}

func genCorrupt(r *gen.Rand, wr *gen.Writer) (cfgIn, []op, string) {
	c := cfgIn{source: gen.Pick(r, []string{"cookie", "cookie", "header", "query"}),
		storage: gen.Pick(r, []string{"inj", "inj", "injN"}), idle: gen.Pick(r, []int{10, 60})}
	c.abs = gen.Pick(r, []int{0, 0, 2 * c.idle})
	wr.Count("corrupt-history")
	wr.Count("source-" + c.source)
	wr.Count("storage-" + c.storage)
	w, panicked := newWorld(c)
	if panicked {
		return c, []op{{kind: "a", secs: 1}}, "panic"
	}
	w.wr = wr
	var ops []op
	var obs []string
	run := func(o op) string {
		var res string
		switch o.kind {
		case "a":
			time.Sleep(time.Duration(o.secs) * time.Second)
			res = "-"
		case "c":
			res = w.corrupt(o)
		default:
			res = w.do(o)
		}
		ops = append(ops, o)
		obs = append(obs, res)
		return res
	}
	setter := func(k, v string) string { return "s" + gen.Hex(k) + "=" + gen.Hex(v) }
	// create a session holding the given entries; through the middleware or the Store API
	create := func(kv [][2]string) string {
		o := op{kind: "r", api: gen.Pick(r, []string{"m", "m", "s"})}
		if o.api == "s" {
			o.script = append(o.script, "G")
		}
		for _, e := range kv {
			o.script = append(o.script, setter(e[0], e[1]))
		}
		if o.api == "s" {
			o.script = append(o.script, "S", "L")
		}
		return replyID(c, run(o))
	}
	// the victim: 2-4 entries under keys nobody else uses, values that identify it
	nv := 2 + r.Intn(3)
	var vkv [][2]string
	for i := 0; i < nv; i++ {
		vkv = append(vkv, [2]string{victimKeys[i], "leak-of-victim-" + strconv.Itoa(i) + "-" + strings.Repeat("V", 8+r.Intn(40))})
	}
	nOthers := 1 + r.Intn(2)
	var others []string
	victim := ""
	order := r.Intn(nOthers + 1) // the victim is created before / between / after the others
	for i := 0; i <= nOthers; i++ {
		if i == order {
			victim = create(vkv)
			continue
		}
		var kv [][2]string
		for _, k := range keysV[:1+r.Intn(len(keysV))] {
			kv = append(kv, [2]string{k, "own-" + strconv.Itoa(i) + "-" + gen.Pick(r, valsV[:5])})
		}
		if id := create(kv); id != "" {
			others = append(others, id)
		}
	}
	if r.Chance(1, 6) {
		run(op{kind: "a", secs: 1})
	}
	kind := gen.Pick(r, []string{"p", "p", "p", "p", "t", "g"})
	run(op{kind: "c", cid: victim, ckind: kind, cn: r.Intn(200)})
	look := func(api string) []string {
		sc := []string{"I", "K", "g" + gen.Hex(gen.Pick(r, victimKeys[:nv])), "g" + gen.Hex(gen.Pick(r, keysV))}
		if r.Chance(1, 2) {
			sc = append(sc, setter(gen.Pick(r, keysV), "new-"+gen.Pick(r, valsV[:5])), "K")
		}
		if api == "s" {
			sc = append(append([]string{"G"}, sc...), "S")
			if r.Chance(5, 6) {
				sc = append(sc, "L")
			}
		}
		return sc
	}
	victimReq := func() {
		o := op{kind: "r", api: gen.Pick(r, []string{"m", "m", "s"})}
		present(c, r, &o, victim)
		switch {
		case o.api == "m":
			o.script = []string{"I", "K"}
		case r.Chance(1, 3):
			o.script = []string{"B" + gen.Hex(victim), "I", "K"}
			o.ck, o.hd, o.qr = "", "", ""
			if r.Chance(1, 2) {
				o.script = append(o.script, "G", "I", "K", "S", "L") // … then the request's own (fresh) session
			}
		default:
			o.script = []string{"G", "I", "K"}
			if r.Chance(1, 3) {
				o.script = append(o.script, "B"+gen.Hex(gen.Pick(r, append(others, victim))), "I", "K", "L")
			}
		}
		run(o)
	}
	victimReq()
	n := 3 + r.Intn(5)
	for i := 0; i < n; i++ {
		what := r.Intn(10)
		if i >= n-2 {
			// the history ends with two served follow-ups: whatever a failed load left in the pooled
			// object is observed inside this history (and does not travel into the next case)
			what = 9
		}
		switch what {
		case 0:
			victimReq()
			continue
		case 1:
			if r.Chance(1, 2) {
				run(op{kind: "a", secs: 1})
				continue
			}
		case 2:
			if r.Chance(1, 3) {
				// the damaged entry is deleted: its id then yields a fresh session like any dead id
				run(op{kind: "r", api: "s", script: []string{"Z" + gen.Hex(victim)}})
				continue
			}
		}
		o := op{kind: "r", api: gen.Pick(r, []string{"m", "s"})}
		if len(others) == 0 || r.Chance(1, 2) {
			// a new visitor: no id (or an id the server never issued)
			if r.Chance(1, 5) {
				present(c, r, &o, "forged")
			}
			o.script = look(o.api)
			wr.Count("after-corrupt-fresh")
			if id := replyID(c, run(o)); id != "" && r.Chance(1, 2) {
				others = append(others, id)
			}
			continue
		}
		id := gen.Pick(r, others)
		wr.Count("after-corrupt-other")
		if o.api == "s" && r.Chance(1, 3) {
			o.script = []string{"B" + gen.Hex(id), "I", "K", "g" + gen.Hex(gen.Pick(r, victimKeys[:nv])), "L"}
			run(o)
			continue
		}
		present(c, r, &o, id)
		o.script = look(o.api)
		run(o)
	}
	w.close()
	return c, ops, strings.Join(obs, ";")
}
