package main

import (
	"strconv"
	"strings"

	"github.com/valyala/fasthttp"
)

// Schedules: overlapping requests whose handler actions interleave as the case prescribes.
//
//	b:<rid>:<m|s>:<ck>:<hd>:<qr>:<script>   request rid arrives; the server runs it up to its handler's first action
//	s:<rid>                                 request rid performs its next handler action
//	e:<rid>                                 its handler returns (only after the last action); the reply is read
//
// Observations: b -> S,<gens>   s -> T,<action obs>,<gens>   e -> F,<ck>,<hd>,<live storage keys>
// An event that does not fit (rid in flight / unknown, no action left, actions left) changes nothing: "-".
//
// Every request runs w.h(fctx) on its own goroutine and RequestCtx; the goroutine parks before each
// action and after the last one, the scheduler (the harness' main goroutine) resumes exactly one flight
// at a time and waits until it parks again or returns, so every event is atomic.
type flight struct {
	o      op
	fctx   *fasthttp.RequestCtx
	resume chan struct{}
	parked chan bool // true: parked, false: the handler chain returned (or panicked)
	acts   []string
	todo   int
	failed bool
}

func (f *flight) park() {
	f.parked <- true
	<-f.resume
}

// run resumes the flight (or starts it) and waits for it to park / return; reports whether it parked.
func (w *world) run(f *flight, start bool) bool {
	w.active, w.gens = f, nil
	if start {
		go func() {
			defer func() {
				if r := recover(); r != nil {
					f.failed = true
				}
				f.parked <- false
			}()
			w.h(f.fctx)
		}()
	} else {
		f.resume <- struct{}{}
	}
	return <-f.parked
}

func (w *world) event(o op) string {
	if w.flights == nil {
		w.flights = map[int]*flight{}
	}
	f := w.flights[o.rid]
	switch o.kind {
	case "b":
		if f != nil {
			return "-"
		}
		f = &flight{o: o, fctx: &fasthttp.RequestCtx{}, resume: make(chan struct{}), parked: make(chan bool), todo: len(o.script)}
		f.fctx.Init(&fasthttp.Request{}, nil, nil)
		w.buildRequest(f.fctx, o)
		w.flights[o.rid] = f
		if !w.run(f, true) {
			// the handler chain returned without reaching the handler (or panicked)
			delete(w.flights, o.rid)
			return "S!," + plusList(w.gens)
		}
		return "S," + plusList(w.gens)
	case "s":
		if f == nil || f.todo == 0 {
			return "-"
		}
		n := len(f.acts)
		if !w.run(f, false) {
			delete(w.flights, o.rid)
			return "T!," + plusList(w.gens)
		}
		f.todo--
		obs := "?"
		if len(f.acts) == n+1 {
			obs = f.acts[n]
		}
		return "T," + obs + "," + plusList(w.gens)
	case "e":
		if f == nil || f.todo > 0 {
			return "-"
		}
		parked := w.run(f, false)
		delete(w.flights, o.rid)
		if parked || f.failed {
			return "F!"
		}
		ck, hd := w.reply(f.fctx)
		st := ""
		if f.fctx.Response.StatusCode() != 200 {
			st = "~" + strconv.Itoa(f.fctx.Response.StatusCode())
		}
		return strings.Join([]string{"F" + st, ck, hd, w.liveKeys()}, ",")
	}
	return "-"
}

// drain lets every request still in flight run to its end (nothing is recorded any more).
func (w *world) drain() {
	for rid, f := range w.flights {
		for w.run(f, false) {
		}
		delete(w.flights, rid)
	}
	w.active = nil
}
