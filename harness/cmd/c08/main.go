// Harness for C08: random mount trees (apps with / without their own ErrorHandler, sibling
// prefixes that are string-prefixes of each other, nesting, mounts from groups) × request paths ×
// an error raised somewhere in the chain. Every case is evaluated on several FRESH applications and
// several times on each (Go re-randomises the iteration order of a map for every `range`, and the
// bucket layout per map), and the observation is the SET of distinct outcomes seen.
//
// Line:  case id tree req mode err | outcomes
//
// tree : `<rootOwn>` then tokens joined by ','
//
//	A:<hexGroupPrefix|~>:<hexprefix>:<own>:<late> … E   sub := fiber.New(cfg); parent[.Group(gp)].Use(prefix, sub)
//	own  = `-` (no ErrorHandler configured) | `<id>o` (handler answers) | `<id>f` (handler itself fails)
//	late = 1: the app is mounted on its parent before its own children are mounted on it
//
// req  : `<m>:<hexpath>`   m = 0 GET, 2 POST
// mode : `mw` (the outermost middleware returns the error itself) | `chain` (whatever the chain returns),
//        optionally `+custom`: the root app uses a custom context (NewCtxFunc), i.e. customRequestHandler
// err  : `F:<code>:<hexmsg>` fiber.NewError | `P:<hexmsg>` errors.New | `W:<code>:<hexmsg>` wrapped *fiber.Error
//
//	— the error returned by every `/e` route and by the middleware in mode mw
//
// outcomes: distinct evaluations joined by '|', each
//
//	chain=<E:code:hexmsg | P:hexmsg | none>;calls=<id>x<n>.…|-;status=<n>;body=<hex>
//
// `chain` is the error value as the outermost middleware saw it come back from c.Next() (or the one
// it raised): `E` if errors.As finds a *fiber.Error (its Code), `P` otherwise, with err.Error().
// It is the input of the error funnel; routing itself (C01) is not modelled by C08.
package main

import (
	"errors"
	"fmt"
	"io"
	"sort"
	"strconv"
	"strings"

	"github.com/gofiber/fiber/v3"
	"github.com/gofiber/fiber/v3/log"
	"github.com/valyala/fasthttp"

	"verifharness/internal/gen"
)

const (
	nApps = 30
	nReq  = 2
)

type own struct {
	set   bool
	id    int
	fails bool
}

type node struct {
	gp       string
	hasGP    bool
	prefix   string
	own      own
	late     bool
	children []*node
}

type errSpec struct {
	kind byte // F P W
	code int
	msg  string
}

func (e errSpec) make() error {
	switch e.kind {
	case 'F':
		return fiber.NewError(e.code, e.msg)
	case 'W':
		return fmt.Errorf("wrap: %w", fiber.NewError(e.code, e.msg))
	default:
		return errors.New(e.msg)
	}
}

// ---------------------------------------------------------------- encoding

func encOwn(o own) string {
	if !o.set {
		return "-"
	}
	if o.fails {
		return strconv.Itoa(o.id) + "f"
	}
	return strconv.Itoa(o.id) + "o"
}

func decOwn(s string) own {
	if s == "-" {
		return own{}
	}
	if len(s) < 2 || (s[len(s)-1] != 'o' && s[len(s)-1] != 'f') {
		panic("bad own")
	}
	id, err := strconv.Atoi(s[:len(s)-1])
	if err != nil {
		panic("bad own")
	}
	return own{true, id, s[len(s)-1] == 'f'}
}

func encNodes(ns []*node, out *[]string) {
	for _, n := range ns {
		g := "~"
		if n.hasGP {
			g = gen.Hex(n.gp)
		}
		*out = append(*out, "A:"+g+":"+gen.Hex(n.prefix)+":"+encOwn(n.own)+":"+gen.B(n.late))
		encNodes(n.children, out)
		*out = append(*out, "E")
	}
}

func encTree(rootOwn own, ns []*node) string {
	out := []string{encOwn(rootOwn)}
	encNodes(ns, &out)
	return strings.Join(out, ",")
}

func decNodes(tok []string, pos *int, depth int) []*node {
	var out []*node
	for *pos < len(tok) {
		t := tok[*pos]
		*pos++
		if t == "E" {
			if depth == 0 {
				panic("unbalanced")
			}
			return out
		}
		f := strings.Split(t, ":")
		if len(f) != 5 || f[0] != "A" || (f[4] != "0" && f[4] != "1") {
			panic("bad token")
		}
		n := &node{prefix: gen.UnHex(f[2]), own: decOwn(f[3]), late: f[4] == "1"}
		if f[1] != "~" {
			n.hasGP, n.gp = true, gen.UnHex(f[1])
		}
		n.children = decNodes(tok, pos, depth+1)
		out = append(out, n)
	}
	if depth != 0 {
		panic("missing E")
	}
	return out
}

func decTree(s string) (own, []*node) {
	tok := strings.Split(s, ",")
	pos := 1
	return decOwn(tok[0]), decNodes(tok, &pos, 0)
}

func encErr(e errSpec) string {
	if e.kind == 'P' {
		return "P:" + gen.Hex(e.msg)
	}
	return string(e.kind) + ":" + strconv.Itoa(e.code) + ":" + gen.Hex(e.msg)
}

func decErr(s string) errSpec {
	f := strings.Split(s, ":")
	switch {
	case len(f) == 2 && f[0] == "P":
		return errSpec{kind: 'P', msg: gen.UnHex(f[1])}
	case len(f) == 3 && (f[0] == "F" || f[0] == "W"):
		c, err := strconv.Atoi(f[1])
		if err != nil || c < 100 || c > 599 {
			panic("bad code")
		}
		return errSpec{kind: f[0][0], code: c, msg: gen.UnHex(f[2])}
	}
	panic("bad err")
}

// ---------------------------------------------------------------- one evaluation

// customCtx makes the root app serve through customRequestHandler / nextCustom.
type customCtx struct {
	fiber.DefaultCtx
}

type run struct {
	calls    map[int]int
	chain    string
	mwRaises bool
	e        errSpec
}

func (r *run) reset() { r.calls = map[int]int{}; r.chain = "none" }

func cfgFor(o own, r *run) fiber.Config {
	if !o.set {
		return fiber.Config{}
	}
	return fiber.Config{ErrorHandler: func(c fiber.Ctx, err error) error {
		r.calls[o.id]++
		if o.fails {
			return errors.New("error handler failed")
		}
		return c.Status(418).SendString("eh" + strconv.Itoa(o.id) + ":" + err.Error())
	}}
}

func addRoutes(a *fiber.App, r *run) {
	a.Get("/e", func(fiber.Ctx) error { return r.e.make() })
	a.Get("/n", func(c fiber.Ctx) error { return c.SendString("ok") })
	a.Post("/p", func(c fiber.Ctx) error { return c.SendString("ok") })
}

func mountNodes(parent *fiber.App, ns []*node, r *run) {
	for _, n := range ns {
		sub := fiber.New(cfgFor(n.own, r))
		addRoutes(sub, r)
		var router fiber.Router = parent
		if n.hasGP {
			router = parent.Group(n.gp)
		}
		if n.late {
			router.Use(n.prefix, sub)
			mountNodes(sub, n.children, r)
		} else {
			mountNodes(sub, n.children, r)
			router.Use(n.prefix, sub)
		}
	}
}

func describe(err error) string {
	if err == nil {
		return "none"
	}
	var fe *fiber.Error
	if errors.As(err, &fe) {
		return "E:" + strconv.Itoa(fe.Code) + ":" + gen.Hex(err.Error())
	}
	return "P:" + gen.Hex(err.Error())
}

func buildApp(rootOwn own, ns []*node, r *run, custom bool) fasthttp.RequestHandler {
	root := fiber.New(cfgFor(rootOwn, r))
	if custom {
		root.NewCtxFunc(func(app *fiber.App) fiber.CustomCtx {
			return &customCtx{DefaultCtx: *fiber.NewDefaultCtx(app)}
		})
	}
	root.Use(func(c fiber.Ctx) error {
		if r.mwRaises {
			err := r.e.make()
			r.chain = describe(err)
			return err
		}
		err := c.Next()
		r.chain = describe(err)
		return err
	})
	addRoutes(root, r)
	mountNodes(root, ns, r)
	return root.Handler()
}

func evalOnce(h fasthttp.RequestHandler, r *run, m int, path string) (out string) {
	r.reset()
	defer func() {
		if rec := recover(); rec != nil {
			out = "panic"
		}
	}()
	var fctx fasthttp.RequestCtx
	var req fasthttp.Request
	req.Header.SetMethod(fiber.DefaultMethods[m])
	req.SetRequestURI(path)
	fctx.Init(&req, nil, nil)
	h(&fctx)
	if r.chain == "none" {
		return "chain=none;calls=-"
	}
	ids := make([]int, 0, len(r.calls))
	for id := range r.calls {
		ids = append(ids, id)
	}
	sort.Ints(ids)
	cs := make([]string, len(ids))
	for i, id := range ids {
		cs[i] = strconv.Itoa(id) + "x" + strconv.Itoa(r.calls[id])
	}
	c := strings.Join(cs, ".")
	if c == "" {
		c = "-"
	}
	return "chain=" + r.chain + ";calls=" + c + ";status=" + strconv.Itoa(fctx.Response.StatusCode()) + ";body=" + gen.Hex(string(fctx.Response.Body()))
}

func observe(rootOwn own, ns []*node, m int, path string, mw, custom bool, e errSpec) (obs string, ok bool) {
	defer func() {
		if r := recover(); r != nil {
			ok = false
		}
	}()
	seen := map[string]bool{}
	for a := 0; a < nApps; a++ {
		r := &run{mwRaises: mw, e: e}
		h := buildApp(rootOwn, ns, r, custom)
		for i := 0; i < nReq; i++ {
			seen[evalOnce(h, r, m, path)] = true
		}
	}
	keys := make([]string, 0, len(seen))
	for k := range seen {
		keys = append(keys, k)
	}
	sort.Strings(keys)
	return strings.Join(keys, "|"), true
}

func emit(w *gen.Writer, id string, rootOwn own, ns []*node, m int, path string, mw, custom bool, e errSpec) {
	obs, ok := observe(rootOwn, ns, m, path, mw, custom, e)
	if !ok {
		w.Count("build-panic")
		return
	}
	mode := "chain"
	if mw {
		mode = "mw"
	}
	if custom {
		mode += "+custom"
	}
	if strings.Contains(obs, "|") {
		w.Count("order-dependent-outcome")
	}
	w.Case(id, encTree(rootOwn, ns), strconv.Itoa(m)+":"+gen.Hex(path), mode, encErr(e), obs)
}

// ---------------------------------------------------------------- generator

var prefixes = []string{"/api", "/api", "/api-v2", "/api/v2", "/ap", "/a", "/", "/v1", "/api/", "/admin", "/adm",
	"api", "/v1/api", "/a/b", "/apiv2", "", "/x"}
var groupPrefixes = []string{"/g", "/api", "/", "/v1/", "g"}

// mirror of mount's key computation, used ONLY to reject trees with two apps at the same key
func ggp(prefix, path string) string {
	if path == "" {
		return prefix
	}
	if path[0] != '/' {
		path = "/" + path
	}
	return strings.TrimRight(prefix, "/") + path
}

func keys(parentKey string, ns []*node, out *[]string) {
	for _, n := range ns {
		p := n.prefix
		if n.hasGP {
			p = ggp(n.gp, n.prefix)
		}
		p = strings.TrimRight(p, "/")
		if p == "" {
			p = "/"
		}
		k := p
		if parentKey != "" {
			k = ggp(parentKey, p)
		}
		*out = append(*out, k)
		keys(k, n.children, out)
	}
}

type genCtx struct {
	r      *gen.Rand
	nextID int
}

func (g *genCtx) own(p int) own {
	if !g.r.Chance(p, 10) {
		return own{}
	}
	g.nextID++
	return own{true, g.nextID, g.r.Chance(1, 8)}
}

func (g *genCtx) nodes(depth int, budget *int) []*node {
	r := g.r
	var out []*node
	n := 1 + r.Intn(3)
	if depth > 0 {
		n = r.Intn(3)
	}
	for i := 0; i < n && *budget > 0; i++ {
		*budget--
		nd := &node{prefix: gen.Pick(r, prefixes), own: g.own(6), late: r.Chance(1, 3)}
		if r.Chance(1, 6) {
			nd.hasGP, nd.gp = true, gen.Pick(r, groupPrefixes)
		}
		if depth < 2 {
			nd.children = g.nodes(depth+1, budget)
		}
		out = append(out, nd)
	}
	return out
}

func main() {
	log.SetOutput(io.Discard)
	o := gen.ParseFlags()
	w := gen.NewWriter(o.Out)
	defer w.Close()
	if o.Replay != "" {
		for _, f := range gen.ReplayInputs(o.Replay) {
			if len(f) < 5 {
				continue
			}
			func() {
				defer func() {
					if r := recover(); r != nil {
						w.Count("replay-rejected")
					}
				}()
				rootOwn, ns := decTree(f[1])
				q := strings.Split(f[2], ":")
				if len(q) != 2 {
					panic("bad req")
				}
				m, err := strconv.Atoi(q[0])
				if err != nil || m < 0 || m >= len(fiber.DefaultMethods) {
					panic("bad method")
				}
				path := gen.UnHex(q[1])
				if path == "" || path[0] != '/' {
					panic("bad path")
				}
				base := strings.TrimSuffix(f[3], "+custom")
				if base != "mw" && base != "chain" {
					panic("bad mode")
				}
				emit(w, f[0], rootOwn, ns, m, path, base == "mw", base != f[3], decErr(f[4]))
			}()
		}
		return
	}
	root := gen.New(o.Seed)
	for i := 0; i < o.N; i++ {
		r := root.Fork(uint64(i))
		g := &genCtx{r: r}
		var ns []*node
		var ks []string
		for try := 0; ; try++ {
			budget := 6
			g.nextID = 0
			ns = g.nodes(0, &budget)
			ks = ks[:0]
			keys("", ns, &ks)
			dup := false
			seen := map[string]bool{}
			for _, k := range ks {
				if seen[k] {
					dup = true
				}
				seen[k] = true
			}
			if !dup {
				break
			}
			w.Count("dup-key-regenerated")
		}
		rootOwn := g.own(5)
		if rootOwn.set {
			rootOwn.id = 0
		}
		// request path: aimed at the mounted prefixes and their look-alikes
		var path string
		base := "/"
		if len(ks) > 0 && !r.Chance(1, 8) {
			base = gen.Pick(r, ks)
		}
		b := strings.TrimRight(base, "/")
		switch r.Intn(12) {
		case 0, 1, 2, 3:
			path = b + "/e"
		case 4:
			path = b + "/n"
		case 5:
			path = b + "/zzz"
		case 6:
			path = b + "-v2/e"
		case 7:
			path = b + "x/e"
		case 8:
			path = base
		case 9:
			path = b + "/p"
		case 10:
			if len(b) > 1 {
				path = b[:len(b)-1] + "/e"
			} else {
				path = "/e"
			}
		default:
			path = b + "/e/"
		}
		if path == "" || path[0] != '/' {
			path = "/" + path
		}
		e := errSpec{kind: gen.Pick(r, []byte{'F', 'F', 'P', 'W'}), code: gen.Pick(r, []int{400, 401, 404, 418, 503, 500}),
			msg: gen.Pick(r, []string{"boom", "nope", "bad thing"})}
		emit(w, fmt.Sprintf("s%d.%d", o.Seed, i), rootOwn, ns, gen.Pick(r, []int{0, 0, 0, 0, 2}), path, r.Chance(1, 6), r.Chance(1, 4), e)
	}
}
