// Harness for C08: random mount trees (apps with / without their own ErrorHandler, sibling
// prefixes that are string-prefixes of each other, nesting three deep, mounts from groups and from
// groups under groups, prefixes in upper case, without leading slash, with parameter segments) ×
// request paths × an error raised somewhere in the chain (root middleware, a sub-app's middleware,
// an endpoint, the router's own 404/405) or before routing (the fasthttp server's ErrorHandler).
// Every case is evaluated on several FRESH applications and several times on each (Go
// re-randomises the iteration order of a map for every `range`, and the bucket layout per map),
// and the observation is the SET of distinct outcomes seen.
//
// Line:  case id tree req mode err | outcomes        (mode may carry `+unesc` and `+ov<hexpath>`)
//
// tree : `<rootOwn>` then tokens joined by ','
//
//	A:<groups|~>:<hexprefix>:<own>:<late> … E   sub := fiber.New(cfg); parent[.Group(g1).Group(g2)…].Use(prefix, sub)
//	groups = hex group prefixes joined by '.' (`_` = the empty prefix)
//	own  = `-` (no ErrorHandler configured) | `<id>o` (handler answers) | `<id>f` (handler itself fails)
//	late = 1: the app is mounted on its parent before its own children are mounted on it
//
// req  : `<m>:<hexpath>`   m = 0 GET, 2 POST
// mode : base, then flags
//
//	mw        the root's outermost middleware returns the error itself
//	chain     whatever the chain returns (endpoint error, the router's 404/405, nothing)
//	sub<k>    the middleware of the k-th mounted app (preorder) returns the error — if the request reaches it
//	srv       no chain: the root's fasthttp server ErrorHandler (App.serverErrorHandler) is called directly
//	          with a synthetic error (err = S:…) on a context carrying the request path
//	net<k>    no chain: raw bytes over an in-memory connection served by the root's fasthttp server;
//	          k = 0 header larger than the read buffer, 1 body larger than BodyLimit, 2 garbage,
//	          3 unparsable Content-Length, 4 POST on a GETOnly server, 5 broken chunked body
//	+custom   the root app uses a custom context (NewCtxFunc), i.e. customRequestHandler
//	+cs       root Config.CaseSensitive   +strict  root Config.StrictRouting
//	+subcs    every mounted app is created with CaseSensitive (the root's setting governs routing)
//	+log      the root app uses fiber's middleware/logger (Stream io.Discard) right behind the outermost
//	          middleware: the logger calls c.App().ErrorHandler itself for an error coming back from
//	          c.Next() and returns nil; +logskip: the same with a Skip predicate (true for paths of even length)
//	+sublog   every mounted app uses the logger as its first middleware; +sublogskip: with the Skip predicate
//	+st<code> the handler that raises the error first sets the response status: c.Status(code)
//	+pb       … and writes a header (X-Pre: 1) and a body ("pre") before it returns the error
//	+fh<code> every FAILING error handler first sets c.Status(code); +fb: … and writes the body "part"
//	          (observation then carries `;xpre=<0|1>`: is the header X-Pre on the final response)
//	+unesc    root Config.UnescapePath (ctx.Path() is the percent-decoded path)
//	+ov<hex>  the handler that raises the error (root middleware in mode mw, the mounted app's middleware in
//	          mode sub<k>, the `/e` endpoint in mode chain) first overrides the path: c.Path(<path>)
//
// err  : `F:<code>:<hexmsg>` fiber.NewError | `P:<hexmsg>` errors.New | `W:<code>:<hexmsg>` wrapped *fiber.Error
//
//	— the error returned by every `/e` route and by the raising middleware;
//	`S:<bits>:<hexmsg>` (mode srv): error whose chain holds, per bit, *fasthttp.ErrSmallBuffer, a timed-out
//	*net.OpError, a net.Error, fasthttp.ErrBodyTooLarge, fasthttp.ErrGetOnly; Error() = msg
//
// outcomes: distinct evaluations joined by '|', each
//
//	chain=<E:code:hexmsg | P:hexmsg | none>;fpath=<hex>;calls=<id>x<n>.…|-;status=<n>;body=<hex>   (chain modes)
//	with loggers in the chain additionally `;hops=<who>~<err>~<hexpath>/…` (before `calls`), innermost first:
//	the error value (and c.Path()) that came back to the logger <who> (`r` = the root's, <k> = the k-th
//	mounted app's), recorded by the middleware right behind that logger
//	srv=<bits>:<hexmsg>;path=<hexpath>;calls=…;status=<n>;body=<hex>   |  srv=none;calls=…      (srv / net modes)
//
// `chain` is the error value as the outermost middleware saw it come back from c.Next() (or the one
// it raised): `E` if errors.As finds a *fiber.Error (its Code), `P` otherwise, with err.Error().
// It is the input of the error funnel; routing itself (C01) is not modelled by C08. `fpath` is
// c.Path() as the outermost middleware reads it when the error comes back: the path the funnel judges.
// `srv` is what fasthttp handed to the server's ErrorHandler, recorded by a wrapper put around
// `app.Server().ErrorHandler` (bits = the five tests of serverErrorHandler's switch, Error() text)
// and `path` the path of the request as the broken request's context carries it.
package main

import (
	"bufio"
	"bytes"
	"errors"
	"fmt"
	"io"
	"net"
	"sort"
	"strconv"
	"strings"

	"github.com/gofiber/fiber/v3"
	"github.com/gofiber/fiber/v3/log"
	"github.com/gofiber/fiber/v3/middleware/logger"
	"github.com/valyala/fasthttp"
	"github.com/valyala/fasthttp/fasthttputil"

	"verifharness/internal/gen"
)

const (
	nApps    = 24
	nReq     = 2
	nAppsNet = 3
)

type own struct {
	set   bool
	id    int
	fails bool
}

type node struct {
	gps      []string
	prefix   string
	own      own
	late     bool
	children []*node
}

type errSpec struct {
	kind byte // F P W S
	code int
	bits string // kind S: small, opTimeout, net, tooLarge, getOnly
	msg  string
}

type timeoutErr struct{}

func (timeoutErr) Error() string   { return "i/o timeout" }
func (timeoutErr) Timeout() bool   { return true }
func (timeoutErr) Temporary() bool { return true }

// synthErr: Error() is msg; errors.Is / errors.As see the parts.
type synthErr struct {
	msg   string
	parts []error
}

func (e *synthErr) Error() string   { return e.msg }
func (e *synthErr) Unwrap() []error { return e.parts }

func (e errSpec) make() error {
	switch e.kind {
	case 'F':
		return fiber.NewError(e.code, e.msg)
	case 'W':
		return fmt.Errorf("wrap: %w", fiber.NewError(e.code, e.msg))
	case 'S':
		se := &synthErr{msg: e.msg}
		if e.bits[0] == '1' {
			se.parts = append(se.parts, &fasthttp.ErrSmallBuffer{})
		}
		if e.bits[1] == '1' {
			se.parts = append(se.parts, &net.OpError{Op: "read", Net: "tcp", Err: timeoutErr{}})
		}
		if e.bits[2] == '1' {
			se.parts = append(se.parts, &net.DNSError{Err: "no such host", Name: "h"})
		}
		if e.bits[3] == '1' {
			se.parts = append(se.parts, fasthttp.ErrBodyTooLarge)
		}
		if e.bits[4] == '1' {
			se.parts = append(se.parts, fasthttp.ErrGetOnly)
		}
		return se
	default:
		return errors.New(e.msg)
	}
}

// flags of a case (suffixes of the mode field)
type flags struct {
	custom, cs, strict, subcs, unesc bool
	log, logskip, sublog, sublogskip bool
	st, fh                           int // 0 = not set
	pb, fb                           bool
	ov                               string // "" = no override
}

// what is evaluated: base mode + flags
type mode struct {
	base string // mw chain sub srv net
	k    int    // sub: node index; net: scenario
	flags
}

func (m mode) String() string {
	s := m.base
	if m.base == "sub" || m.base == "net" {
		s += strconv.Itoa(m.k)
	}
	if m.custom {
		s += "+custom"
	}
	if m.cs {
		s += "+cs"
	}
	if m.strict {
		s += "+strict"
	}
	if m.subcs {
		s += "+subcs"
	}
	if m.log {
		s += "+log"
	}
	if m.logskip {
		s += "+logskip"
	}
	if m.sublog {
		s += "+sublog"
	}
	if m.sublogskip {
		s += "+sublogskip"
	}
	if m.st != 0 {
		s += "+st" + strconv.Itoa(m.st)
	}
	if m.pb {
		s += "+pb"
	}
	if m.fh != 0 {
		s += "+fh" + strconv.Itoa(m.fh)
	}
	if m.fb {
		s += "+fb"
	}
	if m.unesc {
		s += "+unesc"
	}
	if m.ov != "" {
		s += "+ov" + gen.Hex(m.ov)
	}
	return s
}

func decMode(s string) mode {
	f := strings.Split(s, "+")
	var m mode
	switch {
	case f[0] == "mw" || f[0] == "chain" || f[0] == "srv":
		m.base = f[0]
	case strings.HasPrefix(f[0], "sub") || strings.HasPrefix(f[0], "net"):
		k, err := strconv.Atoi(f[0][3:])
		if err != nil || k < 0 || k > 64 {
			panic("bad mode")
		}
		m.base, m.k = f[0][:3], k
		if m.base == "net" && k > 5 {
			panic("bad scenario")
		}
	default:
		panic("bad mode")
	}
	for _, x := range f[1:] {
		switch x {
		case "custom":
			m.custom = true
		case "cs":
			m.cs = true
		case "strict":
			m.strict = true
		case "subcs":
			m.subcs = true
		case "unesc":
			m.unesc = true
		case "log":
			m.log = true
		case "logskip":
			m.logskip = true
		case "sublog":
			m.sublog = true
		case "sublogskip":
			m.sublogskip = true
		case "pb":
			m.pb = true
		case "fb":
			m.fb = true
		default:
			if len(x) == 5 && (x[:2] == "st" || x[:2] == "fh") {
				code, err := strconv.Atoi(x[2:])
				if err != nil || code < 200 || code > 599 {
					panic("bad status flag")
				}
				if x[:2] == "st" {
					m.st = code
				} else {
					m.fh = code
				}
				continue
			}
			if !strings.HasPrefix(x, "ov") || len(x) < 4 {
				panic("bad flag")
			}
			m.ov = gen.UnHex(x[2:])
			if m.ov == "" || m.ov[0] != '/' {
				panic("bad override")
			}
		}
	}
	if s != m.String() {
		panic("mode not canonical")
	}
	return m
}

// ---------------------------------------------------------------- encoding

func encOwn(o own) string {
	if !o.set {
		return "-"
	}
	if o.fails {
		return strconv.Itoa(o.id) + "f"
	}
	return strconv.Itoa(o.id) + "o"
}

func decOwn(s string) own {
	if s == "-" {
		return own{}
	}
	if len(s) < 2 || (s[len(s)-1] != 'o' && s[len(s)-1] != 'f') {
		panic("bad own")
	}
	id, err := strconv.Atoi(s[:len(s)-1])
	if err != nil {
		panic("bad own")
	}
	return own{true, id, s[len(s)-1] == 'f'}
}

func encGroups(gps []string) string {
	if len(gps) == 0 {
		return "~"
	}
	out := make([]string, len(gps))
	for i, g := range gps {
		if g == "" {
			out[i] = "_"
		} else {
			out[i] = gen.Hex(g)
		}
	}
	return strings.Join(out, ".")
}

func decGroups(s string) []string {
	if s == "~" {
		return nil
	}
	var out []string
	for _, g := range strings.Split(s, ".") {
		if g == "_" {
			out = append(out, "")
		} else {
			if g == "" || g == "-" {
				panic("bad group")
			}
			out = append(out, gen.UnHex(g))
		}
	}
	return out
}

func encNodes(ns []*node, out *[]string) {
	for _, n := range ns {
		*out = append(*out, "A:"+encGroups(n.gps)+":"+gen.Hex(n.prefix)+":"+encOwn(n.own)+":"+gen.B(n.late))
		encNodes(n.children, out)
		*out = append(*out, "E")
	}
}

func encTree(rootOwn own, ns []*node) string {
	out := []string{encOwn(rootOwn)}
	encNodes(ns, &out)
	return strings.Join(out, ",")
}

func decNodes(tok []string, pos *int, depth int) []*node {
	var out []*node
	for *pos < len(tok) {
		t := tok[*pos]
		*pos++
		if t == "E" {
			if depth == 0 {
				panic("unbalanced")
			}
			return out
		}
		f := strings.Split(t, ":")
		if len(f) != 5 || f[0] != "A" || (f[4] != "0" && f[4] != "1") {
			panic("bad token")
		}
		n := &node{prefix: gen.UnHex(f[2]), own: decOwn(f[3]), late: f[4] == "1", gps: decGroups(f[1])}
		n.children = decNodes(tok, pos, depth+1)
		out = append(out, n)
	}
	if depth != 0 {
		panic("missing E")
	}
	return out
}

func decTree(s string) (own, []*node) {
	tok := strings.Split(s, ",")
	pos := 1
	return decOwn(tok[0]), decNodes(tok, &pos, 0)
}

func encErr(e errSpec) string {
	switch e.kind {
	case 'P':
		return "P:" + gen.Hex(e.msg)
	case 'S':
		return "S:" + e.bits + ":" + gen.Hex(e.msg)
	}
	return string(e.kind) + ":" + strconv.Itoa(e.code) + ":" + gen.Hex(e.msg)
}

func decErr(s string) errSpec {
	f := strings.Split(s, ":")
	switch {
	case len(f) == 2 && f[0] == "P":
		return errSpec{kind: 'P', msg: gen.UnHex(f[1])}
	case len(f) == 3 && f[0] == "S":
		if len(f[1]) != 5 || strings.Trim(f[1], "01") != "" {
			panic("bad bits")
		}
		return errSpec{kind: 'S', bits: f[1], msg: gen.UnHex(f[2])}
	case len(f) == 3 && (f[0] == "F" || f[0] == "W"):
		c, err := strconv.Atoi(f[1])
		if err != nil || c < 100 || c > 599 {
			panic("bad code")
		}
		return errSpec{kind: f[0][0], code: c, msg: gen.UnHex(f[2])}
	}
	panic("bad err")
}

// ---------------------------------------------------------------- one evaluation

// customCtx makes the root app serve through customRequestHandler / nextCustom.
type customCtx struct {
	fiber.DefaultCtx
}

type run struct {
	calls   map[int]int
	chain   string
	fpath   string // c.Path() when the error came back to the outermost middleware
	hops    []string
	srv     string // what the server's ErrorHandler was handed, "" = it was not called
	srvPath string
	md      mode
	e       errSpec
}

func (r *run) reset() {
	r.calls = map[int]int{}
	r.chain = "none"
	r.fpath = ""
	r.hops = r.hops[:0]
	r.srv = ""
	r.srvPath = ""
}

// newLogger: fiber's logger middleware, silent. The format has no ${time} (the default one starts a
// goroutine per instance that never ends).
func newLogger(skip bool) fiber.Handler {
	cfg := logger.Config{Stream: io.Discard, Format: "${status} ${method} ${path} ${error}\n"}
	if skip {
		cfg.Skip = func(c fiber.Ctx) bool { return len(c.Path())%2 == 0 }
	}
	return logger.New(cfg)
}

// hop: what came back to the logger `who`
func (r *run) hop(who string, c fiber.Ctx, err error) {
	r.hops = append(r.hops, who+"~"+describe(err)+"~"+gen.Hex(c.Path()))
}

// raise: the handler that fails first overrides the path, if the case says so
func (r *run) raise(c fiber.Ctx) error {
	if r.md.ov != "" {
		c.Path(r.md.ov)
	}
	if r.md.st != 0 {
		c.Status(r.md.st)
	}
	if r.md.pb {
		c.Set("X-Pre", "1")
		_ = c.SendString("pre")
	}
	return r.e.make()
}

func cfgFor(o own, r *run) fiber.Config {
	if !o.set {
		return fiber.Config{}
	}
	return fiber.Config{ErrorHandler: func(c fiber.Ctx, err error) error {
		r.calls[o.id]++
		if o.fails {
			if r.md.fh != 0 {
				c.Status(r.md.fh)
			}
			if r.md.fb {
				_ = c.SendString("part")
			}
			return errors.New("error handler failed")
		}
		return c.Status(418).SendString("eh" + strconv.Itoa(o.id) + ":" + err.Error())
	}}
}

func addRoutes(a *fiber.App, r *run) {
	a.Get("/e", func(c fiber.Ctx) error { return r.raise(c) })
	a.Get("/n", func(c fiber.Ctx) error { return c.SendString("ok") })
	a.Post("/p", func(c fiber.Ctx) error { return c.SendString("ok") })
}

func mountNodes(parent *fiber.App, ns []*node, r *run, idx *int) {
	for _, n := range ns {
		cfg := cfgFor(n.own, r)
		cfg.CaseSensitive = r.md.subcs
		sub := fiber.New(cfg)
		me := *idx
		*idx++
		if r.md.sublog || r.md.sublogskip {
			sub.Use(newLogger(r.md.sublogskip))
		}
		// the mounted app's own middleware: one more position of the chain an error can come from
		sub.Use(func(c fiber.Ctx) error {
			var err error
			if r.md.base == "sub" && r.md.k == me {
				err = r.raise(c)
			} else {
				err = c.Next()
			}
			if r.md.sublog || r.md.sublogskip {
				r.hop(strconv.Itoa(me), c, err)
			}
			return err
		})
		addRoutes(sub, r)
		var router fiber.Router = parent
		for _, g := range n.gps {
			router = router.Group(g)
		}
		if n.late {
			router.Use(n.prefix, sub)
			mountNodes(sub, n.children, r, idx)
		} else {
			mountNodes(sub, n.children, r, idx)
			router.Use(n.prefix, sub)
		}
	}
}

func describe(err error) string {
	if err == nil {
		return "none"
	}
	var fe *fiber.Error
	if errors.As(err, &fe) {
		return "E:" + strconv.Itoa(fe.Code) + ":" + gen.Hex(err.Error())
	}
	return "P:" + gen.Hex(err.Error())
}

// describeSrv: the five tests of serverErrorHandler's switch, applied to the error fasthttp handed over
func describeSrv(err error) string {
	var (
		opErr  *net.OpError
		netErr net.Error
	)
	bits := gen.B(errors.As(err, new(*fasthttp.ErrSmallBuffer))) +
		gen.B(errors.As(err, &opErr) && opErr.Timeout()) +
		gen.B(errors.As(err, &netErr)) +
		gen.B(errors.Is(err, fasthttp.ErrBodyTooLarge)) +
		gen.B(errors.Is(err, fasthttp.ErrGetOnly))
	return bits + ":" + gen.Hex(err.Error())
}

func buildApp(rootOwn own, ns []*node, r *run) *fiber.App {
	cfg := cfgFor(rootOwn, r)
	cfg.CaseSensitive = r.md.cs
	cfg.StrictRouting = r.md.strict
	cfg.UnescapePath = r.md.unesc
	if r.md.base == "net" {
		cfg.ReadBufferSize = 512
		cfg.BodyLimit = 8
		cfg.GETOnly = r.md.k == 4
	}
	root := fiber.New(cfg)
	if r.md.custom {
		root.NewCtxFunc(func(app *fiber.App) fiber.CustomCtx {
			return &customCtx{DefaultCtx: *fiber.NewDefaultCtx(app)}
		})
	}
	root.Use(func(c fiber.Ctx) error {
		if r.md.base == "mw" {
			err := r.raise(c)
			r.chain = describe(err)
			r.fpath = c.Path()
			return err
		}
		err := c.Next()
		r.chain = describe(err)
		r.fpath = c.Path()
		return err
	})
	if r.md.log || r.md.logskip {
		root.Use(newLogger(r.md.logskip))
		root.Use(func(c fiber.Ctx) error {
			err := c.Next()
			r.hop("r", c, err)
			return err
		})
	}
	addRoutes(root, r)
	idx := 0
	mountNodes(root, ns, r, &idx)
	root.Handler() // startup: nested appLists are merged, sub-app routes spliced in
	// observe what fasthttp hands to fiber's serverErrorHandler, then let it run
	srv := root.Server()
	orig := srv.ErrorHandler
	srv.ErrorHandler = func(fctx *fasthttp.RequestCtx, err error) {
		r.srv = describeSrv(err)
		r.srvPath = string(fctx.URI().PathOriginal())
		orig(fctx, err)
	}
	return root
}

func callsOf(r *run) string {
	ids := make([]int, 0, len(r.calls))
	for id := range r.calls {
		ids = append(ids, id)
	}
	sort.Ints(ids)
	cs := make([]string, len(ids))
	for i, id := range ids {
		cs[i] = strconv.Itoa(id) + "x" + strconv.Itoa(r.calls[id])
	}
	c := strings.Join(cs, ".")
	if c == "" {
		c = "-"
	}
	return c
}

func srvOutcome(r *run, status int, body []byte) string {
	if r.srv == "" {
		return "srv=none;calls=" + callsOf(r)
	}
	return "srv=" + r.srv + ";path=" + gen.Hex(r.srvPath) + ";calls=" + callsOf(r) + ";status=" + strconv.Itoa(status) + ";body=" + gen.Hex(string(body))
}

func evalOnce(root *fiber.App, r *run, m int, path string) (out string) {
	r.reset()
	defer func() {
		if rec := recover(); rec != nil {
			out = "panic"
		}
	}()
	var fctx fasthttp.RequestCtx
	var req fasthttp.Request
	req.Header.SetMethod(fiber.DefaultMethods[m])
	req.SetRequestURI(path)
	fctx.Init(&req, nil, nil)
	if r.md.base == "srv" {
		root.Server().ErrorHandler(&fctx, r.e.make())
		return srvOutcome(r, fctx.Response.StatusCode(), fctx.Response.Body())
	}
	root.Handler()(&fctx)
	hops := ""
	if len(r.hops) > 0 {
		hops = ";hops=" + strings.Join(r.hops, "/")
	}
	if r.chain == "none" && !strings.Contains(hops, "~E:") && !strings.Contains(hops, "~P:") {
		return "chain=none" + hops + ";calls=" + callsOf(r)
	}
	xpre := ""
	if r.md.pb {
		xpre = ";xpre=" + gen.B(len(fctx.Response.Header.Peek("X-Pre")) > 0)
	}
	return "chain=" + r.chain + ";fpath=" + gen.Hex(r.fpath) + hops + ";calls=" + callsOf(r) + ";status=" + strconv.Itoa(fctx.Response.StatusCode()) + ";body=" + gen.Hex(string(fctx.Response.Body())) + xpre
}

func rawRequest(k int, path string) string {
	switch k {
	case 0:
		return "GET " + path + " HTTP/1.1\r\nHost: x\r\nX-Long: " + strings.Repeat("a", 2000) + "\r\n\r\n"
	case 1:
		return "POST " + path + " HTTP/1.1\r\nHost: x\r\nContent-Length: 100\r\n\r\n" + strings.Repeat("b", 100)
	case 2:
		return "\x00\x01garbage\r\n\r\n"
	case 3:
		return "POST " + path + " HTTP/1.1\r\nHost: x\r\nContent-Length: abc\r\n\r\n"
	case 4:
		return "POST " + path + " HTTP/1.1\r\nHost: x\r\nContent-Length: 2\r\n\r\nhi"
	default:
		return "POST " + path + " HTTP/1.1\r\nHost: x\r\nTransfer-Encoding: chunked\r\n\r\nzz\r\n"
	}
}

// evalNet: the raw request over an in-memory connection served by the root's fasthttp server
func evalNet(root *fiber.App, r *run, path string) string {
	r.reset()
	pc := fasthttputil.NewPipeConns()
	c1, c2 := pc.Conn1(), pc.Conn2()
	done := make(chan bool)
	go func() {
		panicked := true
		defer func() {
			_ = recover()
			_ = c2.Close() // whatever happened, the reader below must see the end of the stream
			done <- panicked
		}()
		_ = root.Server().ServeConn(c2)
		panicked = false
	}()
	go func() { _, _ = c1.Write([]byte(rawRequest(r.md.k, path))) }()
	buf, _ := io.ReadAll(c1)
	panicked := <-done
	_ = c1.Close()
	if panicked {
		return "panic"
	}
	var resp fasthttp.Response
	if err := resp.Read(bufio.NewReader(bytes.NewReader(buf))); err != nil {
		return "srv=" + r.srv + ";unreadable-response"
	}
	return srvOutcome(r, resp.StatusCode(), resp.Body())
}

func observe(rootOwn own, ns []*node, m int, path string, md mode, e errSpec) (obs string, ok bool) {
	defer func() {
		if r := recover(); r != nil {
			ok = false
		}
	}()
	seen := map[string]bool{}
	apps := nApps
	if md.base == "net" {
		apps = nAppsNet
	}
	for a := 0; a < apps; a++ {
		r := &run{md: md, e: e}
		root := buildApp(rootOwn, ns, r)
		if md.base == "net" {
			seen[evalNet(root, r, path)] = true
			continue
		}
		for i := 0; i < nReq; i++ {
			seen[evalOnce(root, r, m, path)] = true
		}
	}
	keys := make([]string, 0, len(seen))
	for k := range seen {
		keys = append(keys, k)
	}
	sort.Strings(keys)
	return strings.Join(keys, "|"), true
}

func emit(w *gen.Writer, id string, rootOwn own, ns []*node, m int, path string, md mode, e errSpec) {
	obs, ok := observe(rootOwn, ns, m, path, md, e)
	if !ok {
		w.Count("build-panic")
		return
	}
	if strings.Contains(obs, "|") {
		w.Count("order-dependent-outcome")
	}
	w.Count("mode-" + md.base)
	w.Case(id, encTree(rootOwn, ns), strconv.Itoa(m)+":"+gen.Hex(path), md.String(), encErr(e), obs)
}

// ---------------------------------------------------------------- generator

var prefixes = []string{"/api", "/api", "/api-v2", "/api/v2", "/ap", "/a", "/", "/", "/v1", "/api/", "/admin", "/adm",
	"api", "/v1/api", "/a/b", "/apiv2", "", "/x",
	"/API", "/Api-v2", "/Adm", "Api", "/aPi/V2", "v1", "a", "a", "A"}
var paramPrefixes = []string{"/:tenant", "/:t", "/:t/api", "/api/:id", ":x", "/:a/:b", "/:T/Adm", "/:u", "/:a/x", "/x/:b", "/api/:v"}

// prefixes from the rest of fiber's route syntax: wildcards, optional, constrained and mid-segment
// parameters, escaped characters
var syntaxPrefixes = []string{"/*", "/files/*", "/f/+", "*", "/api/*", "/*/in",
	"/api/:v?", "/:lang?", "/v1/:x?/y",
	"/t/:id<int>", "/:n<minLen(2)>", "/u/:name<alpha>", "/:id<int>", "/r/:k<range(1,9)>", "/:w<maxLen(3)>/api", "/b/:ok<bool>",
	// constraints whose verdict depends on letter case: getMatch checks them on the path as sent,
	// not on the lower-cased detection path
	"/:tenant<regex(^[A-Z]+$)>", "/r/:w<regex(^[a-z]+$)>", "/:n<regex(^[A-Z][a-z]*$)>/x", "/:org<regex(^[A-Z]+$)>/api",
	"/d/:day<datetime(2006-01-02T15)>", "/:flag<bool>",
	"/v:ver", "/f-:n", "/:a-:b", "/img.:ext", "/api/v:n",
	"/a\\:b", "/v\\*", "/x\\+y/z", "/a\\-b", "/d\\.e/f"}
var groupPrefixes = []string{"/g", "/api", "/", "/v1/", "g", "/G", "", "/api/v2"}
var paramValues = []string{"acme", "api", "x1", "Admin", "v2"}

// mirror of mount's key computation and of the way the router tells mount points apart, used ONLY
// to reject trees with two apps at the same mount point
func ggp(prefix, path string) string {
	if path == "" {
		return prefix
	}
	if path[0] != '/' {
		path = "/" + path
	}
	return strings.TrimRight(prefix, "/") + path
}

func keys(parentKey string, ns []*node, out *[]string) {
	for _, n := range ns {
		p := n.prefix
		if len(n.gps) > 0 {
			g := n.gps[0]
			for _, x := range n.gps[1:] {
				g = ggp(g, x)
			}
			p = ggp(g, n.prefix)
		}
		p = strings.TrimRight(p, "/")
		if p == "" {
			p = "/"
		}
		k := p
		if parentKey != "" {
			k = ggp(parentKey, p)
		}
		*out = append(*out, k)
		keys(k, n.children, out)
	}
}

func normKey(k string, cs bool) string {
	if k[0] != '/' {
		k = "/" + k
	}
	if !cs {
		k = strings.ToLower(k)
	}
	return k
}

// a key that escapes characters but declares no parameter
func escapeOnly(k string) bool {
	if !strings.Contains(k, "\\") {
		return false
	}
	for i := 0; i < len(k); i++ {
		switch k[i] {
		case '\\':
			i++
		case ':', '*', '+':
			return false
		}
	}
	return true
}

type genCtx struct {
	r      *gen.Rand
	nextID int
	params bool // this tree may have parameterised prefixes
	syntax bool // … and prefixes from the rest of the route syntax
}

func (g *genCtx) own(p int) own {
	if !g.r.Chance(p, 10) {
		return own{}
	}
	g.nextID++
	return own{true, g.nextID, g.r.Chance(1, 8)}
}

func (g *genCtx) nodes(depth int, budget *int) []*node {
	r := g.r
	var out []*node
	n := 1 + r.Intn(3)
	if depth > 0 {
		n = r.Intn(3)
	}
	for i := 0; i < n && *budget > 0; i++ {
		*budget--
		nd := &node{prefix: gen.Pick(r, prefixes), own: g.own(6), late: r.Chance(1, 3)}
		if g.params && r.Chance(1, 4) {
			nd.prefix = gen.Pick(r, paramPrefixes)
		}
		if g.syntax && r.Chance(1, 3) {
			nd.prefix = gen.Pick(r, syntaxPrefixes)
		}
		if r.Chance(1, 5) {
			nd.gps = []string{gen.Pick(r, groupPrefixes)}
			if r.Chance(1, 3) {
				nd.gps = append(nd.gps, gen.Pick(r, groupPrefixes))
			}
			if g.params && r.Chance(1, 6) {
				nd.gps[0] = "/:grp"
			}
		}
		if depth < 2 {
			nd.children = g.nodes(depth+1, budget)
		}
		out = append(out, nd)
	}
	return out
}

// a value for a parameter segment written `spec` (name, optional constraint, optional `?`): mostly one
// that satisfies the constraint, sometimes one that does not
func paramValue(r *gen.Rand, spec string) string {
	good := !r.Chance(1, 4)
	switch {
	case strings.Contains(spec, "<int>"):
		if good {
			return gen.Pick(r, []string{"42", "7", "-3"})
		}
		return gen.Pick(r, []string{"ab", "4x"})
	case strings.Contains(spec, "<minLen(2)>"):
		if good {
			return gen.Pick(r, []string{"ab", "acme"})
		}
		return "a"
	case strings.Contains(spec, "<maxLen(3)>"):
		if good {
			return gen.Pick(r, []string{"ab", "x1", "api"})
		}
		return "acme"
	case strings.Contains(spec, "<alpha>"):
		if good {
			return gen.Pick(r, []string{"bob", "Admin"})
		}
		return "b0b"
	case strings.Contains(spec, "<range(1,9)>"):
		if good {
			return gen.Pick(r, []string{"1", "5", "9"})
		}
		return gen.Pick(r, []string{"0", "10", "x"})
	case strings.Contains(spec, "<bool>"):
		if good {
			return gen.Pick(r, []string{"true", "0", "F", "TRUE", "True"})
		}
		return gen.Pick(r, []string{"yes", "tRUE", "fALSE", "TrUe"}) // the last three are literals once lower-cased
	case strings.Contains(spec, "<regex(^[A-Z]+$)>"):
		if good {
			return gen.Pick(r, []string{"ACME", "X", "API"})
		}
		return gen.Pick(r, []string{"acme", "Acme", "A1"})
	case strings.Contains(spec, "<regex(^[a-z]+$)>"):
		if good {
			return gen.Pick(r, []string{"acme", "x"})
		}
		return gen.Pick(r, []string{"ACME", "Acme", "a1"})
	case strings.Contains(spec, "<regex(^[A-Z][a-z]*$)>"):
		if good {
			return gen.Pick(r, []string{"Acme", "A", "Bob"})
		}
		return gen.Pick(r, []string{"acme", "ACME", "aCME"})
	case strings.Contains(spec, "<datetime(2006-01-02T15)>"):
		if good {
			return gen.Pick(r, []string{"2024-01-02T10", "1999-12-31T23", "2024-02-29T00"})
		}
		return gen.Pick(r, []string{"2024-01-02t10", "2024-13-02T10", "2023-02-29T10", "2024-01-02T24", "x"})
	}
	return gen.Pick(r, paramValues)
}

// one segment of a mount point → one (or, for wildcards, several or no) segment(s) of a request path
func instantiateSeg(r *gen.Rand, s string) (string, bool) {
	if s == "" {
		return s, true
	}
	plain := strings.IndexAny(s, ":*+\\?<") == -1
	if plain {
		return s, true
	}
	if len(s) > 1 && s[0] == ':' && strings.IndexAny(s[1:], ":*+\\?<-.") == -1 && r.Chance(1, 6) {
		return s, true // the pattern spelled out
	}
	var out strings.Builder
	for i := 0; i < len(s); {
		switch c := s[i]; {
		case c == '\\' && i+1 < len(s):
			out.WriteByte(s[i+1])
			i += 2
		case c == '*':
			out.WriteString(gen.Pick(r, []string{"", "a", "a/b", "x1/in"}))
			i++
		case c == '+':
			out.WriteString(gen.Pick(r, []string{"a", "a/b", ""}))
			i++
		case c == ':':
			j := i + 1
			depth := 0
			for j < len(s) {
				if s[j] == '<' {
					depth++
				} else if s[j] == '>' {
					depth--
				} else if depth == 0 && strings.IndexByte(":-.?\\*+", s[j]) != -1 {
					break
				}
				j++
			}
			spec := s[i:j]
			optional := j < len(s) && s[j] == '?'
			if optional {
				j++
			}
			if optional && r.Chance(1, 3) {
				if out.Len() == 0 && j == len(s) {
					return "", false // the whole segment is left out
				}
			} else {
				out.WriteString(paramValue(r, spec))
			}
			i = j
		default:
			out.WriteByte(c)
			i++
		}
	}
	return out.String(), true
}

// a request path under (or next to) the mount point `key`: parameter segments get a value (or are
// spelled out), wildcards any number of segments, escaped characters stand for themselves, letters
// may change case
func instantiate(r *gen.Rand, key string) string {
	var segs []string
	for _, s := range strings.Split(key, "/") {
		if v, keep := instantiateSeg(r, s); keep {
			segs = append(segs, v)
		}
	}
	p := strings.Join(segs, "/")
	if r.Chance(1, 4) {
		bs := []byte(p)
		for i, c := range bs {
			if r.Chance(1, 3) {
				switch {
				case c >= 'a' && c <= 'z':
					bs[i] = c - 32
				case c >= 'A' && c <= 'Z':
					bs[i] = c + 32
				}
			}
		}
		p = string(bs)
	}
	return p
}

// percent-encode some bytes of a path (letters, a slash now and then): what UnescapePath undoes
func escapeSome(r *gen.Rand, p string) string {
	var out strings.Builder
	for i := 0; i < len(p); i++ {
		c := p[i]
		isLetter := (c >= 'a' && c <= 'z') || (c >= 'A' && c <= 'Z')
		if i > 0 && ((isLetter && r.Chance(1, 4)) || (c == '/' && r.Chance(1, 8)) || (c == ':' && r.Chance(1, 2))) {
			hex := "0123456789ABCDEF"
			if r.Bool() {
				hex = "0123456789abcdef"
			}
			out.WriteByte('%')
			out.WriteByte(hex[c>>4])
			out.WriteByte(hex[c&15])
		} else {
			out.WriteByte(c)
		}
	}
	return out.String()
}

func main() {
	log.SetOutput(io.Discard)
	o := gen.ParseFlags()
	w := gen.NewWriter(o.Out)
	defer w.Close()
	if o.Replay != "" {
		for _, f := range gen.ReplayInputs(o.Replay) {
			if len(f) < 5 {
				continue
			}
			func() {
				defer func() {
					if r := recover(); r != nil {
						w.Count("replay-rejected")
					}
				}()
				rootOwn, ns := decTree(f[1])
				q := strings.Split(f[2], ":")
				if len(q) != 2 {
					panic("bad req")
				}
				m, err := strconv.Atoi(q[0])
				if err != nil || m < 0 || m >= len(fiber.DefaultMethods) {
					panic("bad method")
				}
				path := gen.UnHex(q[1])
				if path == "" || path[0] != '/' || strings.HasPrefix(path, "//") {
					panic("bad path")
				}
				md := decMode(f[3])
				e := decErr(f[4])
				if (e.kind == 'S') != (md.base == "srv") {
					panic("err kind does not fit the mode")
				}
				emit(w, f[0], rootOwn, ns, m, path, md, e)
			}()
		}
		return
	}
	root := gen.New(o.Seed)
	for i := 0; i < o.N; i++ {
		r := root.Fork(uint64(i))
		g := &genCtx{r: r, params: r.Chance(1, 5)}
		g.syntax = r.Chance(1, 4)
		md := mode{base: "chain"}
		md.cs = r.Chance(1, 4)
		md.strict = r.Chance(1, 5)
		md.custom = r.Chance(1, 4)
		md.subcs = r.Chance(1, 8)
		md.unesc = r.Chance(1, 8)
		if r.Chance(1, 6) {
			md.log, md.logskip = !r.Bool(), false
			md.logskip = !md.log
		}
		if r.Chance(1, 8) {
			md.sublog = r.Bool()
			md.sublogskip = !md.sublog
		}
		var ns []*node
		var ks []string
		for try := 0; ; try++ {
			budget := 6
			g.nextID = 0
			ns = g.nodes(0, &budget)
			ks = ks[:0]
			keys("", ns, &ks)
			dup := false
			seen := map[string]bool{}
			keepCaseVariants := !r.Chance(1, 4)
			for _, k := range ks {
				// outside the modelled domain: an escape-only key with a trailing slash
				// (an app mounted at "/" inside an app under such a prefix)
				if escapeOnly(k) && strings.HasSuffix(k, "/") {
					dup = true
				}
				// "api" next to "/api" is one and the same route; keys that differ in letter case only
				// are kept in 3 of 4 trees (the selection is deterministic for them too)
				nk := normKey(k, md.cs || keepCaseVariants)
				if seen[nk] {
					dup = true
				}
				seen[nk] = true
			}
			if !dup {
				break
			}
			w.Count("dup-key-regenerated")
		}
		rootOwn := g.own(5)
		if rootOwn.set {
			rootOwn.id = 0
		}
		// request path: aimed at the mounted prefixes and their look-alikes
		var path string
		base := "/"
		if len(ks) > 0 && !r.Chance(1, 8) {
			base = instantiate(r, gen.Pick(r, ks))
		}
		b := strings.TrimRight(base, "/")
		switch r.Intn(12) {
		case 0, 1, 2, 3:
			path = b + "/e"
		case 4:
			path = b + "/n"
		case 5:
			path = b + "/zzz"
		case 6:
			path = b + "-v2/e"
		case 7:
			path = b + "x/e"
		case 8:
			path = base
		case 9:
			path = b + "/p"
		case 10:
			if len(b) > 1 {
				path = b[:len(b)-1] + "/e"
			} else {
				path = "/e"
			}
		default:
			path = b + "/e/"
		}
		if path == "" || path[0] != '/' {
			path = "/" + path
		}
		for strings.HasPrefix(path, "//") { // "//host/…" is a host to the URI parser, not a path
			path = path[1:]
		}
		e := errSpec{kind: gen.Pick(r, []byte{'F', 'F', 'P', 'W'}), code: gen.Pick(r, []int{400, 401, 404, 418, 503, 500}),
			msg: gen.Pick(r, []string{"boom", "nope", "bad thing"})}
		if md.unesc && !r.Chance(1, 4) {
			path = escapeSome(r, path)
		}
		// the failing handler may override the path first: to another mount point, or a look-alike
		if r.Chance(1, 10) {
			ov := "/"
			if len(ks) > 0 && !r.Chance(1, 6) {
				ov = strings.TrimRight(instantiate(r, gen.Pick(r, ks)), "/") + gen.Pick(r, []string{"/e", "/zzz", "", "x/e", "/"})
			}
			if ov == "" || ov[0] != '/' {
				ov = "/" + ov
			}
			for strings.HasPrefix(ov, "//") {
				ov = ov[1:]
			}
			md.ov = ov
		}
		// what is on the response when the error handler gets it / gives up
		if !md.log && !md.logskip && !md.sublog && !md.sublogskip {
			if r.Chance(1, 6) {
				md.st = gen.Pick(r, []int{409, 403, 404, 500, 200, 302, 503})
				md.pb = r.Chance(1, 3)
			}
			if r.Chance(1, 5) {
				md.fh = gen.Pick(r, []int{403, 404, 500, 503, 200, 302})
				md.fb = r.Chance(1, 3)
			} else if r.Chance(1, 12) {
				md.fb = true
			}
		}
		if md.st != 0 || md.fh != 0 || md.fb {
			// more failing handlers where it matters what they leave on the response
			var walk func(ns []*node)
			walk = func(ns []*node) {
				for _, n := range ns {
					if n.own.set && r.Chance(1, 3) {
						n.own.fails = true
					}
					walk(n.children)
				}
			}
			walk(ns)
			if rootOwn.set && r.Chance(1, 3) {
				rootOwn.fails = true
			}
		}
		// where the error comes from
		switch x := r.Intn(24); {
		case x < 4:
			md.base = "mw"
		case x < 8 && len(ks) > 0:
			md.base, md.k = "sub", r.Intn(len(ks))
		case x < 11:
			md.base = "srv"
			bits := []byte("00000")
			switch r.Intn(8) {
			case 0, 1, 2, 3, 4:
				bits[r.Intn(5)] = '1'
			case 5:
				for j := range bits {
					if r.Bool() {
						bits[j] = '1'
					}
				}
			}
			e = errSpec{kind: 'S', bits: string(bits), msg: gen.Pick(r, []string{"boom", "read timeout exceeded", "cannot parse request", "timeout", "body size exceeds the given limit"})}
			if r.Chance(1, 3) {
				path = "/"
			}
			md.ov = ""
			md.log, md.logskip, md.sublog, md.sublogskip = false, false, false, false
			md.st, md.pb, md.fh, md.fb = 0, false, 0, false
		case x == 11:
			md.ov = ""
			md.log, md.logskip, md.sublog, md.sublogskip = false, false, false, false
			md.st, md.pb, md.fh, md.fb = 0, false, 0, false
			md.base, md.k = "net", r.Intn(6)
		}
		emit(w, fmt.Sprintf("s%d.%d", o.Seed, i), rootOwn, ns, gen.Pick(r, []int{0, 0, 0, 0, 2}), path, md, e)
	}
}
