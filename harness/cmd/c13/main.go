// Harness for C13 (rate limiter). Built with `-tags "verif faketime"`: virtual clock, deterministic
// schedules. One case = one limiter instance + a list of request threads + a list of scheduler
// actions (start thread / release parked thread / tick d seconds / storage gc). The real middleware
// runs in-process (public API only); the observation is the position vector after every action and
// the outcome of every request.
//
// Case line:  case id cfg threads actions  obs
//
//	cfg      alg=F|S;st=M|X|L;exp=<s>;max=<n>;mf=0|1;sf=0|1;ss=0|1;dflt=0|1;t0=<unix s at case start>
//	         st: M = built-in memory store (Storage nil), X = injected store with exact TTL,
//	             L = injected store that keeps expired entries until a `g` (gc) action
//	threads  key:max:status:next , ...      (key = one letter; next=1 → Config.Next skips the limiter)
//	actions  s<t> | r<t> | t<d> | g , ...
//	obs      <pos after action 1>,<pos after action 2>,...|<result thread 0>,<result thread 1>,...
//	         pos = one char per thread: - unstarted, G/S parked at Storage.Get/Set, H parked in the
//	         downstream handler, B blocked (on the limiter's mutex), D done, P panicked
//	         result = status:ran:retryAfter:limit:remaining:reset   (absent header = x)
package main

import (
	"fmt"
	"io"
	"os"
	"os/exec"
	"runtime/debug"
	"strconv"
	"strings"
	"sync"
	"time"

	"github.com/gofiber/fiber/v3"
	"github.com/gofiber/fiber/v3/log"
	"github.com/gofiber/fiber/v3/middleware/limiter"
	"github.com/gofiber/utils/v2"
	"github.com/valyala/fasthttp"

	"verifharness/internal/gen"
)

type cfgIn struct {
	alg, st          string
	exp, max         int
	mf, sf, ss, dflt bool
	t0               uint32
}

type thrIn struct {
	key         string
	max, status int
	next        bool
}

func (c cfgIn) String() string {
	return fmt.Sprintf("alg=%s;st=%s;exp=%d;max=%d;mf=%s;sf=%s;ss=%s;dflt=%s;t0=%d", c.alg, c.st, c.exp, c.max,
		gen.B(c.mf), gen.B(c.sf), gen.B(c.ss), gen.B(c.dflt), c.t0)
}

func parseCfg(s string) (c cfgIn, ok bool) {
	kv := map[string]string{}
	for _, p := range strings.Split(s, ";") {
		i := strings.IndexByte(p, '=')
		if i < 0 {
			return c, false
		}
		kv[p[:i]] = p[i+1:]
	}
	need := []string{"alg", "st", "exp", "max", "mf", "sf", "ss", "dflt"}
	for _, k := range need {
		if _, ok := kv[k]; !ok {
			return c, false
		}
	}
	c.alg, c.st = kv["alg"], kv["st"]
	var e1, e2 error
	c.exp, e1 = strconv.Atoi(kv["exp"])
	c.max, e2 = strconv.Atoi(kv["max"])
	if e1 != nil || e2 != nil || (c.alg != "F" && c.alg != "S") || (c.st != "M" && c.st != "X" && c.st != "L") || c.exp < 1 || c.exp > 1000 {
		return c, false
	}
	c.mf, c.sf, c.ss, c.dflt = kv["mf"] == "1", kv["sf"] == "1", kv["ss"] == "1", kv["dflt"] == "1"
	return c, true
}

func threadsString(ts []thrIn) string {
	p := make([]string, len(ts))
	for i, t := range ts {
		p[i] = fmt.Sprintf("%s:%d:%d:%s", t.key, t.max, t.status, gen.B(t.next))
	}
	if len(p) == 0 {
		return "-"
	}
	return strings.Join(p, ",")
}

func parseThreads(s string) ([]thrIn, bool) {
	if s == "-" || s == "" {
		return nil, true
	}
	var out []thrIn
	for _, p := range strings.Split(s, ",") {
		f := strings.Split(p, ":")
		if len(f) != 4 || len(f[0]) != 1 {
			return nil, false
		}
		m, e1 := strconv.Atoi(f[1])
		st, e2 := strconv.Atoi(f[2])
		if e1 != nil || e2 != nil || st < 200 || st > 599 {
			return nil, false
		}
		out = append(out, thrIn{f[0], m, st, f[3] == "1"})
	}
	return out, true
}

// ---- injected storage --------------------------------------------------------------------------

type ent struct {
	val []byte
	exp uint32 // 0 = never
}

type store struct {
	s    *Sched
	mu   sync.Mutex
	m    map[string]ent
	lazy bool
}

func (st *store) Get(key string) ([]byte, error) {
	st.s.Park('G')
	st.mu.Lock()
	defer st.mu.Unlock()
	e, ok := st.m[key]
	if !ok {
		return nil, nil
	}
	if !st.lazy && e.exp != 0 && e.exp <= utils.Timestamp() {
		delete(st.m, key)
		return nil, nil
	}
	return append([]byte(nil), e.val...), nil
}

func (st *store) Set(key string, val []byte, ttl time.Duration) error {
	st.s.Park('S')
	st.mu.Lock()
	defer st.mu.Unlock()
	var exp uint32
	if ttl != 0 {
		exp = uint32(ttl.Seconds()) + utils.Timestamp()
	}
	st.m[key] = ent{append([]byte(nil), val...), exp}
	return nil
}

func (st *store) Delete(key string) error {
	st.mu.Lock()
	defer st.mu.Unlock()
	delete(st.m, key)
	return nil
}
func (st *store) Reset() error { return nil }
func (st *store) Close() error { return nil }

func (st *store) gc() {
	st.mu.Lock()
	defer st.mu.Unlock()
	now := utils.Timestamp()
	for k, e := range st.m {
		if e.exp != 0 && e.exp <= now {
			delete(st.m, k)
		}
	}
}

// ---- running one case ---------------------------------------------------------------------------

type caseRun struct {
	cfg     cfgIn
	th      []thrIn
	s       *Sched
	st      *store
	h       fasthttp.RequestHandler
	res     []string
	actions []string
	pos     []string
	est     map[string]uint32 // generator's estimate of each key's current window end (aims the ticks)
}

func hdr(h *fasthttp.ResponseHeader, k string) string {
	v := h.Peek(k)
	if v == nil {
		return "x"
	}
	return string(v)
}

func newCase(c cfgIn, th []thrIn) *caseRun {
	cr := &caseRun{cfg: c, th: th, s: NewSched(len(th)), res: make([]string, len(th)), est: map[string]uint32{}}
	cr.cfg.t0 = utils.Timestamp()
	var mw fiber.Handler
	if c.dflt {
		mw = limiter.New()
	} else {
		lc := limiter.Config{Max: c.max, Expiration: time.Duration(c.exp) * time.Second,
			SkipFailedRequests: c.sf, SkipSuccessfulRequests: c.ss,
			KeyGenerator: func(c fiber.Ctx) string { return c.Get("X-Key") },
			Next:         func(c fiber.Ctx) bool { return c.Get("X-Next") == "1" }}
		if c.mf {
			lc.MaxFunc = func(c fiber.Ctx) int { n, _ := strconv.Atoi(c.Get("X-Max")); return n }
		}
		if c.alg == "S" {
			lc.LimiterMiddleware = limiter.SlidingWindow{}
		}
		if c.st != "M" {
			cr.st = &store{s: cr.s, m: map[string]ent{}, lazy: c.st == "L"}
			lc.Storage = cr.st
		}
		mw = limiter.New(lc)
	}
	app := fiber.New()
	app.Use(mw)
	app.Use(func(c fiber.Ctx) error {
		t := cr.s.Tid()
		cr.s.Park('H')
		if t >= 0 {
			cr.s.mu.Lock()
			cr.s.th[t].extra = true
			cr.s.mu.Unlock()
		}
		st, _ := strconv.Atoi(c.Get("X-Status"))
		return c.SendStatus(st)
	})
	cr.h = app.Handler()
	return cr
}

func (cr *caseRun) body(t int) func() {
	return func() {
		var fctx fasthttp.RequestCtx
		var req fasthttp.Request
		req.Header.SetMethod("GET")
		req.SetRequestURI("/")
		req.Header.Set("X-Key", cr.th[t].key)
		req.Header.Set("X-Max", strconv.Itoa(cr.th[t].max))
		req.Header.Set("X-Status", strconv.Itoa(cr.th[t].status))
		if cr.th[t].next {
			req.Header.Set("X-Next", "1")
		}
		fctx.Init(&req, nil, nil)
		cr.h(&fctx)
		rh := &fctx.Response.Header
		cr.s.mu.Lock()
		ran := cr.s.th[t].extra != nil
		cr.s.mu.Unlock()
		cr.res[t] = fmt.Sprintf("%d:%s:%s:%s:%s:%s", fctx.Response.StatusCode(), gen.B(ran), hdr(rh, "Retry-After"),
			hdr(rh, "X-RateLimit-Limit"), hdr(rh, "X-RateLimit-Remaining"), hdr(rh, "X-RateLimit-Reset"))
	}
}

// do executes one action; returns false if it is not applicable (then nothing is recorded).
func (cr *caseRun) do(a string) bool {
	if len(a) == 0 {
		return false
	}
	n := 0
	if len(a) > 1 {
		v, err := strconv.Atoi(a[1:])
		if err != nil || v < 0 {
			return false
		}
		n = v
	}
	switch a[0] {
	case 's':
		if len(a) < 2 || n >= len(cr.th) || cr.s.PosOf(n) != '-' {
			return false
		}
		cr.noteStart(n)
		cr.s.Start(n, cr.body(n))
	case 'r':
		if len(a) < 2 || n >= len(cr.th) || !cr.s.Release(n, 0) {
			return false
		}
	case 't':
		if len(a) < 2 || n > 100000 {
			return false
		}
		time.Sleep(time.Duration(n) * time.Second)
		cr.s.Settle()
	case 'g':
		if len(a) != 1 || cr.st == nil {
			return false
		}
		cr.st.gc()
	default:
		return false
	}
	cr.actions = append(cr.actions, a)
	cr.pos = append(cr.pos, cr.s.Pos())
	return true
}

// noteStart keeps the generator's estimate of the window end of the thread's key (exact for the
// built-in store, where the whole critical section runs inside the start action; a heuristic
// otherwise). It only steers genTick, it is never part of the observation.
func (cr *caseRun) noteStart(t int) {
	th := cr.th[t]
	if th.next || (cr.cfg.mf && th.max == 0) {
		return
	}
	now, e := utils.Timestamp(), uint32(cr.cfg.exp)
	w := cr.est[th.key]
	switch {
	case w == 0 || (cr.cfg.alg == "F" && now >= w) || (cr.cfg.alg == "S" && now >= w+e):
		w = now + e
	case cr.cfg.alg == "S" && now >= w:
		w += e
	}
	cr.est[th.key] = w
}

// drain finishes whatever is left: start unstarted threads, release parked ones (lowest id first).
func (cr *caseRun) drain() {
	for guard := 0; guard < 10000; guard++ {
		p := cr.s.Pos()
		act := ""
		for i := 0; i < len(p) && act == ""; i++ {
			if parked(p[i]) {
				act = "r" + strconv.Itoa(i)
			}
		}
		for i := 0; i < len(p) && act == ""; i++ {
			if p[i] == '-' {
				act = "s" + strconv.Itoa(i)
			}
		}
		if act == "" || !cr.do(act) {
			return
		}
	}
}

func (cr *caseRun) finish(w *gen.Writer, id string) {
	cr.drain()
	p := cr.s.Pos()
	for i := range cr.th {
		switch p[i] {
		case 'P':
			cr.res[i] = "panic"
		case 'D':
		default:
			cr.res[i] = "stuck"
		}
	}
	acts, poss := "-", "-"
	if len(cr.actions) > 0 {
		acts, poss = strings.Join(cr.actions, ","), strings.Join(cr.pos, ",")
	}
	res := "-"
	if len(cr.res) > 0 {
		res = strings.Join(cr.res, ",")
	}
	w.Case(id, cr.cfg.String(), threadsString(cr.th), acts, poss+"|"+res)
}

// ---- generation ---------------------------------------------------------------------------------

func genCfg(r *gen.Rand) cfgIn {
	var c cfgIn
	if r.Chance(1, 40) {
		return cfgIn{alg: "F", st: "M", exp: 60, max: 5, dflt: true}
	}
	c.alg = gen.Pick(r, []string{"F", "S"})
	c.st = gen.Pick(r, []string{"M", "X", "X", "L"})
	c.exp = gen.Pick(r, []int{1, 2, 3, 3, 4, 5, 7, 10})
	c.max = gen.Pick(r, []int{1, 1, 2, 2, 3, 4, 0})
	c.mf = r.Chance(1, 2)
	switch r.Intn(8) {
	case 0, 1:
		c.sf = true
	case 2, 3:
		c.ss = true
	case 4:
		if r.Chance(1, 2) {
			c.sf, c.ss = true, true
		}
	}
	return c
}

func effMax(c cfgIn) int {
	if c.max <= 0 {
		return 5
	}
	return c.max
}

func genThread(r *gen.Rand, c cfgIn) thrIn {
	t := thrIn{key: "a", max: effMax(c), status: 200}
	if c.dflt {
		t.key = "i"
		if r.Chance(1, 5) {
			t.status = 500
		}
		return t
	}
	if r.Chance(1, 4) {
		t.key = gen.Pick(r, []string{"b", "b", "c"})
	}
	if c.mf && r.Chance(1, 2) {
		t.max = gen.Pick(r, []int{0, 1, 1, 2, 2, 3, 4, 5, -1})
	}
	if r.Chance(1, 3) || ((c.sf || c.ss) && r.Chance(1, 3)) {
		t.status = gen.Pick(r, []int{204, 399, 400, 404, 500, 500})
	}
	t.next = r.Chance(1, 25)
	return t
}

// genTick picks how many seconds pass: half of the time aimed at an edge of the (estimated) window of
// one of the keys - its last second, its end, one past it; for the sliding window also the same three
// points one window later (where the previous window stops being weighed) - otherwise a multiple of
// the window length give or take a second.
func (cr *caseRun) genTick(r *gen.Rand) int {
	e := cr.cfg.exp
	if len(cr.est) > 0 && r.Chance(1, 2) {
		keys := []string{"a", "b", "c", "i"}
		var ws []int
		for _, k := range keys {
			if w, ok := cr.est[k]; ok {
				ws = append(ws, int(w))
			}
		}
		if len(ws) > 0 {
			w := gen.Pick(r, ws)
			tg := gen.Pick(r, []int{w - 1, w, w, w + 1, w + r.Intn(e), w + r.Intn(e), w + e - 1, w + e, w + e, w + e + 1, w + 2*e})
			if d := tg - int(utils.Timestamp()); d >= 1 {
				return d
			}
		}
	}
	d := gen.Pick(r, []int{1, 1, 1, 1 + r.Intn(e), e - 1, e, e, e + 1, 2*e - 1, 2 * e, 2*e + 1, 3 * e})
	if d < 1 {
		d = 1
	}
	return d
}

func runGenerated(w *gen.Writer, id string, r *gen.Rand) {
	c := genCfg(r)
	conc := r.Chance(2, 5) && !c.dflt
	// long handlers: requests sit in the downstream handler while time passes and other requests come
	// and go, then finish (skip options: the hit is taken back from the current / previous / a gone window)
	longh := !conc && !c.dflt && (c.sf || c.ss) && r.Chance(1, 2)
	var th []thrIn
	n := 3 + r.Intn(10)
	if conc {
		n = 2 + r.Intn(7)
	}
	for i := 0; i < n; i++ {
		th = append(th, genThread(r, c))
	}
	cr := newCase(c, th)
	w.Count("alg=" + c.alg + ",st=" + c.st)
	switch {
	case conc:
		w.Count("mode=conc")
	case longh:
		w.Count("mode=longhandler")
	default:
		w.Count("mode=seq")
	}
	if c.dflt {
		w.Count("dflt")
	}
	tickP := 3 // out of 10 per request in seq mode
	if r.Chance(1, 4) {
		tickP = 6
	}
	inP := 6 // 1 in inP: time passes while a request sits in the critical section / the handler
	if (c.sf || c.ss) && r.Chance(1, 2) {
		inP = 3 // handler durations that cross window ends matter for the skip options
	}
	capLive := gen.Pick(r, []int{2, 3, 4, 4, 6})
	if longh {
		next := 0
		var inH []int
		for step := 0; step < 300 && (next < n || len(inH) > 0); step++ {
			x := r.Intn(10)
			switch {
			case x < 3:
				cr.do("t" + strconv.Itoa(cr.genTick(r)))
			case x < 7 && next < n && len(inH) < 5:
				t := next
				next++
				cr.do("s" + strconv.Itoa(t))
				for p := cr.s.PosOf(t); p == 'G' || p == 'S'; p = cr.s.PosOf(t) {
					if !cr.do("r" + strconv.Itoa(t)) {
						break
					}
				}
				if cr.s.PosOf(t) == 'H' {
					inH = append(inH, t)
				}
			case len(inH) > 0:
				// 1..3 of the waiting handlers return; their take-backs (second critical sections) interleave
				k := 1 + r.Intn(3)
				var grp []int
				for ; k > 0 && len(inH) > 0; k-- {
					i := r.Intn(len(inH))
					grp = append(grp, inH[i])
					inH = append(inH[:i], inH[i+1:]...)
				}
				for guard := 0; guard < 100; guard++ {
					var pk []int
					for _, t := range grp {
						if parked(cr.s.PosOf(t)) {
							pk = append(pk, t)
						}
					}
					if len(pk) == 0 {
						break
					}
					if r.Chance(1, 8) {
						cr.do("t" + strconv.Itoa(cr.genTick(r)))
					}
					if !cr.do("r" + strconv.Itoa(gen.Pick(r, pk))) {
						break
					}
				}
			}
		}
	} else if !conc {
		for t := 0; t < n; t++ {
			if r.Intn(10) < tickP {
				cr.do("t" + strconv.Itoa(cr.genTick(r)))
			}
			if cr.st != nil && c.st == "L" && r.Chance(1, 4) {
				cr.do("g")
			}
			cr.do("s" + strconv.Itoa(t))
			for parked(cr.s.PosOf(t)) {
				// time passing inside the critical section or the handler
				if r.Chance(1, inP) {
					cr.do("t" + strconv.Itoa(cr.genTick(r)))
				}
				if !cr.do("r" + strconv.Itoa(t)) {
					break
				}
			}
		}
	} else {
		next := 0
		for step := 0; step < 400; step++ {
			p := cr.s.Pos()
			var pk []int
			live := 0
			for i := 0; i < len(p); i++ {
				if parked(p[i]) {
					pk = append(pk, i)
				}
				if p[i] != '-' && p[i] != 'D' && p[i] != 'P' {
					live++
				}
			}
			if len(pk) == 0 && next >= n {
				break
			}
			x := r.Intn(20)
			switch {
			case x < 2 || (x < 4 && inP == 3 && strings.ContainsRune(p, 'H')):
				cr.do("t" + strconv.Itoa(cr.genTick(r)))
			case x < 5 && x >= 4 && c.st == "L":
				cr.do("g")
			case (x < 10 || len(pk) == 0) && next < n && live < capLive:
				cr.do("s" + strconv.Itoa(next))
				next++
			case len(pk) > 0:
				cr.do("r" + strconv.Itoa(gen.Pick(r, pk)))
			default:
				if next < n && live >= capLive && len(pk) == 0 {
					// everything live is blocked: cannot happen with a correct mutex; bail out
					step = 400
				}
			}
		}
	}
	cr.finish(w, id)
}

func runReplay(w *gen.Writer, f []string) {
	if len(f) < 4 {
		return
	}
	c, ok := parseCfg(f[1])
	th, ok2 := parseThreads(f[2])
	if !ok || !ok2 || len(th) > 64 {
		return
	}
	cr := newCase(c, th)
	if f[3] != "-" {
		acts := strings.Split(f[3], ",")
		if len(acts) > 5000 {
			return
		}
		for _, a := range acts {
			cr.do(a) // inapplicable actions are dropped
		}
	}
	cr.finish(w, f[0])
}

// ---- main: the parent splits the run into chunks executed by child processes (fresh runtime per
// chunk: the built-in memory store leaks one ticker goroutine per limiter instance) -------------------

const chunk = 100

func main() {
	log.SetOutput(io.Discard)
	// the background sweeper occasionally live-locks under faketime; runs are short, so no GC at all
	debug.SetGCPercent(-1)
	o := gen.ParseFlags()
	if os.Getenv("C13_CHILD") == "" && (o.Replay == "" && o.N > chunk) {
		parent(o)
		return
	}
	utils.StartTimeStampUpdater()
	time.Sleep(500 * time.Millisecond) // stay off the 1 s tick edge
	w := gen.NewWriter(o.Out)
	defer w.Close()
	if o.Replay != "" {
		for _, f := range gen.ReplayInputs(o.Replay) {
			runReplay(w, f)
		}
		return
	}
	lo, hi := 0, o.N
	if v := os.Getenv("C13_CHILD"); v != "" {
		fmt.Sscanf(v, "%d:%d", &lo, &hi)
	}
	root := gen.New(o.Seed)
	for i := lo; i < hi; i++ {
		runGenerated(w, fmt.Sprintf("s%d.%d", o.Seed, i), root.Fork(uint64(i)))
	}
}

func parent(o gen.Opts) {
	type job struct{ lo, hi int }
	var jobs []job
	for lo := 0; lo < o.N; lo += chunk {
		hi := lo + chunk
		if hi > o.N {
			hi = o.N
		}
		jobs = append(jobs, job{lo, hi})
	}
	outs := make([]string, len(jobs))
	errs := make([]error, len(jobs))
	sem := make(chan struct{}, 12)
	var wg sync.WaitGroup
	for i, j := range jobs {
		wg.Add(1)
		sem <- struct{}{}
		go func(i int, j job) {
			defer wg.Done()
			defer func() { <-sem }()
			outs[i] = fmt.Sprintf("%s.part%d", o.Out, i)
			cmd := exec.Command(os.Args[0], "-seed", strconv.FormatUint(o.Seed, 10), "-n", strconv.Itoa(o.N), "-tier", o.Tier, "-out", outs[i])
			cmd.Env = append(os.Environ(), fmt.Sprintf("C13_CHILD=%d:%d", j.lo, j.hi))
			errs[i] = cmd.Run()
		}(i, j)
	}
	wg.Wait()
	out, err := os.Create(o.Out)
	if err != nil {
		os.Exit(2)
	}
	dist := map[string]int{}
	for i, p := range outs {
		if errs[i] != nil {
			os.Exit(3)
		}
		data, err := os.ReadFile(p)
		if err != nil {
			os.Exit(3)
		}
		for _, l := range strings.Split(string(data), "\n") {
			if strings.HasPrefix(l, "case\t") {
				out.WriteString(l + "\n")
			} else if strings.HasPrefix(l, "dist\t") {
				mergeDist(dist, l[5:])
			}
		}
		os.Remove(p)
	}
	out.WriteString("dist\t" + distJSON(dist) + "\n")
	out.Close()
}
