// Harness for C12: flash messages over a real HTTP exchange (in-memory connection).
//
// Case kinds (field 1 after the id):
//
//	rtc  keys vals levels oldKeys oldVals wi<p1>.<p2>… | issued c2 seen2 c3 seen3
//	     redirect with messages: With(keys[i], vals[i], levels[i]) in order, one WithInput() per
//	     position p (after the first p With calls; "wi-" = none; old inputs travel in the query);
//	     Go's net/http (response parser + cookiejar + request writer) is the
//	     conforming client that follows to /show twice.
//	rtt  keys vals levels oldKeys oldVals wi<p1>.<p2>… | issued st2 seen2 exp2 st3 seen3
//	     same, but the client copies the Set-Cookie value verbatim into its Cookie header.
//	ish  keys vals levels oldKeys oldVals wi ends (each a '|'-joined list, one entry per step) | "status/issued" per step
//	     issuing history on one app: consecutive /go requests reuse the pooled ctx and the pooled
//	     Redirect; a step ending ok / back attaches data but never completes the redirect.
//	rff  keys vals levels mode | issued st2 relaySeen issued2 exp2 st3 seen3 exp3 st4 seen4
//	     re-flash: the verbatim client follows to /relay, whose handler re-attaches the messages it
//	     received (mode same / rev / chg) and redirects again; then /show twice.
//	dec  cookies(hexlist) | per request "status/seenCookie/msgs/exp" joined by '|' , allocs (csv)
//	     raw cookie values sent one after another to the same app (pooled context reused).
//
// Messages are rendered as key.value.level.old (hex, `_` = empty) joined by ','; `-` = none. What a
// handler saw is "<messages>~<keyed>", keyed = "key:Message(key):OldInput(key)" per queried key
// (Message as key.value.level, OldInput as key.value), joined by ','.
package main

import (
	"bufio"
	"bytes"
	"encoding/hex"
	"fmt"
	"io"
	"os"
	"os/exec"
	"syscall"
	"net/http"
	"net/http/cookiejar"
	"net/url"
	"runtime"
	"sort"
	"strconv"
	"strings"

	"github.com/gofiber/fiber/v3"
	"github.com/gofiber/fiber/v3/log"

	"verifharness/internal/gen"
)

type flash struct {
	key, val string
	level    uint8
}

type script struct {
	flashes []flash
	olds    [][2]string
	wipos   []int // one WithInput() call per entry p: after the first p With calls (non-decreasing)
}

var (
	app       *fiber.App
	cur       script
	curEnd    string // how /go ends: "" / "to" = To("/show"); "ok" = plain 200 answer; "back" = Back() without Referer or fallback (error, no redirect);
	// the other completing finishers: "backref" = Back() with a Referer header, "backfb" = Back("/show"), "route" = Route("show"),
	// "routep" = Route("showp", Params), "routeq" = Route("show", Queries) - the model treats every completing finisher alike
	relayMode string // how /relay re-attaches the messages it received
	relaySeen string // what the /relay handler saw ("nohandler" if it did not run)
)

var validEnd = map[string]bool{"to": true, "ok": true, "back": true, "backref": true, "backfb": true, "route": true, "routep": true, "routeq": true}

func hx(s string) string {
	if s == "" {
		return "_"
	}
	return hex.EncodeToString([]byte(s))
}

func setup() {
	app = fiber.New()
	app.Get("/go", func(c fiber.Ctx) error {
		r := c.Redirect()
		wi := 0
		for i, f := range cur.flashes {
			for wi < len(cur.wipos) && cur.wipos[wi] <= i {
				r.WithInput()
				wi++
			}
			r.With(f.key, f.val, f.level)
		}
		for ; wi < len(cur.wipos); wi++ {
			r.WithInput()
		}
		switch curEnd {
		case "ok":
			return c.SendString("stay") // data attached, redirect never completed
		case "back":
			return r.Back() // no Referer, no fallback: ErrRedirectBackNoFallback
		case "backref":
			return r.Back() // the request carries a Referer
		case "backfb":
			return r.Back("/show")
		case "route":
			return r.Route("show")
		case "routep":
			return r.Route("showp", fiber.RedirectConfig{Params: fiber.Map{"id": "7"}})
		case "routeq":
			return r.Route("show", fiber.RedirectConfig{Queries: map[string]string{"a": "1", "b": "x y"}})
		}
		return r.To("/show")
	})
	show := func(c fiber.Ctx) error {
		return c.SendString("ck=" + gen.Hex(c.Cookies("fiber_flash")) + ";m=" + seenBy(c))
	}
	app.Get("/show", show).Name("show")
	app.Get("/showp/:id", show).Name("showp")
	// the re-flash pattern: the handler that consumes the messages redirects again and re-attaches
	// what it received (relayMode: same = as received, in order, same levels -> identical bytes;
	// rev = in reverse order; chg = value of the first message changed)
	app.Get("/relay", func(c fiber.Ctx) error {
		relaySeen = seenBy(c)
		msgs := c.Redirect().Messages()
		switch relayMode {
		case "rev":
			for i, j := 0, len(msgs)-1; i < j; i, j = i+1, j-1 {
				msgs[i], msgs[j] = msgs[j], msgs[i]
			}
		case "chg":
			if len(msgs) > 0 {
				msgs[0].Value += "!"
			}
		}
		r := c.Redirect()
		for _, m := range msgs {
			r.With(m.Key, m.Value, m.Level)
		}
		return r.To("/show")
	})
	_ = app.Handler() // startup (route tree) without a listener
}

// seenBy: what a handler sees through the readers of Redirect(): "<messages>~<keyed>"
func seenBy(c fiber.Ctx) string {
	var parts []string
	for _, m := range c.Redirect().Messages() {
		parts = append(parts, hx(m.Key)+"."+hx(m.Value)+"."+strconv.Itoa(int(m.Level))+".0")
	}
	var olds []string
	for _, m := range c.Redirect().OldInputs() {
		olds = append(olds, hx(m.Key)+"."+hx(m.Value)+".0.1")
	}
	sort.Strings(olds) // issued in Go map order
	parts = append(parts, olds...)
	s := strings.Join(parts, ",")
	if s == "" {
		s = "-"
	}
	// keyed readers: every key of the script (flash keys, input names), every key the list
	// readers showed, and one key that is (normally) absent; first occurrence only
	var keys []string
	have := map[string]bool{}
	add := func(k string) {
		if !have[k] {
			have[k] = true
			keys = append(keys, k)
		}
	}
	for _, f := range cur.flashes {
		add(f.key)
	}
	for _, kv := range cur.olds {
		add(kv[0])
	}
	for _, m := range c.Redirect().Messages() {
		add(m.Key)
	}
	for _, m := range c.Redirect().OldInputs() {
		add(m.Key)
	}
	add("zz-absent")
	var keyed []string
	for _, k := range keys {
		fm := c.Redirect().Message(k)
		oi := c.Redirect().OldInput(k)
		keyed = append(keyed, hx(k)+":"+hx(fm.Key)+"."+hx(fm.Value)+"."+strconv.Itoa(int(fm.Level))+":"+hx(oi.Key)+"."+hx(oi.Value))
	}
	return s + "~" + strings.Join(keyed, ",")
}

// serve sends raw request bytes over an in-memory connection and returns what the server wrote.
func serve(raw []byte) []byte {
	c := newConn(raw)
	_ = app.Server().ServeConn(c)
	return c.w.Bytes()
}

const setCookiePrefix = "\r\nSet-Cookie: fiber_flash="
const setCookieSuffix = "; path=/; SameSite=Lax\r\n"

// issuedValue extracts the bytes fiber handed to the header writer as the flash cookie value.
func issuedValue(raw []byte) (string, bool) {
	i := bytes.Index(raw, []byte(setCookiePrefix))
	if i < 0 {
		return "", false
	}
	rest := raw[i+len(setCookiePrefix):]
	if bytes.HasPrefix(rest, []byte("; ")) {
		// empty value followed by attributes: the expiry written by parseAndClearFlashMessages,
		// not an issued value (an issued value starts with a msgpack array header)
		return "", false
	}
	j := bytes.LastIndex(rest, []byte(setCookieSuffix))
	if j < 0 {
		return "", false
	}
	return string(rest[:j]), true
}

func queryOf(s script) string {
	if len(s.olds) == 0 {
		return ""
	}
	var q []string
	for _, kv := range s.olds {
		q = append(q, kv[0]+"="+kv[1])
	}
	return "?" + strings.Join(q, "&")
}

func seenOf(raw []byte) (int, string) {
	r, err := parseResp(raw)
	if err != nil {
		return 0, "unparsable"
	}
	b := string(r.body)
	if i := strings.Index(b, ";m="); r.status == 200 && strings.HasPrefix(b, "ck=") && i >= 0 {
		return r.status, b[i+3:]
	}
	return r.status, "nohandler"
}

func optHex(s string, ok bool) string {
	if !ok {
		return "none"
	}
	return gen.Hex(s)
}

// ---- conforming client: net/http ------------------------------------------------------------------

func rtc(s script) []string {
	cur, curEnd = s, ""
	u, _ := url.Parse("http://example.com/show")
	jar, _ := cookiejar.New(nil)
	raw1 := serve([]byte("GET /go" + queryOf(s) + " HTTP/1.1\r\nHost: example.com\r\n\r\n"))
	issued, ok := issuedValue(raw1)
	out := []string{optHex(issued, ok)}
	if hr, err := http.ReadResponse(bufio.NewReader(bytes.NewReader(raw1)), nil); err == nil {
		jar.SetCookies(u, hr.Cookies())
	}
	for step := 0; step < 2; step++ {
		req, _ := http.NewRequest(http.MethodGet, u.String(), nil)
		sent, has := "", false
		for _, c := range jar.Cookies(u) {
			req.AddCookie(c)
			if c.Name == "fiber_flash" {
				sent, has = c.Value, true
			}
		}
		var buf bytes.Buffer
		_ = req.Write(&buf)
		raw := serve(buf.Bytes())
		_, seen := seenOf(raw)
		if hr, err := http.ReadResponse(bufio.NewReader(bytes.NewReader(raw)), req); err == nil {
			jar.SetCookies(u, hr.Cookies())
		}
		out = append(out, optHex(sent, has), seen)
	}
	return out
}

// ---- transparent client: copies the value verbatim --------------------------------------------------

// expires: does a conforming client that holds the flash cookie (name fiber_flash, path "/", host
// cookie) drop it after this response? Decided by Go's net/http cookie parser and cookiejar: a
// stand-in cookie with a storable value is put into a jar, the response's Set-Cookie lines are
// applied, and the jar is asked again.
func expires(raw []byte) bool {
	u, _ := url.Parse("http://example.com/show")
	jar, _ := cookiejar.New(nil)
	jar.SetCookies(u, []*http.Cookie{{Name: "fiber_flash", Value: "standin", Path: "/"}})
	hr, err := http.ReadResponse(bufio.NewReader(bytes.NewReader(raw)), nil)
	if err != nil {
		return false
	}
	jar.SetCookies(u, hr.Cookies())
	for _, c := range jar.Cookies(u) {
		if c.Name == "fiber_flash" {
			return false
		}
	}
	return true
}

func rawShow(cookie string, has bool) []byte {
	h := "GET /show HTTP/1.1\r\nHost: example.com\r\n"
	if has {
		h += "Cookie: fiber_flash=" + cookie + "\r\n"
	}
	return []byte(h + "\r\n")
}

func rtt(s script) []string {
	cur, curEnd = s, ""
	raw1 := serve([]byte("GET /go" + queryOf(s) + " HTTP/1.1\r\nHost: example.com\r\n\r\n"))
	issued, has := issuedValue(raw1)
	out := []string{optHex(issued, has)}
	raw2 := serve(rawShow(issued, has))
	st2, seen2 := seenOf(raw2)
	exp2 := expires(raw2)
	if exp2 {
		has = false
	}
	raw3 := serve(rawShow(issued, has))
	st3, seen3 := seenOf(raw3)
	return append(out, gen.I(st2), seen2, gen.B(exp2), gen.I(st3), seen3)
}

// ---- re-flash: the consuming request redirects again with the messages it received -------------------

func rawGet(path, cookie string, has bool) []byte {
	h := "GET " + path + " HTTP/1.1\r\nHost: example.com\r\n"
	if has {
		h += "Cookie: fiber_flash=" + cookie + "\r\n"
	}
	return []byte(h + "\r\n")
}

// rff: /go issues; the verbatim client follows to /relay (consumes, re-attaches per mode, redirects);
// the client applies that response (new value replaces the cookie, else an expiry drops it) and
// follows to /show twice.
func rff(s script, mode string) []string {
	cur, curEnd = s, ""
	relayMode = mode
	raw1 := serve([]byte("GET /go HTTP/1.1\r\nHost: example.com\r\n\r\n"))
	ck, has := issuedValue(raw1)
	out := []string{optHex(ck, has)}
	relaySeen = "nohandler"
	raw2 := serve(rawGet("/relay", ck, has))
	st2 := 0
	if r, err := parseResp(raw2); err == nil {
		st2 = r.status
	}
	issued2, has2 := issuedValue(raw2)
	exp2 := expires(raw2)
	out = append(out, gen.I(st2), relaySeen, optHex(issued2, has2), gen.B(exp2))
	if has2 {
		ck, has = issued2, true
	} else if exp2 {
		has = false
	}
	raw3 := serve(rawGet("/show", ck, has))
	st3, seen3 := seenOf(raw3)
	exp3 := expires(raw3)
	if exp3 {
		has = false
	}
	raw4 := serve(rawGet("/show", ck, has))
	st4, seen4 := seenOf(raw4)
	return append(out, gen.I(st3), seen3, gen.B(exp3), gen.I(st4), seen4)
}

// ---- issuing histories: pooled ctx + pooled Redirect reused by consecutive requests of one app ---------

// ish: every step attaches With/WithInput data; a step ending "ok"/"back" never completes the redirect.
// Observation per step: status/issued value.
func ish(steps []script, ends []string) []string {
	var obs []string
	for i, s := range steps {
		cur, curEnd = s, ends[i]
		ref := ""
		if ends[i] == "backref" {
			ref = "Referer: http://example.com/show\r\n"
		}
		raw := serve([]byte("GET /go" + queryOf(s) + " HTTP/1.1\r\nHost: example.com\r\n" + ref + "\r\n"))
		st := 0
		if r, err := parseResp(raw); err == nil {
			st = r.status
		}
		v, has := issuedValue(raw)
		obs = append(obs, gen.I(st)+"/"+optHex(v, has))
	}
	curEnd = ""
	return []string{strings.Join(obs, "|")}
}

func ishFields(steps []script, ends []string) []string {
	cols := make([][]string, 6)
	for _, s := range steps {
		for j, f := range scriptFields(s) {
			cols[j] = append(cols[j], f)
		}
	}
	var out []string
	for _, c := range cols {
		out = append(out, strings.Join(c, "|"))
	}
	return append(out, strings.Join(ends, "|"))
}

// ---- decode histories ----------------------------------------------------------------------------------

// dangerous: a cookie whose array/map headers announce more elements than a few thousand. If the
// decoder's size bound is ever lost such a cookie makes the process allocate gigabytes; those
// histories run in a child process with an address-space limit, and a dead child is the observation.
func dangerous(cookies []string) bool {
	for _, c := range cookies {
		// only the top-level array header sizes an allocation
		if strings.HasPrefix(c, "\xdd") {
			return true
		}
	}
	return false
}

func decChild(cookies []string) []string {
	out, err := os.CreateTemp("", "c12child")
	if err != nil {
		return dec(cookies)
	}
	out.Close()
	defer os.Remove(out.Name())
	cmd := exec.Command(os.Args[0], "-child", gen.HexList(cookies), "-out", out.Name())
	cmd.Env = append(os.Environ(), "GOMEMLIMIT=1GiB")
	if err := cmd.Run(); err != nil {
		var obs, al []string
		for range cookies {
			obs = append(obs, "0/none/crashed/0")
			al = append(al, "99999999999")
		}
		return []string{strings.Join(obs, "|"), strings.Join(al, ",")}
	}
	b, _ := os.ReadFile(out.Name())
	f := strings.Split(strings.TrimRight(string(b), "\n"), "\t")
	if len(f) != 2 {
		return []string{"0/none/crashed/0", "99999999999"}
	}
	return f
}

func dec(cookies []string) []string {
	cur = script{}
	var obs, allocs []string
	var m1, m2 runtime.MemStats
	for _, ck := range cookies {
		req := rawShow(ck, true)
		runtime.ReadMemStats(&m1)
		raw := serve(req)
		runtime.ReadMemStats(&m2)
		st, seen := seenOf(raw)
		ckSeen := "none"
		if r, err := parseResp(raw); err == nil && r.status == 200 {
			b := string(r.body)
			if i := strings.Index(b, ";m="); strings.HasPrefix(b, "ck=") && i >= 0 {
				ckSeen = b[3:i]
			}
		}
		obs = append(obs, fmt.Sprintf("%d/%s/%s/%s", st, ckSeen, seen, gen.B(expires(raw))))
		allocs = append(allocs, strconv.FormatUint(m2.TotalAlloc-m1.TotalAlloc, 10))
	}
	return []string{strings.Join(obs, "|"), strings.Join(allocs, ",")}
}

// ---- case plumbing ---------------------------------------------------------------------------------------

func scriptFields(s script) []string {
	var ks, vs, ls, oks, ovs []string
	for _, f := range s.flashes {
		ks = append(ks, f.key)
		vs = append(vs, f.val)
		ls = append(ls, strconv.Itoa(int(f.level)))
	}
	for _, kv := range s.olds {
		oks = append(oks, kv[0])
		ovs = append(ovs, kv[1])
	}
	l := strings.Join(ls, ",")
	if l == "" {
		l = "-"
	}
	return []string{gen.HexList(ks), gen.HexList(vs), l, gen.HexList(oks), gen.HexList(ovs), wiField(s.wipos)}
}

// wiField: "wi" + positions of the WithInput() calls joined by '.', "wi-" = never called
func wiField(pos []int) string {
	if len(pos) == 0 {
		return "wi-"
	}
	var p []string
	for _, x := range pos {
		p = append(p, strconv.Itoa(x))
	}
	return "wi" + strings.Join(p, ".")
}

// nScriptFields: 6 when the line carries the WithInput positions ("wi<p1>.<p2>…", "wi-" = none), 5 for
// older lines (corpus, known-finding witnesses: one WithInput() after all With calls).
func nScriptFields(in []string) int {
	if len(in) >= 6 && strings.HasPrefix(in[5], "wi") {
		return 6
	}
	return 5
}

func parseScript(f []string) (script, bool) {
	var s script
	ks, vs := gen.UnHexList(f[0]), gen.UnHexList(f[1])
	var ls []string
	if f[2] != "-" {
		ls = strings.Split(f[2], ",")
	}
	oks, ovs := gen.UnHexList(f[3]), gen.UnHexList(f[4])
	if len(ks) != len(vs) || len(ks) != len(ls) || len(oks) != len(ovs) {
		return s, false
	}
	for i := range ks {
		l, err := strconv.Atoi(ls[i])
		if err != nil || l < 0 || l > 255 {
			return s, false
		}
		s.flashes = append(s.flashes, flash{ks[i], vs[i], uint8(l)})
	}
	for i := range oks {
		s.olds = append(s.olds, [2]string{oks[i], ovs[i]})
	}
	s.wipos = []int{len(s.flashes)}
	if len(f) >= 6 {
		s.wipos = nil
		if rest := strings.TrimPrefix(f[5], "wi"); rest != "-" {
			prev := 0
			for _, x := range strings.Split(rest, ".") {
				p, err := strconv.Atoi(x)
				if err != nil || p < prev || p > len(s.flashes) {
					return s, false
				}
				s.wipos = append(s.wipos, p)
				prev = p
			}
		}
	}
	return s, true
}

func runCase(w *gen.Writer, id, kind string, in []string) {
	defer func() {
		if r := recover(); r != nil {
			// malformed replay line (bad hex …) or a panic in fiber: report, never crash the harness
			w.Case(id, append(append([]string{kind}, in...), "panic:"+strings.ReplaceAll(fmt.Sprint(r), "\t", " "))...)
		}
	}()
	switch kind {
	case "rtc", "rtt":
		if len(in) < 5 {
			return
		}
		nf := nScriptFields(in)
		s, ok := parseScript(in[:nf])
		if !ok {
			return
		}
		var obs []string
		if kind == "rtc" {
			obs = rtc(s)
		} else {
			obs = rtt(s)
		}
		w.Case(id, append(append([]string{kind}, in[:nf]...), obs...)...)
	case "ish":
		// 6 script columns (one entry per step, joined by '|') + endings
		if len(in) < 7 {
			return
		}
		var cols [][]string
		for j := 0; j < 7; j++ {
			cols = append(cols, strings.Split(in[j], "|"))
		}
		n := len(cols[6])
		var steps []script
		for i := 0; i < n; i++ {
			var f []string
			for j := 0; j < 6; j++ {
				if len(cols[j]) != n {
					return
				}
				f = append(f, cols[j][i])
			}
			sc, ok := parseScript(f)
			if !ok || !validEnd[cols[6][i]] {
				return
			}
			steps = append(steps, sc)
		}
		w.Case(id, append(append([]string{kind}, in[:7]...), ish(steps, cols[6])...)...)
	case "rff":
		// keys vals levels mode
		if len(in) < 4 {
			return
		}
		sc, ok := parseScript([]string{in[0], in[1], in[2], "-", "-", "wi-"})
		if !ok || (in[3] != "same" && in[3] != "rev" && in[3] != "chg") {
			return
		}
		w.Case(id, append(append([]string{kind}, in[:4]...), rff(sc, in[3])...)...)
	case "dec":
		if len(in) < 1 {
			return
		}
		cs := gen.UnHexList(in[0])
		var obs []string
		if dangerous(cs) {
			obs = decChild(cs)
		} else {
			obs = dec(cs)
		}
		w.Case(id, append([]string{kind, in[0]}, obs...)...)
	}
}

func childMain() {
	// -child <hexlist> -out <file>: run one decode history under a 3 GiB address-space limit
	_ = syscall.Setrlimit(syscall.RLIMIT_AS, &syscall.Rlimit{Cur: 3 << 30, Max: 3 << 30})
	log.SetOutput(io.Discard)
	setup()
	for i := 0; i < 8; i++ {
		serve(rawShow("\x90", true))
	}
	obs := dec(gen.UnHexList(os.Args[2]))
	_ = os.WriteFile(os.Args[4], []byte(strings.Join(obs, "\t")+"\n"), 0o644)
}

func main() {
	if len(os.Args) == 5 && os.Args[1] == "-child" && os.Args[3] == "-out" {
		childMain()
		return
	}
	log.SetOutput(io.Discard)
	o := gen.ParseFlags()
	w := gen.NewWriter(o.Out)
	defer w.Close()
	setup()
	// warm the server's pools so that allocation deltas measure the request, not first-use set-up
	for i := 0; i < 8; i++ {
		serve(rawShow("\x90", true))
	}
	if o.Replay != "" {
		for _, f := range gen.ReplayInputs(o.Replay) {
			if len(f) < 2 {
				continue
			}
			runCase(w, f[0], f[1], f[2:])
		}
		return
	}
	root := gen.New(o.Seed)
	for i := 0; i < o.N; i++ {
		r := root.Fork(uint64(i))
		id := fmt.Sprintf("s%d.%d", o.Seed, i)
		switch i % 4 {
		case 0:
			if (i/4)%2 == 1 {
				steps, ends := genIssueHistory(r, w)
				runCase(w, id, "ish", ishFields(steps, ends))
				break
			}
			s := genScript(r, w, false)
			runCase(w, id, "rtc", scriptFields(s))
		case 1:
			if (i/4)%2 == 1 {
				s := genRelayScript(r, w)
				mode := gen.Pick(r, []string{"same", "same", "rev", "chg"})
				w.Count("relay-" + mode)
				runCase(w, id, "rff", append(scriptFields(s)[:3], mode))
				break
			}
			s := genScript(r, w, true)
			runCase(w, id, "rtt", scriptFields(s))
		default:
			cs := genCookies(r, w)
			runCase(w, id, "dec", []string{gen.HexList(cs)})
		}
	}
}
