package main

import (
	"sort"
	"strings"

	"verifharness/internal/gen"
)

// bytes that survive fasthttp's request-header validation and cookie scanner unchanged
func safeByte(r *gen.Rand) byte {
	for {
		c := byte(33 + r.Intn(223))
		if c == ';' || c == 127 || c == '"' {
			continue
		}
		return c
	}
}

var words = []string{"success", "error", "message", "info", "name", "id", "1", "saved", "émoji ✓", "a b", "x=y", "k,v", "k:v"}

func genStr(r *gen.Rand, safe bool) string {
	switch r.Intn(10) {
	case 0:
		return ""
	case 1, 2, 3, 4:
		return gen.Pick(r, words)
	case 5:
		// length classes of msgp.AppendString: fixstr (<32), str8 (<256), str16
		n := gen.Pick(r, []int{31, 32, 33, 58, 60, 126, 128, 200, 255, 256, 300})
		if safe && (n == 59 || n == 127 || n >= 256) {
			n = 60
		}
		b := make([]byte, n)
		for i := range b {
			b[i] = 'a' + byte(i%26)
		}
		return string(b)
	default:
		n := 1 + r.Intn(12)
		b := make([]byte, n)
		for i := range b {
			if safe {
				b[i] = safeByte(r)
			} else {
				b[i] = byte(r.Intn(256))
				if r.Chance(1, 6) {
					b[i] = gen.Pick(r, []byte{0, '\r', '\n', ';', ',', ' ', '"', '\\', 127, 0x80, 0xff})
				}
			}
		}
		return string(b)
	}
}

func genLevel(r *gen.Rand, safe bool) uint8 {
	if safe {
		for {
			l := uint8(gen.Pick(r, []int{33, 48, 65, 97, 126, 128, 200, 255, 32 + r.Intn(95)}))
			if l != ';' && l != 127 && l != '"' && l != ' ' {
				return l
			}
		}
	}
	return uint8(gen.Pick(r, []int{0, 0, 0, 1, 2, 3, 10, 13, 31, 32, 59, 127, 128, 255, r.Intn(256)}))
}

var inputWords = []string{"id", "name", "email", "q", "page", "tom", "1", "42", "a-b", "x.y", "A_Z"}

// genScript: a redirect with 0..4 With calls (duplicate keys exercise the overwrite rule) and
// 0..2 old-input pairs. `safe` biases towards values a verbatim-copying client can return.
func genScript(r *gen.Rand, w *gen.Writer, safe bool) script {
	var s script
	if safe && r.Chance(1, 5) {
		safe = false
	}
	n := r.Intn(5)
	for i := 0; i < n; i++ {
		f := flash{genStr(r, safe), genStr(r, safe), genLevel(r, safe)}
		if i > 0 && r.Chance(1, 4) {
			f.key = s.flashes[r.Intn(i)].key // duplicate key
			w.Count("script-dupkey")
		}
		s.flashes = append(s.flashes, f)
	}
	if r.Chance(1, 3) {
		k := 1 + r.Intn(2)
		used := map[string]bool{}
		for i := 0; i < k; i++ {
			key := gen.Pick(r, inputWords[:5])
			if used[key] {
				continue
			}
			used[key] = true
			s.olds = append(s.olds, [2]string{key, gen.Pick(r, inputWords)})
		}
		w.Count("script-oldinput")
	}
	// WithInput() calls: usually one, sometimes two or three (every call appends the input again),
	// sometimes none although the request carries input; anywhere in the With chain
	k := 0
	if len(s.olds) > 0 {
		k = 1
		if r.Chance(1, 4) {
			k = 2 + r.Intn(2)
			w.Count("script-withinput-repeated")
		} else if r.Chance(1, 10) {
			k = 0
			w.Count("script-input-not-attached")
		}
	} else if r.Chance(1, 8) {
		k = 1 // WithInput() with nothing to bind
		w.Count("script-withinput-no-input")
	}
	early := len(s.flashes) > 0 && r.Bool()
	for i := 0; i < k; i++ {
		p := len(s.flashes)
		if early {
			p = r.Intn(len(s.flashes) + 1)
		}
		s.wipos = append(s.wipos, p)
	}
	sort.Ints(s.wipos)
	if early && k > 0 {
		w.Count("script-withinput-early")
	}
	if len(s.olds) > 0 && len(s.flashes) > 0 && r.Chance(1, 2) {
		// a With key may equal an old-input key
		s.flashes[r.Intn(len(s.flashes))].key = s.olds[r.Intn(len(s.olds))][0]
		w.Count("script-key-collides-with-input")
	}
	if len(s.flashes) == 0 && len(s.olds) == 0 {
		w.Count("script-empty")
	}
	if safe {
		w.Count("script-safe")
	}
	return s
}

// genRelayScript: 1..3 With calls whose encoding crosses fiber's own request parser (bytes and levels
// a verbatim client can return: no control bytes, level >= 32), duplicate keys included; no old input
// (issued old input carries level 0 = NUL).
func genRelayScript(r *gen.Rand, w *gen.Writer) script {
	var s script
	n := 1 + r.Intn(3)
	for i := 0; i < n; i++ {
		f := flash{genStr(r, true), genStr(r, true), genLevel(r, true)}
		if i > 0 && r.Chance(1, 4) {
			f.key = s.flashes[r.Intn(i)].key
		}
		s.flashes = append(s.flashes, f)
	}
	return s
}

// genIssueHistory: 2..3 /go requests on one app. The earlier ones attach With/WithInput data and
// mostly do NOT complete the redirect (plain answer, or Back() without Referer/fallback), the last
// one completes it - usually with other input names and fewer fields, so that anything an earlier
// request left in the pooled Redirect / ctx would show up in its cookie.
func genIssueHistory(r *gen.Rand, w *gen.Writer) ([]script, []string) {
	n := 2
	if r.Chance(1, 4) {
		n = 3
	}
	var steps []script
	var ends []string
	for i := 0; i < n; i++ {
		s := genScript(r, w, false)
		last := i == n-1
		if !last {
			// make sure there is something to leave behind
			if len(s.olds) == 0 {
				s.olds = [][2]string{{gen.Pick(r, []string{"password", "email", "token"}), gen.Pick(r, inputWords)}, {"user", "tom"}}
			}
			if len(s.wipos) == 0 {
				s.wipos = []int{len(s.flashes)}
			}
			if len(s.flashes) == 0 {
				s.flashes = []flash{{"secret", genStr(r, false), genLevel(r, false)}}
				s.wipos = []int{r.Intn(2)}
			}
			ends = append(ends, gen.Pick(r, []string{"ok", "ok", "back", "back", "to", "routeq", "backfb"}))
		} else {
			if len(s.olds) > 1 && r.Bool() {
				s.olds = s.olds[:1]
			}
			if len(s.olds) > 0 && len(s.wipos) == 0 {
				s.wipos = []int{len(s.flashes)}
			}
			// every completing finisher has to deliver what was attached
			ends = append(ends, gen.Pick(r, []string{"to", "to", "backref", "backfb", "route", "routep", "routeq", "routeq"}))
		}
		w.Count("ish-end-" + ends[i])
		steps = append(steps, s)
	}
	return steps, ends
}

// ---- msgpack builders for the decode stream -----------------------------------------------------

func mpStr(s string) []byte {
	n := len(s)
	switch {
	case n < 32:
		return append([]byte{0xa0 | byte(n)}, s...)
	case n < 256:
		return append([]byte{0xd9, byte(n)}, s...)
	case n < 65536:
		return append([]byte{0xda, byte(n >> 8), byte(n)}, s...)
	}
	return append([]byte{0xdb, byte(n >> 24), byte(n >> 16), byte(n >> 8), byte(n)}, s...)
}

func mpArr(n int) []byte {
	switch {
	case n < 16:
		return []byte{0x90 | byte(n)}
	case n < 65536:
		return []byte{0xdc, byte(n >> 8), byte(n)}
	}
	return []byte{0xdd, byte(n >> 24), byte(n >> 16), byte(n >> 8), byte(n)}
}

func mpUint8(u uint8) []byte {
	if u < 128 {
		return []byte{u}
	}
	return []byte{0xcc, u}
}

func mpBool(b bool) []byte {
	if b {
		return []byte{0xc3}
	}
	return []byte{0xc2}
}

// an arbitrary msgpack value (for unknown keys / wrong-typed fields), built from header-safe bytes
func mpAny(r *gen.Rand, depth int) []byte {
	switch r.Intn(12) {
	case 0:
		return []byte{0xc0}
	case 1:
		return mpBool(r.Bool())
	case 2:
		return mpUint8(genLevel(r, true))
	case 3:
		return mpStr(genStr(r, true))
	case 4:
		return append([]byte{0xc4, 0x21}, bytesOf(33, 'z')...) // bin8
	case 5:
		return append([]byte{0xca}, bytesOf(4, 'f')...) // float32
	case 6:
		return append([]byte{0xd4, 0x41}, 'e') // fixext1
	case 7:
		return append([]byte{0xc7, 0x21, 0x41}, bytesOf(33, 'x')...) // ext8
	case 8:
		return []byte{0xe0 | byte(r.Intn(32))} // negative fixint
	case 9, 10:
		if depth > 2 {
			return []byte{0x90}
		}
		n := r.Intn(3)
		out := []byte{0x90 | byte(n)}
		for i := 0; i < n; i++ {
			out = append(out, mpAny(r, depth+1)...)
		}
		return out
	default:
		if depth > 2 {
			return []byte{0x80}
		}
		n := r.Intn(3)
		out := []byte{0x80 | byte(n)}
		for i := 0; i < n; i++ {
			out = append(out, mpStr(gen.Pick(r, words[:6]))...)
			out = append(out, mpAny(r, depth+1)...)
		}
		return out
	}
}

// one well-formed message
func mpMsg(key, val string, level uint8, old bool) []byte {
	out := []byte{0x84}
	out = append(out, mpStr("key")...)
	out = append(out, mpStr(key)...)
	out = append(out, mpStr("value")...)
	out = append(out, mpStr(val)...)
	out = append(out, mpStr("level")...)
	out = append(out, mpUint8(level)...)
	out = append(out, mpStr("isOldInput")...)
	return append(out, mpBool(old)...)
}

func bytesOf(n int, c byte) []byte {
	b := make([]byte, n)
	for i := range b {
		b[i] = c
	}
	return b
}

type field struct {
	name string
	val  []byte
}

// one message as a list of map entries, with structural mutations
func genMsgBytes(r *gen.Rand, w *gen.Writer) []byte {
	fs := []field{
		{"key", mpStr(genStr(r, true))},
		{"value", mpStr(genStr(r, true))},
		{"level", mpUint8(genLevel(r, true))},
		{"isOldInput", mpBool(r.Chance(1, 3))},
	}
	switch r.Intn(12) {
	case 0: // drop a field
		i := r.Intn(len(fs))
		fs = append(fs[:i], fs[i+1:]...)
		w.Count("msg-missing-field")
	case 1: // reorder
		i, j := r.Intn(4), r.Intn(4)
		fs[i], fs[j] = fs[j], fs[i]
		w.Count("msg-reordered")
	case 2: // unknown field with an arbitrary value
		i := r.Intn(len(fs) + 1)
		fs = append(fs[:i], append([]field{{gen.Pick(r, []string{"extra", "Key", "keys", ""}), mpAny(r, 0)}}, fs[i:]...)...)
		w.Count("msg-unknown-field")
	case 3: // wrong type for a known field
		i := r.Intn(len(fs))
		fs[i].val = mpAny(r, 0)
		w.Count("msg-wrong-type")
	case 4: // duplicate field (last wins)
		i := r.Intn(len(fs))
		fs = append(fs, field{fs[i].name, fs[i].val})
		if fs[i].name == "key" {
			fs[len(fs)-1].val = mpStr("second")
		}
		w.Count("msg-dup-field")
	case 5: // no fields at all
		fs = nil
		w.Count("msg-empty-map")
	case 6: // level in a wider encoding
		fs[2].val = gen.Pick(r, [][]byte{{0xcd, 0x21, 0x21}, {0xd0, 0x41}, {0xd0, 0x81}, {0xcc, 0xff}, {0xd1, 0x21, 0x21}})
		w.Count("msg-wide-level")
	}
	out := []byte{0x80 | byte(len(fs))}
	if r.Chance(1, 20) { // map header disagrees with the entries
		out[0] = 0x80 | byte(r.Intn(6))
		w.Count("msg-bad-mapcount")
	}
	for _, f := range fs {
		if f.name != "" && r.Chance(1, 15) {
			out = append(out, 0xc4, byte(len(f.name))) // bin8 key: only header-safe for len>=32; mostly rejected
			out = append(out, f.name...)
		} else {
			out = append(out, mpStr(f.name)...)
		}
		out = append(out, f.val...)
	}
	return out
}

func genCookie(r *gen.Rand, w *gen.Writer) string {
	switch r.Intn(16) {
	case 0:
		w.Count("cookie-leftover-probe")
		return gen.Pick(r, []string{"\x91\x80", "\x92\x80\x80", "\x93\x80\x80\x80", "\x91\x81\xa3key\xa1k", "\x92\x81\xa5level\x41\x80"})
	case 1:
		w.Count("cookie-huge-count")
		if r.Chance(1, 8) { // run in a child process with an address-space limit: kept rare
			return gen.Pick(r, []string{"\xdd\xff\xff\xff\xff", "\xdd\x21\x21\x21\x21", "\xdd\xff\xff\xff\xff\x80", "\xdd\x2f\xff\xff\xff"})
		}
		return gen.Pick(r, []string{"\xdc\xff\xff", "\xdc\x21\x21\x80\x80", "\xdc\xff\xff\x80",
			"\xdc\xff\xff" + string(bytesOf(200, 0x80)), "\x9f", "\x9f\x80\x80",
			"\x91\xdf\xff\xff\xff\xff", "\x91\x81\xa1x\xdd\xff\xff\xff\xff", "\x91\x81\xa1x\xdf\xff\xff\xff\xff\xa1a"})
	case 2:
		w.Count("cookie-garbage")
		n := 1 + r.Intn(10)
		b := make([]byte, n)
		for i := range b {
			b[i] = safeByte(r)
		}
		return string(b)
	case 3:
		w.Count("cookie-ctl")
		return "\x91\x84\xa3key\xa1k\xa5value\xa1v\xa5level" + string([]byte{byte(r.Intn(32))}) + "\xaaisOldInput\xc2"
	case 4:
		w.Count("cookie-empty")
		return gen.Pick(r, []string{"", " ", "\x90", "\"\x90\""})
	case 5, 6:
		// a flash message and an old input under the SAME key, in either order (plus repeats of a
		// kind and an unrelated key): what the keyed readers Message(k) / OldInput(k) must tell apart
		w.Count("cookie-key-collision")
		key := gen.Pick(r, []string{"email", "name", "id", "", genStr(r, true)})
		old := r.Bool()
		if old {
			w.Count("cookie-collision-old-first")
		} else {
			w.Count("cookie-collision-flash-first")
		}
		n := 2 + r.Intn(3)
		var body []byte
		for i := 0; i < n; i++ {
			k := key
			if i > 0 && r.Chance(1, 6) {
				k = gen.Pick(r, []string{"other", "Email", key + "x"})
			}
			body = append(body, mpMsg(k, genStr(r, true), genLevel(r, true), old)...)
			if r.Chance(3, 4) {
				old = !old
			}
		}
		return string(append(mpArr(n), body...))
	}
	n := r.Intn(4)
	if r.Chance(1, 10) {
		n = 16 + r.Intn(3) // array16 header contains a NUL: rejected on the wire
	}
	var body []byte
	for i := 0; i < n; i++ {
		body = append(body, genMsgBytes(r, w)...)
	}
	hdr := mpArr(n)
	switch r.Intn(10) {
	case 0:
		hdr = mpArr(n + 1 + r.Intn(3))
		w.Count("cookie-count-too-big")
	case 1:
		if n > 0 {
			hdr = mpArr(n - 1)
			w.Count("cookie-count-too-small")
		}
	}
	out := append(hdr, body...)
	switch r.Intn(10) {
	case 0:
		if len(out) > 1 {
			out = out[:1+r.Intn(len(out)-1)]
			w.Count("cookie-truncated")
		}
	case 1:
		out = append(out, gen.Pick(r, [][]byte{{0x80}, {0xc0}, {0x41}, {0x90}})...)
		w.Count("cookie-trailing")
	}
	w.Count("cookie-structured")
	return string(out)
}

func genCookies(r *gen.Rand, w *gen.Writer) []string {
	n := 1 + r.Intn(3)
	var cs []string
	for i := 0; i < n; i++ {
		c := genCookie(r, w)
		// CR / LF would end (or be folded out of) the Cookie header line: not a cookie value any more
		c = strings.ReplaceAll(strings.ReplaceAll(c, "\n", "\x0b"), "\r", "\x0c")
		cs = append(cs, c)
	}
	return cs
}
