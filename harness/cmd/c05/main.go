// Harness for C05 (requests are isolated from each other despite context pooling).
//
// One case = a history of 0..8 requests followed by a probe request, all structured (method, path,
// query, wire-sent fiber_flash cookie, malformation, handler script). The real fiber app (fixed route
// table, one generic handler that executes the script attached to the request) is served through
// fasthttp's own connection loop (app.Server().ServeConn on an in-memory conn; one goroutine,
// GOMAXPROCS(1), GC off during the case so that sync.Pool hands the same objects back). Every request
// is raw wire bytes, so RawHeaders() sees the flash cookie. The probe's handler records the modelled
// observation vector P (route params, flash messages, old input, view bindings, locals, base URL)
// and the full vector (every text-yielding accessor found by reflection); together with the probe's
// response (status, headers, body). The same probe is then served by a FRESH app after all
// sync.Pools have been emptied (two GC cycles). The case line carries P on the fresh app, the list of
// full-vector entries that differ, and P after the history (the implementation's observation).
//
// Modes: 0 one connection per request, 1 keep-alive pipelining, 2 concurrent mix (four workers on one
// app), 3/4 = 0/1 with a custom context (app.NewCtxFunc: customRequestHandler / nextCustom).
// The app's ErrorHandler plants state in every channel (view binding, redirect message + status, binder
// mode, base URL) before answering like the default one: it runs for 404, 405, handler errors and - via
// serverErrorHandler - for requests fasthttp rejects (bad = 1 control byte in a header, 2 garbage request
// line, 3 request cut off in the middle of its headers).
package main

import (
	"bufio"
	"bytes"
	"compress/gzip"
	"encoding/hex"
	"encoding/json"
	"fmt"
	"io"
	"net"
	"os"
	"os/exec"
	"path/filepath"
	"reflect"
	"runtime"
	"runtime/debug"
	"sort"
	"strconv"
	"strings"
	"sync"
	"time"

	"github.com/gofiber/fiber/v3"
	"github.com/gofiber/fiber/v3/log"
	recovermw "github.com/gofiber/fiber/v3/middleware/recover"

	"verifharness/internal/gen"
)

// ---------------------------------------------------------------------------------------------
// structured requests

type kv struct{ k, v string }

type action struct {
	op   string
	args []string
}

type request struct {
	method   string
	path     string
	host     string
	query    []kv
	hasFlash bool
	flash    string // raw cookie value
	bad      int    // 0 well-formed, 1 control byte in a header value, 2 garbage request line, 3 truncated headers
	script   []action
}

func isWord(s string) bool {
	if s == "" || len(s) > 24 {
		return false
	}
	for i := 0; i < len(s); i++ {
		c := s[i]
		if !(c >= 'a' && c <= 'z' || c >= '0' && c <= '9') {
			return false
		}
	}
	return true
}

func isPath(p string) bool {
	if len(p) < 2 || p[0] != '/' || len(p) > 60 {
		return false
	}
	for _, seg := range strings.Split(p[1:], "/") {
		if !isWord(strings.ReplaceAll(seg, "-", "a")) {
			return false
		}
	}
	return true
}

func isHost(h string) bool {
	if h == "" || len(h) > 40 {
		return false
	}
	for _, l := range strings.Split(h, ".") {
		if !isWord(l) {
			return false
		}
	}
	return true
}

var opArity = map[string]int{"vb": 2, "lo": 2, "wi": 3, "in": 0, "rs": 1, "to": 1, "ba": 0, "bq": 0, "sh": 2, "bu": 0, "er": 1, "ob": 0, "sf": 2}

// extArity: the actions only the extended application (modes 5-7, see newSite) knows. Control flow:
// nx = return c.Next(), rr = return c.RestartRouting(), pa = c.Path(override), pn = panic (recovered by the
// recover middleware), ee = the handler fails and the application's ErrorHandler fails as well (fiber
// answers 500 itself). Response side: ss = SendStream(reader, size), su = SendStream(reader) (chunked),
// sw = SendStreamWriter, st = Status, ty = Type, ap = Append, va = Vary, li = Links, fm = Format,
// ck = Cookie, js = JSON, at = Attachment, lc = Location.
var extArity = map[string]int{"nx": 0, "rr": 0, "pa": 1, "pn": 0, "ee": 0, "ss": 0, "su": 0, "sw": 0, "st": 1, "ty": 1, "ap": 2,
	"va": 1, "li": 2, "fm": 0, "ck": 2, "js": 1, "at": 1, "lc": 1}

func (a action) valid(ext bool) bool {
	n, ok := opArity[a.op]
	if !ok && ext {
		n, ok = extArity[a.op]
	}
	if !ok || len(a.args) != n {
		return false
	}
	switch a.op {
	case "pa", "lc":
		return isPath(a.args[0]) || a.args[0] == "/"
	case "st":
		return a.args[0] == "201" || a.args[0] == "202" || a.args[0] == "404" || a.args[0] == "418" || a.args[0] == "503"
	case "ty":
		return a.args[0] == "json" || a.args[0] == "html" || a.args[0] == "png" || a.args[0] == "txt"
	case "ap":
		return (a.args[0] == "X-A" || a.args[0] == "X-B" || a.args[0] == "Vary" || a.args[0] == "Link") && isWord(a.args[1])
	case "va", "js", "at":
		return isWord(a.args[0])
	case "li", "ck":
		return isWord(a.args[0]) && isWord(a.args[1])
	case "vb", "lo":
		return isWord(a.args[0]) && isWord(a.args[1])
	case "sh":
		return (a.args[0] == "X-A" || a.args[0] == "X-B") && isWord(a.args[1])
	case "wi":
		l, err := strconv.Atoi(a.args[2])
		return isWord(a.args[0]) && isWord(a.args[1]) && err == nil && l >= 0 && l <= 255 && a.args[2] == strconv.Itoa(l)
	case "rs":
		return a.args[0] == "301" || a.args[0] == "303" || a.args[0] == "307" || a.args[0] == "308" || a.args[0] == "302"
	case "er":
		return a.args[0] == "400" || a.args[0] == "403" || a.args[0] == "404" || a.args[0] == "500" || a.args[0] == "503"
	case "to":
		return isPath(a.args[0])
	case "sf":
		_, ok := sendFileConfig(a.args[0])
		return ok && (a.args[1] == "0" || a.args[1] == "1" || a.args[1] == "2")
	}
	return true
}

// ---------------------------------------------------------------------------------------------
// SendFile: two directories with a file of the same name and different contents; a configuration is six
// digits: FS (0 none = absolute path into directory A, 1 os.DirFS(A), 2 os.DirFS(B)), Compress, ByteRange,
// Download, CacheDuration (0 default, 1 negative, 2 one hour), MaxAge (0, 60, 3600). The second argument
// of the action says which request header accompanies it: 0 none, 1 `Range: bytes=0-3`, 2
// `Accept-Encoding: gzip`. App.sendfiles caches {fasthttp FS handler, Cache-Control value} per
// configuration: a lookup that ignores a field hands a request the handler / header of an earlier one.

var sfDirA, sfDirB string

const sfName = "f.txt"

func sfContent(c byte) []byte { return bytes.Repeat([]byte(strings.Repeat(string(c), 9)+"\n"), 60) }

func setupFiles() {
	base, err := os.MkdirTemp("", "c05-sendfile-")
	if err != nil {
		panic(err)
	}
	sfDirA, sfDirB = filepath.Join(base, "a"), filepath.Join(base, "b")
	old := time.Date(2020, 1, 2, 3, 4, 5, 0, time.UTC)
	for dir, c := range map[string]byte{sfDirA: 'a', sfDirB: 'b'} {
		if err := os.MkdirAll(dir, 0o755); err != nil {
			panic(err)
		}
		f := filepath.Join(dir, sfName)
		if err := os.WriteFile(f, sfContent(c), 0o644); err != nil {
			panic(err)
		}
		_ = os.Chtimes(f, old, old)
	}
}

func sendFileConfig(code string) (fiber.SendFile, bool) {
	var cfg fiber.SendFile
	if len(code) != 6 {
		return cfg, false
	}
	for i := 0; i < 6; i++ {
		max := byte('1')
		if i == 0 || i >= 4 {
			max = '2'
		}
		if code[i] < '0' || code[i] > max {
			return cfg, false
		}
	}
	switch code[0] {
	case '1':
		cfg.FS = os.DirFS(sfDirA)
	case '2':
		cfg.FS = os.DirFS(sfDirB)
	}
	cfg.Compress, cfg.ByteRange, cfg.Download = code[1] == '1', code[2] == '1', code[3] == '1'
	cfg.CacheDuration = []time.Duration{0, -time.Second, time.Hour}[code[4]-'0']
	cfg.MaxAge = []int{0, 60, 3600}[code[5]-'0']
	return cfg, true
}

func sendFilePath(code string) string {
	if code[0] == '0' {
		return filepath.Join(sfDirA, sfName)
	}
	return sfName
}

func (q request) valid(ext bool) bool {
	switch q.method {
	case "GET", "POST", "PUT", "FOO":
	case "HEAD":
		if !ext {
			return false
		}
	default:
		return false
	}
	if !(isPath(q.path) || ext && q.path == "/") || q.bad < 0 || q.bad > 3 || !isHost(q.host) {
		return false
	}
	for _, p := range q.query {
		if !isWord(p.k) || !isWord(p.v) {
			return false
		}
	}
	if q.hasFlash {
		// bytes that would change the framing of the Cookie header itself are outside the vocabulary
		// (control bytes make the whole request malformed: that is what bad=1 is for)
		for i := 0; i < len(q.flash); i++ {
			c := q.flash[i]
			if c < 0x21 || c == 0x7f || c == ';' || c == '"' || c == ',' || c == '\\' {
				return false
			}
		}
	} else if q.flash != "" {
		return false
	}
	nob, nsf := 0, 0
	for _, a := range q.script {
		if !a.valid(ext) {
			return false
		}
		if a.op == "ob" {
			nob++
		}
		if a.op == "sf" {
			nsf++
		}
	}
	return nob <= 1 && nsf <= 1
}

func hx(s string) string { return gen.Hex(s) }

func (q request) encode() string {
	qs := "-"
	if len(q.query) > 0 {
		ps := make([]string, len(q.query))
		for i, p := range q.query {
			ps[i] = hx(p.k) + "=" + hx(p.v)
		}
		qs = strings.Join(ps, ",")
	}
	fl := "n"
	if q.hasFlash {
		fl = "c:" + hx(q.flash)
	}
	sc := "-"
	if len(q.script) > 0 {
		as := make([]string, len(q.script))
		for i, a := range q.script {
			parts := []string{a.op}
			for _, x := range a.args {
				parts = append(parts, hx(x))
			}
			as[i] = strings.Join(parts, ":")
		}
		sc = strings.Join(as, ",")
	}
	return strings.Join([]string{hx(q.method), hx(q.path), qs, fl, strconv.Itoa(q.bad), sc, hx(q.host)}, "|")
}

func unhex(s string) (string, bool) {
	if s == "-" {
		return "", true
	}
	b, err := hex.DecodeString(s)
	return string(b), err == nil
}

func decodeRequest(s string, ext bool) (q request, ok bool) {
	f := strings.Split(s, "|")
	if len(f) != 7 {
		return q, false
	}
	var o1, o2, o3 bool
	q.method, o1 = unhex(f[0])
	q.path, o2 = unhex(f[1])
	q.host, o3 = unhex(f[6])
	if !o1 || !o2 || !o3 {
		return q, false
	}
	if f[2] != "-" {
		for _, p := range strings.Split(f[2], ",") {
			i := strings.IndexByte(p, '=')
			if i < 0 {
				return q, false
			}
			k, ok1 := unhex(p[:i])
			v, ok2 := unhex(p[i+1:])
			if !ok1 || !ok2 {
				return q, false
			}
			q.query = append(q.query, kv{k, v})
		}
	}
	switch {
	case f[3] == "n":
	case strings.HasPrefix(f[3], "c:"):
		q.hasFlash = true
		if q.flash, ok = unhex(f[3][2:]); !ok {
			return q, false
		}
	default:
		return q, false
	}
	bad, err := strconv.Atoi(f[4])
	if err != nil {
		return q, false
	}
	q.bad = bad
	if f[5] != "-" {
		for _, a := range strings.Split(f[5], ",") {
			parts := strings.Split(a, ":")
			act := action{op: parts[0]}
			for _, x := range parts[1:] {
				v, ok := unhex(x)
				if !ok {
					return q, false
				}
				act.args = append(act.args, v)
			}
			q.script = append(q.script, act)
		}
	}
	return q, q.valid(ext)
}

func (q request) wire(id int) []byte {
	var b bytes.Buffer
	if q.bad == 2 {
		b.WriteString("GARBAGE\r\n\r\n")
		return b.Bytes()
	}
	uri := q.path
	if len(q.query) > 0 {
		ps := make([]string, len(q.query))
		for i, p := range q.query {
			ps[i] = p.k + "=" + p.v
		}
		uri += "?" + strings.Join(ps, "&")
	}
	fmt.Fprintf(&b, "%s %s HTTP/1.1\r\nHost: %s\r\nX-Req-Id: %d\r\n", q.method, uri, q.host, id)
	if q.bad == 1 {
		b.WriteString("X-Bad: a\x01b\r\n")
	}
	if q.hasFlash {
		fmt.Fprintf(&b, "Cookie: sid=s1; %s=%s\r\n", fiber.FlashCookieName, q.flash)
	}
	for _, a := range q.script {
		if a.op == "sf" && a.args[1] == "1" {
			b.WriteString("Range: bytes=0-3\r\n")
			break
		} else if a.op == "sf" && a.args[1] == "2" {
			b.WriteString("Accept-Encoding: gzip\r\n")
			break
		}
	}
	if q.method != "GET" && q.method != "HEAD" {
		b.WriteString("Content-Length: 0\r\n")
	}
	b.WriteString("\r\n")
	if q.bad == 3 {
		return b.Bytes()[:b.Len()-7] // the connection ends in the middle of the header block
	}
	return b.Bytes()
}

// ---------------------------------------------------------------------------------------------
// the application under test

type viewEngine struct{}

func (*viewEngine) Load() error { return nil }
func (v *viewEngine) Render(out io.Writer, _ string, binding any, _ ...string) error {
	m, _ := binding.(fiber.Map)
	keys := make([]string, 0, len(m))
	for k := range m {
		keys = append(keys, k)
	}
	sort.Strings(keys)
	var parts []string
	for _, k := range keys {
		parts = append(parts, k, fmt.Sprint(m[k]))
	}
	_, err := io.WriteString(out, gen.HexList(parts)) // the handler picks the dump up from the response body
	return err
}

type probeObs struct {
	seen   bool
	params []string
	msgs   []string
	old    []string
	view   string
	locals []string
	base   string
	full   map[string]string
}

type site struct {
	app     *fiber.App
	scripts map[int][]action
	mu      sync.Mutex
	obsBy   map[int]*probeObs // keyed by the local port of the connection the probe came in on
}

type bindN struct {
	N int `query:"n"`
}

func fmtMsg(k, v string, level uint8, old bool) string {
	o := "0"
	if old {
		o = "1"
	}
	return hx(k) + "." + hx(v) + "." + strconv.Itoa(int(level)) + "." + o
}

// customCtx is what an application gets from the documented NewCtxFunc pattern.
type customCtx struct {
	fiber.DefaultCtx
}

// errorHandler is an application error page: it touches every per-request channel of the context and
// then answers like the default handler.
func errorHandler(c fiber.Ctx, err error) error {
	_ = c.ViewBind(fiber.Map{"eh": "1"})
	c.Redirect().With("eh", "1", 7).Status(307)
	c.Bind().WithAutoHandling()
	_ = c.BaseURL()
	if err == errAbort {
		// the error page fails as well (after it has planted its state and started a response): the request
		// handler answers with a bare 500
		c.Status(503).Set("X-A", "eh")
		c.Append("Vary", "Eh")
		return err
	}
	return fiber.DefaultErrorHandler(c, err)
}

var errAbort = fmt.Errorf("abort")

// newSite builds the application under test. ext: the extended application of modes 5-7 - in front of
// everything the recover middleware, behind the base routes the catch-alls `/+` and `/*`; its handlers
// know the control-flow and response-side actions of extArity. The extended application is outside the
// Lean model (the driver reports these cases as outside-model); the oracle (history vs fresh app, modelled
// vector + full vector + raw reply) is the same.
func newSite(custom, ext bool) *site {
	s := &site{scripts: map[int][]action{}, obsBy: map[int]*probeObs{}}
	s.app = fiber.New(fiber.Config{Views: &viewEngine{}, ErrorHandler: errorHandler})
	if ext {
		s.app.Use(recovermw.New(recovermw.Config{EnableStackTrace: false}))
	}
	if custom {
		s.app.NewCtxFunc(func(app *fiber.App) fiber.CustomCtx {
			return &customCtx{DefaultCtx: *fiber.NewDefaultCtx(app)}
		})
	}
	s.app.Use(func(c fiber.Ctx) error {
		c.Set("X-Mw", "1")
		return c.Next()
	})
	h := s.handle
	gp, g := []string{"GET", "POST"}, []string{"GET"}
	if ext {
		gp, g = []string{"GET", "HEAD", "POST"}, []string{"GET", "HEAD"} // what app.Get registers
	}
	s.app.Add(gp, "/p/:a/:b", h)
	s.app.Add(gp, "/q/:x?", h)
	s.app.Add(gp, "/s/*", h)
	s.app.Add(gp, "/plain", h)
	s.app.Add([]string{"POST"}, "/only-post", h)
	s.app.Add(g, "/t", h)
	if ext {
		s.app.Add(gp, "/+", h)
		s.app.Add(gp, "/*", h)
	}
	_ = s.app.Handler() // startupProcess: builds the route tree
	return s
}

func (s *site) handle(c fiber.Ctx) error {
	id, _ := strconv.Atoi(c.Get("X-Req-Id"))
	errCode := 0
	sent := false
	for _, a := range s.scripts[id] {
		switch a.op {
		case "vb":
			_ = c.ViewBind(fiber.Map{a.args[0]: a.args[1]})
		case "lo":
			c.Locals(a.args[0], a.args[1])
		case "wi":
			l, _ := strconv.Atoi(a.args[2])
			c.Redirect().With(a.args[0], a.args[1], uint8(l))
		case "in":
			c.Redirect().WithInput()
		case "rs":
			n, _ := strconv.Atoi(a.args[0])
			c.Redirect().Status(n)
		case "to":
			_ = c.Redirect().To(a.args[0])
		case "ba":
			c.Bind().WithAutoHandling()
		case "bq":
			_ = c.Bind().Query(new(bindN))
		case "sh":
			c.Set(a.args[0], a.args[1])
		case "bu":
			_ = c.BaseURL()
		case "er":
			errCode, _ = strconv.Atoi(a.args[0])
		case "ob":
			s.observe(c)
		case "sf":
			cfg, _ := sendFileConfig(a.args[0])
			if err := c.SendFile(sendFilePath(a.args[0]), cfg); err == nil {
				sent = true
			}
		// ---- extended application only (extArity). Control flow happens once per request: a handler
		// that is entered again (after Next / RestartRouting) skips these actions.
		case "nx", "rr":
			if c.Locals("again") == nil {
				c.Locals("again", "1")
				if a.op == "nx" {
					return c.Next()
				}
				return c.RestartRouting()
			}
		case "pa":
			if c.Locals("again") == nil {
				_ = c.Path(a.args[0])
			}
		case "pn":
			if c.Locals("again") == nil {
				panic("boom")
			}
		case "ee":
			return errAbort
		case "ss":
			body := "stream:" + strings.Clone(c.Path())
			_ = c.SendStream(strings.NewReader(body), len(body))
			sent = true
		case "su":
			_ = c.SendStream(strings.NewReader("chunked:" + strings.Clone(c.Path())))
			sent = true
		case "sw":
			body := "writer:" + strings.Clone(c.Path())
			_ = c.SendStreamWriter(func(w *bufio.Writer) {
				_, _ = w.WriteString(body[:3])
				_ = w.Flush()
				_, _ = w.WriteString(body[3:])
			})
			sent = true
		case "st":
			n, _ := strconv.Atoi(a.args[0])
			c.Status(n)
		case "ty":
			c.Type(a.args[0])
		case "ap":
			c.Append(a.args[0], a.args[1])
		case "va":
			c.Vary(a.args[0])
		case "li":
			c.Links("http://h/"+a.args[0], a.args[1])
		case "fm":
			if err := c.Format(
				fiber.ResFmt{MediaType: "text/plain", Handler: func(c fiber.Ctx) error { return c.SendString("plain") }},
				fiber.ResFmt{MediaType: "application/json", Handler: func(c fiber.Ctx) error { return c.JSON(fiber.Map{"f": 1}) }},
			); err == nil {
				sent = true
			}
		case "ck":
			c.Cookie(&fiber.Cookie{Name: a.args[0], Value: a.args[1], Path: "/", HTTPOnly: true})
		case "js":
			if err := c.JSON(fiber.Map{"v": a.args[0]}); err == nil {
				sent = true
			}
		case "at":
			c.Attachment(a.args[0] + ".txt")
		case "lc":
			c.Location(a.args[0])
		}
	}
	if errCode != 0 {
		return fiber.NewError(errCode, "e"+strconv.Itoa(errCode))
	}
	if sent {
		return nil // the file is the response
	}
	return c.SendString("ok")
}

func (s *site) observe(c fiber.Ctx) {
	o := &probeObs{seen: true, full: map[string]string{}}
	for _, n := range c.Route().Params {
		// without Immutable the value is only valid until the handler returns: keep a private copy
		o.params = append(o.params, strings.Clone(c.Params(n)))
	}
	for _, m := range c.Redirect().Messages() {
		o.msgs = append(o.msgs, fmtMsg(m.Key, m.Value, m.Level, false))
	}
	for _, m := range c.Redirect().OldInputs() {
		o.old = append(o.old, fmtMsg(m.Key, m.Value, 0, true))
	}
	_ = c.Render("v", fiber.Map{})
	o.view = string(c.Response().Body())
	c.Response().ResetBody()
	for _, k := range []string{"u", "r"} {
		if v, ok := c.Locals(k).(string); ok {
			o.locals = append(o.locals, v)
		} else {
			o.locals = append(o.locals, "<nil>")
		}
	}
	o.base = c.BaseURL()
	fullVector(c, o.full)
	port := 0
	if a, ok := c.RequestCtx().LocalAddr().(*net.TCPAddr); ok {
		port = a.Port
	}
	s.mu.Lock()
	s.obsBy[port] = o
	s.mu.Unlock()
}

var tErr = reflect.TypeOf((*error)(nil)).Elem()

func hasText(t reflect.Type, depth int) bool {
	if depth > 4 {
		return false
	}
	switch t.Kind() {
	case reflect.String:
		return true
	case reflect.Slice, reflect.Array:
		return t.Elem().Kind() == reflect.Uint8 || hasText(t.Elem(), depth+1)
	case reflect.Map:
		return hasText(t.Key(), depth+1) || hasText(t.Elem(), depth+1)
	case reflect.Struct:
		for i := 0; i < t.NumField(); i++ {
			if t.Field(i).IsExported() && hasText(t.Field(i).Type, depth+1) {
				return true
			}
		}
	}
	return false
}

func flatten(v reflect.Value, out *[]string, depth int) {
	if depth > 6 || !v.IsValid() {
		return
	}
	switch v.Kind() {
	case reflect.String:
		*out = append(*out, v.String())
	case reflect.Slice, reflect.Array:
		if v.Type().Elem().Kind() == reflect.Uint8 {
			if v.Kind() == reflect.Slice {
				*out = append(*out, string(v.Bytes()))
			}
			return
		}
		for i := 0; i < v.Len(); i++ {
			flatten(v.Index(i), out, depth+1)
		}
	case reflect.Map:
		type ent struct {
			k string
			v reflect.Value
		}
		var es []ent
		it := v.MapRange()
		for it.Next() {
			var ks []string
			flatten(it.Key(), &ks, depth+1)
			es = append(es, ent{strings.Join(ks, "\x1f"), it.Value()})
		}
		sort.Slice(es, func(i, j int) bool { return es[i].k < es[j].k })
		for _, e := range es {
			*out = append(*out, e.k)
			flatten(e.v, out, depth+1)
		}
	case reflect.Struct:
		for i := 0; i < v.NumField(); i++ {
			if v.Type().Field(i).IsExported() {
				flatten(v.Field(i), out, depth+1)
			}
		}
	case reflect.Interface, reflect.Ptr:
		if v.Type().Implements(tErr) {
			if v.IsNil() {
				*out = append(*out, "")
			} else {
				*out = append(*out, "err")
			}
		}
	case reflect.Int, reflect.Int8, reflect.Int16, reflect.Int32, reflect.Int64:
		*out = append(*out, fmt.Sprint(v.Int()))
	case reflect.Uint, reflect.Uint8, reflect.Uint16, reflect.Uint32, reflect.Uint64:
		*out = append(*out, fmt.Sprint(v.Uint()))
	case reflect.Bool:
		*out = append(*out, fmt.Sprint(v.Bool()))
	}
}

// fullVector: every text-yielding accessor of fiber.Ctx (found by reflection, keyed ones with a
// fixed key set), the Route() metadata and a Bind() of every source into map targets.
func fullVector(c fiber.Ctx, full map[string]string) {
	call := func(id string, f func() []reflect.Value) {
		var out []string
		func() {
			defer func() {
				if r := recover(); r != nil {
					out = []string{"panic"}
				}
			}()
			for _, v := range f() {
				flatten(v, &out, 0)
			}
		}()
		full[id] = gen.HexList(out)
	}
	cv := reflect.ValueOf(c)
	ct := reflect.TypeOf((*fiber.Ctx)(nil)).Elem()
	keys := []string{"a", "b", "x", "*", "n", "name", "tag", "sid", fiber.FlashCookieName, "Host", "Cookie", "X-Req-Id", "X-Mw", "X-A", "X-B", "Set-Cookie", "Location", "Allow", "Content-Type", "zz"}
	for i := 0; i < ct.NumMethod(); i++ {
		m := ct.Method(i)
		if m.PkgPath != "" {
			continue // unexported interface methods cannot be called from outside the package
		}
		if m.Name == "String" { // carries the connection sequence number: differs by construction
			continue
		}
		mt := m.Type
		text := false
		for o := 0; o < mt.NumOut(); o++ {
			if hasText(mt.Out(o), 0) {
				text = true
			}
		}
		if !text {
			continue
		}
		fn := cv.MethodByName(m.Name)
		fixed := mt.NumIn()
		if mt.IsVariadic() {
			fixed--
		}
		switch {
		case fixed == 0 && mt.IsVariadic() && mt.In(0).Elem().Kind() == reflect.String && strings.HasPrefix(m.Name, "Accepts"):
			call(m.Name, func() []reflect.Value {
				return fn.Call([]reflect.Value{reflect.ValueOf("html"), reflect.ValueOf("json")})
			})
		case fixed == 0:
			call(m.Name, func() []reflect.Value { return fn.Call(nil) })
		case fixed == 1 && mt.In(0).Kind() == reflect.String:
			for _, k := range keys {
				k := k
				call(m.Name+"("+k+")", func() []reflect.Value { return fn.Call([]reflect.Value{reflect.ValueOf(k)}) })
			}
		case fixed == 1 && mt.In(0).Kind() == reflect.Int:
			call(m.Name+"(1000)", func() []reflect.Value { return fn.Call([]reflect.Value{reflect.ValueOf(1000)}) })
		}
	}
	r := c.Route()
	full["Route"] = gen.HexList(append([]string{r.Method, r.Path, r.Name}, r.Params...))
	b := c.Bind()
	for name, f := range map[string]func(any) error{"Query": b.Query, "Header": b.Header, "Cookie": b.Cookie, "Form": b.Form, "URI": b.URI, "RespHeader": b.RespHeader} {
		f := f
		call("Bind."+name, func() []reflect.Value {
			t := map[string][]string{}
			err := f(&t)
			return []reflect.Value{reflect.ValueOf(t), reflect.ValueOf(&err).Elem()}
		})
	}
}

// ---------------------------------------------------------------------------------------------
// serving through fasthttp's connection loop

type memConn struct {
	r     *bytes.Reader
	w     bytes.Buffer
	lport int
}

func (c *memConn) Read(p []byte) (int, error)  { return c.r.Read(p) }
func (c *memConn) Write(p []byte) (int, error) { return c.w.Write(p) }
func (*memConn) Close() error                  { return nil }
func (c *memConn) LocalAddr() net.Addr {
	return &net.TCPAddr{IP: net.IPv4(127, 0, 0, 1), Port: c.lport}
}
func (*memConn) RemoteAddr() net.Addr             { return &net.TCPAddr{IP: net.IPv4(10, 0, 0, 7), Port: 4242} }
func (*memConn) SetDeadline(time.Time) error      { return nil }
func (*memConn) SetReadDeadline(time.Time) error  { return nil }
func (*memConn) SetWriteDeadline(time.Time) error { return nil }

// serveConn feeds the given wire bytes to one connection and returns everything the server wrote.
func (s *site) serveConn(in []byte, lport int) []byte {
	c := &memConn{r: bytes.NewReader(in), lport: lport}
	_ = s.app.Server().ServeConn(c)
	return c.w.Bytes()
}

// response: a leniently parsed HTTP/1.1 response (flash cookies carry arbitrary bytes, which strict
// client parsers refuse).
type response struct {
	status  int
	headers []kv // in wire order, names as sent
	body    []byte
	rawHead []byte
}

func (r *response) peek(name string) (string, bool) {
	for _, h := range r.headers {
		if strings.EqualFold(h.k, name) {
			return h.v, true
		}
	}
	return "", false
}

// lastResponse splits the bytes written on a connection into responses (Content-Length or chunked
// framing; heads[i]: response i answers a HEAD request and has no body whatever its headers say) and
// returns the last one.
func lastResponse(out []byte, heads []bool) (*response, bool) {
	var last *response
	for n := 0; len(out) > 0; n++ {
		// fasthttp ends the reply to a HEAD request whose handler set a body stream of unknown size with an
		// empty line of its own: skip empty lines in front of a status line
		for bytes.HasPrefix(out, []byte("\r\n")) {
			out = out[2:]
		}
		if len(out) == 0 {
			break
		}
		i := bytes.Index(out, []byte("\r\n\r\n"))
		if i < 0 {
			return nil, false
		}
		head := out[:i]
		lines := strings.Split(string(head), "\r\n")
		sl := strings.SplitN(lines[0], " ", 3)
		if len(sl) < 2 || !strings.HasPrefix(sl[0], "HTTP/1.") {
			return nil, false
		}
		st, err := strconv.Atoi(sl[1])
		if err != nil {
			return nil, false
		}
		r := &response{status: st}
		var kept []string
		kept = append(kept, lines[0])
		cl := 0
		chunked := false
		for _, l := range lines[1:] {
			j := strings.IndexByte(l, ':')
			if j < 0 {
				return nil, false
			}
			k, v := l[:j], strings.TrimLeft(l[j+1:], " ")
			if strings.EqualFold(k, "Date") {
				continue // wall clock
			}
			if strings.EqualFold(k, "Content-Length") {
				if cl, err = strconv.Atoi(v); err != nil {
					return nil, false
				}
			}
			if strings.EqualFold(k, "Transfer-Encoding") && strings.EqualFold(v, "chunked") {
				chunked = true
			}
			r.headers = append(r.headers, kv{k, v})
			kept = append(kept, l)
		}
		rest := out[i+4:]
		switch {
		case n < len(heads) && heads[n]:
			out = rest
		case chunked:
			for {
				j := bytes.Index(rest, []byte("\r\n"))
				if j < 0 {
					return nil, false
				}
				sz, err := strconv.ParseInt(strings.TrimSpace(string(rest[:j])), 16, 32)
				if err != nil || int(sz)+j+4 > len(rest) {
					return nil, false
				}
				r.body = append(r.body, rest[j+2:j+2+int(sz)]...)
				rest = rest[j+2+int(sz)+2:]
				if sz == 0 {
					break
				}
			}
			out = rest
		default:
			if cl > len(rest) {
				return nil, false
			}
			r.body = rest[:cl]
			out = rest[cl:]
		}
		r.rawHead = []byte(strings.Join(kept, "\r\n"))
		last = r
	}
	return last, last != nil
}

const probeID = 999

// serveSeq serves hist then probe on connections with local port lport (mode 0: one connection per
// request; mode 1: keep-alive pipelining, a malformed request ends its connection) and returns the
// bytes of the connection the probe was on.
func (s *site) serveSeq(mode int, hist []request, probe request, idBase, lport int) ([]byte, []bool) {
	all := append(append([]request{}, hist...), probe)
	ids := make([]int, len(all))
	for i := range all {
		ids[i] = idBase + i
		if i == len(all)-1 {
			ids[i] = probeID // the probe carries the same id after a history and on the fresh app
		}
	}
	var out []byte
	var heads, pending []bool // which responses on the last connection answer HEAD requests
	if mode == 1 {
		var buf bytes.Buffer
		flush := func() {
			if buf.Len() > 0 {
				out = s.serveConn(buf.Bytes(), lport)
				heads, pending = pending, nil
				buf.Reset()
			}
		}
		for i, q := range all {
			buf.Write(q.wire(ids[i]))
			pending = append(pending, q.method == "HEAD" && q.bad == 0)
			if q.bad != 0 {
				flush()
			}
		}
		flush()
	} else {
		for i, q := range all {
			out = s.serveConn(q.wire(ids[i]), lport)
			heads = []bool{q.method == "HEAD" && q.bad == 0}
		}
	}
	return out, heads
}

func (s *site) setScripts(hist []request, probe request, idBase int) {
	for i, q := range hist {
		s.scripts[idBase+i] = q.script
	}
	s.scripts[probeID] = probe.script
}

// run serves hist then probe; returns the probe's P and its full vector.
// mode 2: the concurrent mix - four workers serve the same history and probe at the same time
// (GOMAXPROCS 4) against ONE app, so pooled contexts and Redirect objects travel between them; every
// worker's probe must observe the same; a deviating worker's observation is the one reported.
func run(mode int, hist []request, probe request) (string, map[string]string) {
	s := newSite(mode == 3 || mode == 4 || mode == 7, mode >= 5)
	if mode != 2 {
		s.setScripts(hist, probe, 0)
		connMode := mode % 3 // 0/3: one connection per request, 1/4: keep-alive
		if mode >= 5 {
			connMode = 1 // 6/7: keep-alive
			if mode == 5 {
				connMode = 0
			}
		}
		out, heads := s.serveSeq(connMode, hist, probe, 0, 80)
		resp, ok := lastResponse(out, heads)
		if !ok {
			if os.Getenv("C05_DEBUG") != "" {
				fmt.Fprintf(os.Stderr, "unparsed reply (heads %v):\n%q\n", heads, out)
			}
			return "noresponse", nil
		}
		return s.renderP(resp, 80), s.fullOf(resp, 80)
	}
	const workers = 4
	for w := 0; w < workers; w++ {
		s.setScripts(hist, probe, 1000*(w+1))
	}
	prev := runtime.GOMAXPROCS(workers)
	outs := make([][]byte, workers)
	headss := make([][]bool, workers)
	var wg sync.WaitGroup
	for w := 0; w < workers; w++ {
		wg.Add(1)
		go func(w int) {
			defer wg.Done()
			outs[w], headss[w] = s.serveSeq(w%2, hist, probe, 1000*(w+1), 81+w)
		}(w)
	}
	wg.Wait()
	runtime.GOMAXPROCS(prev)
	var p0 string
	var f0 map[string]string
	for w := 0; w < workers; w++ {
		resp, ok := lastResponse(outs[w], headss[w])
		if !ok {
			return "noresponse", nil
		}
		p, f := s.renderP(resp, 81+w), s.fullOf(resp, 81+w)
		if w == 0 {
			p0, f0 = p, f
			continue
		}
		if p != p0 {
			return p, f
		}
		for k, v := range f {
			if f0[k] != v {
				f0[k] = f0[k] + "|" + v // surfaces as a full-vector difference against the fresh app
			}
		}
	}
	return p0, f0
}

func (s *site) fullOf(resp *response, lport int) map[string]string {
	full := map[string]string{}
	if o := s.obsBy[lport]; o != nil {
		for k, v := range o.full {
			full[k] = v
		}
	}
	// the flash cookie written by WithInput ranges over a Go map: compare it decoded and sorted
	head := string(resp.rawHead)
	for _, h := range resp.headers {
		if strings.EqualFold(h.k, "Set-Cookie") && strings.HasPrefix(h.v, fiber.FlashCookieName+"=") {
			val := h.v[len(fiber.FlashCookieName)+1:]
			rest := ""
			if i := strings.IndexByte(val, ';'); i >= 0 {
				val, rest = val[:i], val[i:]
			}
			if msgs, ok := decodeFlash([]byte(val)); ok {
				head = strings.Replace(head, h.v, fiber.FlashCookieName+"=<"+list(msgs)+">"+rest, 1)
			}
		}
	}
	full["response"] = hex.EncodeToString([]byte(head)) + "/" + hex.EncodeToString(resp.body)
	return full
}

// decodeFlash decodes the fixed layout produced by redirectionMsgs.MarshalMsg.
func decodeFlash(b []byte) ([]string, bool) {
	pos := 0
	need := func(n int) bool { return pos+n <= len(b) }
	rdStr := func() (string, bool) {
		if !need(1) {
			return "", false
		}
		c := b[pos]
		pos++
		n := 0
		switch {
		case c >= 0xa0 && c <= 0xbf:
			n = int(c & 0x1f)
		case c == 0xd9:
			if !need(1) {
				return "", false
			}
			n = int(b[pos])
			pos++
		case c == 0xda:
			if !need(2) {
				return "", false
			}
			n = int(b[pos])<<8 | int(b[pos+1])
			pos += 2
		default:
			return "", false
		}
		if !need(n) {
			return "", false
		}
		s := string(b[pos : pos+n])
		pos += n
		return s, true
	}
	if !need(1) {
		return nil, false
	}
	cnt := 0
	switch c := b[pos]; {
	case c >= 0x90 && c <= 0x9f:
		cnt = int(c & 0x0f)
		pos++
	case c == 0xdc && need(3):
		cnt = int(b[pos+1])<<8 | int(b[pos+2])
		pos += 3
	default:
		return nil, false
	}
	var out []string
	for i := 0; i < cnt; i++ {
		if !need(1) || b[pos] != 0x84 {
			return nil, false
		}
		pos++
		var key, val string
		var level uint8
		var old bool
		for f := 0; f < 4; f++ {
			name, ok := rdStr()
			if !ok {
				return nil, false
			}
			switch name {
			case "key":
				key, ok = rdStr()
			case "value":
				val, ok = rdStr()
			case "level":
				if !need(1) {
					return nil, false
				}
				if b[pos] == 0xcc {
					if !need(2) {
						return nil, false
					}
					level = b[pos+1]
					pos += 2
				} else if b[pos] < 0x80 {
					level = b[pos]
					pos++
				} else {
					return nil, false
				}
			case "isOldInput":
				if !need(1) || (b[pos] != 0xc2 && b[pos] != 0xc3) {
					return nil, false
				}
				old = b[pos] == 0xc3
				pos++
			default:
				return nil, false
			}
			if !ok {
				return nil, false
			}
		}
		out = append(out, fmtMsg(key, val, level, old))
	}
	if pos != len(b) {
		return nil, false
	}
	sort.Strings(out) // WithInput ranges over a Go map: order is not part of the observation
	return out, true
}

func list(xs []string) string {
	if len(xs) == 0 {
		return "-"
	}
	return strings.Join(xs, ",")
}

// renderP: the canonical modelled observation.
func (s *site) renderP(resp *response, lport int) string {
	sc := "none"
	for _, h := range resp.headers {
		if !strings.EqualFold(h.k, "Set-Cookie") || !strings.HasPrefix(h.v, fiber.FlashCookieName+"=") {
			continue
		}
		val := h.v[len(fiber.FlashCookieName)+1:]
		if i := strings.IndexByte(val, ';'); i >= 0 {
			val = val[:i]
		}
		switch {
		case val == "":
			sc = "expire"
		default:
			if msgs, ok := decodeFlash([]byte(val)); ok {
				sc = "m:" + list(msgs)
			} else {
				sc = "raw:" + hex.EncodeToString([]byte(val))
			}
		}
	}
	var xh []string
	for _, k := range []string{"X-Mw", "X-A", "X-B"} {
		if v, ok := resp.peek(k); ok {
			xh = append(xh, k+"="+v)
		}
	}
	pk := func(k string) string { v, _ := resp.peek(k); return v }
	o := s.obsBy[lport]
	if o == nil {
		o = &probeObs{}
	}
	seen := "0"
	if o.seen {
		seen = "1"
	}
	base := o.base
	view := o.view
	if !o.seen {
		view = "-"
	}
	sorted := func(xs []string) []string {
		ys := append([]string{}, xs...)
		sort.Strings(ys)
		return ys
	}
	body := resp.body
	if pk("Content-Encoding") == "gzip" {
		if zr, err := gzip.NewReader(bytes.NewReader(body)); err == nil {
			if plain, err := io.ReadAll(zr); err == nil {
				body = plain // the observation is the decoded body + the fact that it was encoded
			}
		}
	}
	return fmt.Sprintf("st=%d;ct=%s;loc=%s;sc=%s;xh=%s;al=%s;cc=%s;cd=%s;ce=%s;cr=%s;body=%s;ob=%s;params=%s;msgs=%s;old=%s;view=%s;locals=%s;base=%s",
		resp.status, hx(pk("Content-Type")), hx(pk("Location")), sc, gen.HexList(xh), hx(pk("Allow")),
		hx(pk("Cache-Control")), hx(pk("Content-Disposition")), hx(pk("Content-Encoding")), hx(pk("Content-Range")),
		hx(string(body)), seen, gen.HexList(o.params), list(o.msgs), list(sorted(o.old)), view, gen.HexList(o.locals), hx(base))
}

func emptyPools() {
	runtime.GC()
	runtime.GC()
}

func observeCase(mode int, hist []request, probe request) (fresh, diff, impl string) {
	emptyPools()
	pHist, fullHist := run(mode, hist, probe)
	emptyPools()
	freshMode := 0
	if mode == 3 || mode == 4 {
		freshMode = 3 // the fresh app is of the same kind
	} else if mode == 7 {
		freshMode = 7
	} else if mode >= 5 {
		freshMode = 5
	}
	pFresh, fullFresh := run(freshMode, nil, probe)
	var d []string
	for k, v := range fullFresh {
		if fullHist[k] != v {
			d = append(d, strings.NewReplacer(",", "_", ";", "_", "|", "_").Replace(k))
		}
	}
	for k := range fullHist {
		if _, ok := fullFresh[k]; !ok {
			d = append(d, strings.NewReplacer(",", "_", ";", "_", "|", "_").Replace(k))
		}
	}
	sort.Strings(d)
	return pFresh, list(d), pHist
}

func encodeAll(rs []request) string {
	if len(rs) == 0 {
		return "-"
	}
	out := make([]string, len(rs))
	for i, r := range rs {
		out[i] = r.encode()
	}
	return strings.Join(out, ";")
}

func emit(w *gen.Writer, id string, mode int, hist []request, probe request) {
	fresh, diff, impl := observeCase(mode, hist, probe)
	w.Case(id, strconv.Itoa(mode), encodeAll(hist), probe.encode(), fresh, diff, impl)
}

// ---------------------------------------------------------------------------------------------
// generator

var words = []string{"alpha", "bravo", "carol", "delta", "x", "y1", "zz9", "k", "admin", "guest", "u", "r", "tmp", "secret"}
var lkeys = []string{"u", "r", "tmp"}
var vkeys = []string{"title", "user", "k"}
var mkeys = []string{"status", "name", "k", "note"}

// extCase: set per case; the requests of an extended case (modes 5-7) use the extended vocabulary
var extCase bool

func genPath(r *gen.Rand) string {
	w := func() string { return gen.Pick(r, words) }
	if extCase && r.Chance(1, 3) {
		// the catch-alls: `/` only matches `/*` (empty parameter), the others match `/+` first
		switch r.Intn(4) {
		case 0:
			return "/"
		case 1:
			return "/" + w()
		case 2:
			return "/" + w() + "/" + w() + "/" + w()
		}
		return "/zz/" + w()
	}
	switch r.Intn(12) {
	case 0, 1, 2:
		return "/p/" + w() + "/" + w()
	case 3:
		return "/q"
	case 4, 5:
		return "/q/" + w()
	case 6:
		if r.Chance(1, 4) {
			return "/s" // the wildcard matches the empty string
		}
		return "/s/" + w()
	case 7:
		return "/s/" + w() + "/" + w()
	case 8:
		return "/plain"
	case 9:
		return "/only-post"
	case 10:
		return "/t"
	}
	return "/zz/" + w()
}

func msgpStr(s string) []byte {
	if len(s) < 32 {
		return append([]byte{0xa0 | byte(len(s))}, s...)
	}
	return append([]byte{0xd9, byte(len(s))}, s...)
}

// genFlash builds a cookie from msgpack building blocks: complete messages, messages with missing or
// unknown fields, empty maps, truncations, trailing bytes, oversized counts.
func genFlash(r *gen.Rand) string {
	n := r.Intn(4)
	var b []byte
	count := n
	switch r.Intn(10) {
	case 0:
		count = n + 1 + r.Intn(3) // announces more messages than follow
	case 1:
		count = 15
	}
	if count > 15 {
		count = 15
	}
	b = append(b, 0x90|byte(count))
	for i := 0; i < n; i++ {
		type fld struct {
			name string
			val  []byte
		}
		lv := gen.Pick(r, []byte{0x21, 0x7e, 0x2a, 0x30})
		all := []fld{{"key", msgpStr(gen.Pick(r, mkeys))}, {"value", msgpStr(gen.Pick(r, words))}, {"level", []byte{lv}},
			{"isOldInput", []byte{gen.Pick(r, []byte{0xc2, 0xc3})}}}
		var fs []fld
		for _, f := range all {
			if !r.Chance(1, 4) {
				fs = append(fs, f)
			}
		}
		if r.Chance(1, 6) {
			fs = append(fs, fld{"extra", gen.Pick(r, [][]byte{{0xc0}, {0xc3}, {0x2a}, msgpStr("zz"), {0x92, 0x2a, 0xc0}, {0x81, 0xa1, 'k', 0x2b}})})
		}
		if r.Chance(1, 8) {
			// wrong type for a known field
			fs = append(fs, fld{gen.Pick(r, []string{"key", "level", "isOldInput"}), gen.Pick(r, [][]byte{{0xc0}, {0x92, 0x2a, 0x2a}})})
		}
		b = append(b, 0x80|byte(len(fs)))
		for _, f := range fs {
			b = append(b, msgpStr(f.name)...)
			b = append(b, f.val...)
		}
	}
	switch r.Intn(12) {
	case 0:
		if len(b) > 1 {
			b = b[:1+r.Intn(len(b)-1)] // truncated
		}
	case 1:
		b = append(b, 0xc0) // trailing byte
	case 2:
		b = []byte{0x91, 0x80} // one empty map: the classic leftover probe
	case 3:
		b = []byte{0x93, 0x80, 0x80, 0x80}
	case 4:
		b = nil // empty cookie value
	}
	return string(b)
}

// sendFileCase: set per case; only then do requests call SendFile (keeps the number of leaked fasthttp FS
// handlers per process small)
var sendFileCase bool

func genScript(r *gen.Rand, probe bool) []action {
	var sc []action
	n := r.Intn(5)
	for i := 0; i < n; i++ {
		switch r.Intn(11) {
		case 0, 1:
			sc = append(sc, action{"vb", []string{gen.Pick(r, vkeys), gen.Pick(r, words)}})
		case 2:
			sc = append(sc, action{"lo", []string{gen.Pick(r, lkeys), gen.Pick(r, words)}})
		case 3, 4:
			sc = append(sc, action{"wi", []string{gen.Pick(r, mkeys), gen.Pick(r, words), strconv.Itoa(gen.Pick(r, []int{0, 1, 5, 33, 127, 128, 255}))}})
		case 5:
			sc = append(sc, action{"in", nil})
		case 6:
			sc = append(sc, action{"rs", []string{gen.Pick(r, []string{"301", "303", "307", "308"})}})
		case 7:
			sc = append(sc, action{"ba", nil})
		case 8:
			sc = append(sc, action{"sh", []string{gen.Pick(r, []string{"X-A", "X-B"}), gen.Pick(r, words)}})
		case 9:
			sc = append(sc, action{"bu", nil})
		case 10:
			sc = append(sc, action{"bq", nil})
		}
	}
	if sendFileCase && r.Chance(1, 2) {
		// SendFile: configurations cluster around a few base points so that histories often contain a
		// configuration that differs from the probe's in exactly one field
		code := []byte(gen.Pick(r, []string{"000000", "000000", "100000", "000001", "010002", "001000"}))
		for n := r.Intn(3); n > 0; n-- {
			i := r.Intn(6)
			max := 2
			if i >= 1 && i <= 3 {
				max = 1
			}
			code[i] = byte('0' + r.Intn(max+1))
		}
		hdr := "0"
		if code[2] == '1' && r.Chance(2, 3) {
			hdr = "1"
		} else if code[1] == '1' && r.Chance(2, 3) {
			hdr = "2"
		} else if r.Chance(1, 3) {
			hdr = strconv.Itoa(1 + r.Intn(2))
		}
		pos := r.Intn(len(sc) + 1)
		sc = append(sc[:pos], append([]action{{"sf", []string{string(code), hdr}}}, sc[pos:]...)...)
	}
	if extCase {
		// extended application: response-side helpers anywhere, at most one control-flow action (with an
		// optional path override in front of it), at most one streamed body
		for n := r.Intn(4); n > 0; n-- {
			var a action
			switch r.Intn(10) {
			case 0:
				a = action{"st", []string{gen.Pick(r, []string{"201", "202", "404", "418", "503"})}}
			case 1:
				a = action{"ty", []string{gen.Pick(r, []string{"json", "html", "png", "txt"})}}
			case 2:
				a = action{"ap", []string{gen.Pick(r, []string{"X-A", "X-B", "Vary", "Link"}), gen.Pick(r, words)}}
			case 3:
				a = action{"va", []string{gen.Pick(r, []string{"origin", "accept", "x"})}}
			case 4:
				a = action{"li", []string{gen.Pick(r, words), gen.Pick(r, []string{"next", "last"})}}
			case 5:
				a = action{"fm", nil}
			case 6:
				a = action{"ck", []string{gen.Pick(r, []string{"sid", "k", "theme"}), gen.Pick(r, words)}}
			case 7:
				a = action{"js", []string{gen.Pick(r, words)}}
			case 8:
				a = action{"at", []string{gen.Pick(r, words)}}
			case 9:
				a = action{"lc", []string{gen.Pick(r, []string{"/t", "/plain", "/"})}}
			}
			pos := r.Intn(len(sc) + 1)
			sc = append(sc[:pos], append([]action{a}, sc[pos:]...)...)
		}
		if r.Chance(1, 3) {
			a := action{gen.Pick(r, []string{"ss", "su", "sw"}), nil}
			pos := r.Intn(len(sc) + 1)
			sc = append(sc[:pos], append([]action{a}, sc[pos:]...)...)
		}
		if r.Chance(1, 2) {
			var cf []action
			if r.Chance(1, 2) {
				cf = append(cf, action{"pa", []string{gen.Pick(r, []string{"/q", "/q/" + gen.Pick(r, words), "/s", "/s/" + gen.Pick(r, words), "/p/" + gen.Pick(r, words) + "/" + gen.Pick(r, words), "/", "/" + gen.Pick(r, words), "/plain", "/t", "/zz/" + gen.Pick(r, words)})}})
			}
			switch r.Intn(8) {
			case 0, 1, 2:
				cf = append(cf, action{"rr", nil})
			case 3, 4:
				cf = append(cf, action{"nx", nil})
			case 5:
				cf = append(cf, action{"pn", nil})
			case 6:
				cf = append(cf, action{"ee", nil})
			}
			pos := r.Intn(len(sc) + 1)
			sc = append(sc[:pos], append(cf, sc[pos:]...)...)
		}
	}
	if probe {
		// the probe looks at everything, then (often) redirects / binds so that leftover redirect
		// state and binder mode become visible in its response
		pos := r.Intn(len(sc) + 1)
		sc = append(sc[:pos], append([]action{{"ob", nil}}, sc[pos:]...)...)
		if r.Chance(1, 2) {
			sc = append(sc, action{"bq", nil})
		}
		if r.Chance(2, 3) {
			sc = append(sc, action{"to", []string{"/t"}})
		}
	} else {
		if r.Chance(1, 4) {
			sc = append(sc, action{"to", []string{gen.Pick(r, []string{"/t", "/plain"})}})
		}
		if r.Chance(1, 8) {
			sc = append(sc, action{"er", []string{gen.Pick(r, []string{"400", "403", "404", "500", "503"})}})
		}
	}
	return sc
}

func genRequest(r *gen.Rand, probe bool) request {
	q := request{method: gen.Pick(r, []string{"GET", "GET", "GET", "POST", "POST", "PUT", "FOO"}), path: genPath(r),
		host: gen.Pick(r, []string{"h.example.com", "h.example.com", "admin.internal", "shop.example.org", "localhost"})}
	if probe && r.Chance(3, 4) {
		q.method = gen.Pick(r, []string{"GET", "POST"})
	}
	if extCase && r.Chance(1, 4) {
		q.method = "HEAD" // answered by the GET handlers; its reply reuses what the previous reply left of the body buffer
	}
	for i := r.Intn(3); i > 0; i-- {
		q.query = append(q.query, kv{gen.Pick(r, []string{"n", "name", "tag"}), gen.Pick(r, []string{"1", "42", "abc", "x", "007"})})
	}
	if r.Chance(2, 5) {
		q.hasFlash = true
		q.flash = genFlash(r)
		for i := 0; i < len(q.flash); i++ {
			if c := q.flash[i]; c < 0x21 || c == 0x7f || c == ';' || c == '"' || c == ',' || c == '\\' {
				q.hasFlash, q.flash = false, ""
				break
			}
		}
	}
	if !probe && r.Chance(1, 8) {
		q.bad = 1 + r.Intn(3)
	}
	q.script = genScript(r, probe)
	return q
}

// runChildren re-executes this binary for consecutive ranges of case numbers and copies the children's
// case lines and distribution counters into w.
func runChildren(w *gen.Writer, o gen.Opts, chunk int) {
	self, err := os.Executable()
	if err != nil {
		panic(err)
	}
	for from := 0; from < o.N; from += chunk {
		to := from + chunk
		if to > o.N {
			to = o.N
		}
		tmp := fmt.Sprintf("%s.part%d", o.Out, from)
		// a crashed child is re-run once alone; its stderr is kept (head first: the goroutine dump of a
		// Go fatal error is long and the orchestrator only shows the tail of our output)
		var lastErr error
		var errOut bytes.Buffer
		for attempt := 0; attempt < 2; attempt++ {
			errOut.Reset()
			cmd := exec.Command(self, "-seed", strconv.FormatUint(o.Seed, 10), "-n", strconv.Itoa(o.N), "-tier", o.Tier, "-out", tmp)
			cmd.Env = append(os.Environ(), fmt.Sprintf("C05_CHILD=%d:%d", from, to))
			cmd.Stderr = &errOut
			if lastErr = cmd.Run(); lastErr == nil {
				break
			}
			head := errOut.Bytes()
			if len(head) > 1500 {
				head = head[:1500]
			}
			crash := fmt.Sprintf("%s.crash%d.%d.stderr", o.Out, from, attempt)
			_ = os.WriteFile(crash, errOut.Bytes(), 0o644)
			fmt.Fprintf(os.Stderr, "child %d:%d attempt %d: %v; stderr kept in %s; it begins:\n%s\n", from, to, attempt, lastErr, crash, head)
			w.Count("child-crash")
		}
		if lastErr != nil {
			panic(fmt.Sprintf("child %d:%d crashed twice: %v", from, to, lastErr))
		}
		f, err := os.Open(tmp)
		if err != nil {
			panic(err)
		}
		sc := bufio.NewScanner(f)
		sc.Buffer(make([]byte, 1<<20), 1<<26)
		for sc.Scan() {
			fs := strings.Split(sc.Text(), "\t")
			switch {
			case fs[0] == "case" && len(fs) > 2:
				w.Case(fs[1], fs[2:]...)
			case fs[0] == "dist" && len(fs) == 2:
				m := map[string]int{}
				if json.Unmarshal([]byte(fs[1]), &m) == nil {
					for k, n := range m {
						for ; n > 0; n-- {
							w.Count(k)
						}
					}
				}
			}
		}
		f.Close()
		os.Remove(tmp)
	}
}

func main() {
	log.SetOutput(io.Discard)
	runtime.GOMAXPROCS(1)
	debug.SetGCPercent(-1)
	o := gen.ParseFlags()
	w := gen.NewWriter(o.Out)
	defer w.Close()
	setupFiles()
	defer os.RemoveAll(filepath.Dir(sfDirA))
	if o.Replay != "" {
		for _, f := range gen.ReplayInputs(o.Replay) {
			if len(f) < 4 || len(f[1]) != 1 || f[1][0] < '0' || f[1][0] > '7' {
				continue
			}
			bad := false
			var hist []request
			if f[2] != "-" {
				for _, s := range strings.Split(f[2], ";") {
					q, ok := decodeRequest(s, f[1] >= "5")
					if !ok {
						bad = true
						break
					}
					hist = append(hist, q)
				}
			}
			probe, ok := decodeRequest(f[3], f[1] >= "5")
			if bad || !ok || probe.bad != 0 || len(hist) > 12 {
				w.Case(f[0], f[1], f[2], f[3], "invalid", "-", "invalid")
				continue
			}
			mode, _ := strconv.Atoi(f[1])
			emit(w, f[0], mode, hist, probe)
		}
		return
	}
	// Every app that calls SendFile leaves fasthttp FS handlers behind (a cache-cleaning goroutine and
	// cached open files each, for the life of the process). Generated cases therefore run in child
	// processes of `chunk` cases; the parent only merges their output.
	const chunk = 250
	from, to := 0, o.N
	if env := os.Getenv("C05_CHILD"); env != "" {
		fmt.Sscanf(env, "%d:%d", &from, &to)
	} else if o.N > chunk {
		runChildren(w, o, chunk)
		return
	}
	root := gen.New(o.Seed)
	for i := from; i < to; i++ {
		r := root.Fork(uint64(i))
		var hist []request
		sendFileCase = r.Chance(1, 4)
		extCase = r.Chance(3, 20)
		for n := r.Intn(9); n > 0; n-- {
			hist = append(hist, genRequest(r, false))
		}
		probe := genRequest(r, true)
		mode := r.Intn(2)
		if (o.Tier == "thorough" && r.Chance(1, 4)) || r.Chance(1, 40) {
			mode = 2 // concurrent mix
		} else if r.Chance(1, 5) {
			mode += 3 // custom context
		}
		if extCase {
			mode = 5 + r.Intn(3) // extended application: one connection per request / keep-alive / keep-alive + custom context
			w.Count("ext-case")
		}
		w.Count(fmt.Sprintf("hist=%d", len(hist)))
		w.Count("mode=" + strconv.Itoa(mode))
		if sendFileCase {
			w.Count("sendfile-case")
		}
		if probe.hasFlash {
			w.Count("probe-flash")
		}
		for _, h := range hist {
			if h.hasFlash {
				w.Count("hist-flash")
			}
			if h.bad != 0 {
				w.Count("hist-malformed")
			}
		}
		emit(w, fmt.Sprintf("s%d.%d", o.Seed, i), mode, hist, probe)
	}
}
