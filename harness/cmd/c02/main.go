// Harness for C02: one route (GET or Use) on a fresh app, one request; the handler reports
// Params(name) for every declared name, Params(k) for the extra keys ("*", "+", the first name in
// upper and lower case), Path() and Route().Path. Public API only.
//
// case line:  id  cfg(3 bits: CaseSensitive StrictRouting UnescapePath)  mode(0 GET/1 Use/2 mounted GET)  pattern(hex)
//             path(hex, the request-URI path)  customs(hexlist: registered custom-constraint names)
//             vtf  vts  (verdict tables, recomputed from the real code on every run/replay)
//             observation
package main

import (
	"fmt"
	"io"
	"strconv"
	"strings"

	"github.com/gofiber/fiber/v3/log"

	"verifharness/cmd/c02/rt"
	"verifharness/internal/gen"
)

func okPath(p string) bool {
	// the request line: a path starting with '/', no query / fragment, not a scheme-relative "//host"
	return strings.HasPrefix(p, "/") && !strings.HasPrefix(p, "//") && !strings.ContainsAny(p, "?#") && len(p) <= 90
}

// mode: 0 = GET route, 1 = Use route, 2 = GET route of a sub-app mounted under rt.MountPrefix (path
// then is the full request path, prefix included)
func emit(w *gen.Writer, id string, cfg rt.Cfg, mode int, pattern, path string, customs []string) {
	emitHistory(w, id, cfg, mode, pattern, []string{path}, customs)
}

// emitHistory: one app, the requests served one after the other (see rt.ServeHistory). The path field
// is the hex path for a single request, the comma-separated hex paths for a history; the
// observation field holds one observation per request joined by '|'.
func emitHistory(w *gen.Writer, id string, cfg rt.Cfg, mode int, pattern string, paths []string, customs []string) {
	userPath := ""
	for _, p := range paths { // every path starts with '/', so '/'-free substrings never span two paths
		if cfg.Unescape {
			userPath += rt.Unquote(p)
		} else {
			userPath += p
		}
	}
	raw := pattern
	if raw == "" || raw[0] != '/' {
		raw = "/" + raw
	}
	vtf, vts := rt.Tables([]string{raw, rt.PrettyPattern(cfg, pattern)}, userPath, customs)
	obs := strings.Join(rt.ServeHistory(cfg, mode, pattern, paths, customs, true), "|")
	pf := gen.Hex(paths[0])
	if len(paths) > 1 {
		pf = gen.HexList(paths)
	}
	w.Case(id, cfg.String(), strconv.Itoa(mode), gen.Hex(pattern), pf, gen.HexList(customs), vtf, vts, obs)
}

func main() {
	log.SetOutput(io.Discard)
	o := gen.ParseFlags()
	w := gen.NewWriter(o.Out)
	defer w.Close()
	if o.Replay != "" {
		for _, f := range gen.ReplayInputs(o.Replay) {
			func() {
				defer func() { _ = recover() }() // mangled (shrunk) lines are skipped
				if len(f) < 6 {
					return
				}
				cfg, ok := rt.ParseCfg(f[1])
				if !ok || (f[2] != "0" && f[2] != "1" && f[2] != "2") {
					return
				}
				pattern := gen.UnHex(f[3])
				paths := []string{gen.UnHex(f[4])}
				if strings.Contains(f[4], ",") {
					paths = gen.UnHexList(f[4])
				}
				for _, p := range paths {
					if !okPath(p) {
						return
					}
				}
				emitHistory(w, f[0], cfg, int(f[2][0]-'0'), pattern, paths, gen.UnHexList(f[5]))
			}()
		}
		return
	}
	root := gen.New(o.Seed)
	per := 6
	for i := 0; i*per < o.N; i++ {
		r := root.Fork(uint64(i))
		var pattern string
		var g rt.GenPat
		malformed := r.Chance(1, 8)
		if malformed {
			pattern = rt.Malformed(r)
			w.Count("pattern-malformed")
		} else {
			g = rt.GenPattern(r)
			pattern = rt.PatternText(g.Toks)
			w.Count("pattern-grammar")
		}
		use := r.Chance(1, 4)
		mount := !use && !malformed && r.Chance(1, 8)
		for j := 0; j < per && i*per+j < o.N; j++ {
			cfg := rt.Cfg{CS: r.Bool(), Strict: r.Bool(), Unescape: r.Bool()}
			if !malformed && r.Chance(1, 5) { // a history: 2-4 requests on one app, values of equal length
				var paths []string
				for _, p := range g.FillHistory(r, 2+r.Intn(3)) {
					if !strings.HasPrefix(p, "/") {
						p = "/" + p
					}
					p = strings.NewReplacer("?", "", "#", "").Replace(p)
					for strings.HasPrefix(p, "//") {
						p = p[1:]
					}
					if !okPath(p) {
						p = "/"
					}
					paths = append(paths, p)
				}
				mode := 0
				if use {
					mode = 1
				} else if mount {
					mode = 2
					for k := range paths {
						paths[k] = rt.MountPrefix + paths[k]
					}
				}
				w.Count("history")
				emitHistory(w, fmt.Sprintf("s%d.%d.%d", o.Seed, i, j), cfg, mode, pattern, paths, g.Customs)
				continue
			}
			var path, kind string
			if malformed {
				filled := strings.NewReplacer("\\", "", "<", "", ">", "").Replace(pattern)
				path, kind = rt.Mutate(r, filled, pattern)
			} else {
				filled, _ := g.Fill(r)
				path, kind = rt.Mutate(r, filled, pattern)
			}
			if !strings.HasPrefix(path, "/") {
				path = "/" + path
			}
			if !okPath(path) {
				path = strings.NewReplacer("?", "", "#", "").Replace(path)
				for strings.HasPrefix(path, "//") {
					path = path[1:]
				}
				if !okPath(path) {
					path = "/"
				}
			}
			w.Count("path-" + kind)
			mode := 0
			if use {
				mode = 1
			} else if mount {
				mode = 2
				path = rt.MountPrefix + path
				w.Count("mode-mount")
			}
			emit(w, fmt.Sprintf("s%d.%d.%d", o.Seed, i, j), cfg, mode, pattern, path, g.Customs)
		}
	}
}
