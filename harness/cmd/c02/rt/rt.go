// Package rt: shared pieces of the C02/C03 harnesses — the pattern token grammar, filling, the
// custom constraints, the verdict tables for abstractly modelled constraints, and the function that
// runs the real fiber code (public API only) on one (config, route, request path).
package rt

import (
	"regexp"
	"sort"
	"strconv"
	"strings"
	"time"
	"unicode"

	"github.com/gofiber/fiber/v3"
	"github.com/google/uuid"
	"github.com/valyala/fasthttp"

	"verifharness/internal/gen"
)

// ---------------------------------------------------------------------------------------------
// configuration

type Cfg struct{ CS, Strict, Unescape bool }

func (c Cfg) String() string { return gen.B(c.CS) + gen.B(c.Strict) + gen.B(c.Unescape) }

func ParseCfg(s string) (Cfg, bool) {
	if len(s) != 3 || strings.Trim(s, "01") != "" {
		return Cfg{}, false
	}
	return Cfg{s[0] == '1', s[1] == '1', s[2] == '1'}, true
}

func (c Cfg) Fiber() fiber.Config {
	return fiber.Config{CaseSensitive: c.CS, StrictRouting: c.Strict, UnescapePath: c.Unescape}
}

// ---------------------------------------------------------------------------------------------
// custom constraints (registered through the public RegisterCustomConstraint)

type evenC struct{ name string }

func (e evenC) Name() string { return e.name }
func (evenC) Execute(param string, _ ...string) bool {
	return len(param)%2 == 0
}

type isinC struct{ name string }

func (i isinC) Name() string { return i.name }
func (isinC) Execute(param string, args ...string) bool {
	for _, a := range args {
		if a == param {
			return true
		}
	}
	return false
}

// CustomByName returns the harness' custom constraint for a name: names starting with "isin" are
// membership tests on the constraint data, every other name is "even length". A custom constraint
// may carry the name of a built-in (it then overrides it).
func CustomByName(name string) fiber.CustomConstraint {
	if strings.HasPrefix(strings.ToLower(name), "isin") {
		return isinC{name}
	}
	return evenC{name}
}

// ---------------------------------------------------------------------------------------------
// running the real code

// Serve registers the single route on a fresh app and dispatches GET path through app.Handler().
// Observation: "panic" (registration panicked), "ran=0;st=<status>", or
// "ran=1;st=<status>;path=<hex>;rpath=<hex>;names=<hexlist>;vals=<hexlist>".
func Serve(cfg Cfg, use bool, pattern, path string, customs []string) (obs string) {
	return ServeKeys(cfg, use, pattern, path, customs, false)
}

// asciiUpper / asciiLower: byte-wise ASCII case mapping (the Lean model's toUpper / toLower).
func asciiUpper(s string) string {
	b := []byte(s)
	for i := range b {
		if b[i] >= 'a' && b[i] <= 'z' {
			b[i] -= 32
		}
	}
	return string(b)
}

func asciiLower(s string) string {
	b := []byte(s)
	for i := range b {
		if b[i] >= 'A' && b[i] <= 'Z' {
			b[i] += 32
		}
	}
	return string(b)
}

// ExtraKeys: keys other than the declared names the handler also asks Params for — the bare
// wildcard keys (Params rewrites them to "*1" / "+1") and the first declared name in upper and in
// lower case (the case rule of the lookup).
func ExtraKeys(names []string) []string {
	keys := []string{"*", "+"}
	if len(names) > 0 {
		keys = append(keys, asciiUpper(names[0]), asciiLower(names[0]))
	}
	return keys
}

// ServeKeys is Serve; with extra it appends ";xk=<hexlist>": Params(k) for k in ExtraKeys(names).
func ServeKeys(cfg Cfg, use bool, pattern, path string, customs []string, extra bool) (obs string) {
	mode := 0
	if use {
		mode = 1
	}
	return ServeMode(cfg, mode, pattern, path, customs, extra)
}

// MountPrefix is where mode 2 mounts the sub-app that holds the route.
const MountPrefix = "/m"

// ServeMode: mode 0 = app.Get(pattern), 1 = app.Use(pattern), 2 = the route is a GET route of a
// sub-app mounted under MountPrefix (the parent splices it in through addPrefixToRoute at startup).
func ServeMode(cfg Cfg, mode int, pattern, path string, customs []string, extra bool) (obs string) {
	return ServeHistory(cfg, mode, pattern, []string{path}, customs, extra)[0]
}

// ServeHistory serves the requests one after the other, on the same goroutine, through the same
// app.Handler() and the same fasthttp.RequestCtx / Request objects, so that fiber's pooled ctx (and
// the path buffers the parameter values point into) are reused from one request to the next. One
// observation per request; a registration / startup panic gives the single observation "panic".
func ServeHistory(cfg Cfg, mode int, pattern string, paths []string, customs []string, extra bool) (out []string) {
	use := mode == 1
	app := fiber.New(cfg.Fiber())
	var sub *fiber.App
	if mode == 2 {
		sub = fiber.New(cfg.Fiber())
	}
	for _, n := range customs {
		app.RegisterCustomConstraint(CustomByName(n))
		if sub != nil {
			sub.RegisterCustomConstraint(CustomByName(n))
		}
	}
	var got string
	ran := 0
	h := func(c fiber.Ctx) error {
		ran++
		names := c.Route().Params
		vals := make([]string, len(names))
		for i, n := range names {
			vals[i] = c.Params(n)
		}
		got = ";path=" + gen.Hex(c.Path()) + ";rpath=" + gen.Hex(c.Route().Path) +
			";names=" + gen.HexList(names) + ";vals=" + gen.HexList(vals)
		if extra {
			keys := ExtraKeys(names)
			xv := make([]string, len(keys))
			for i, k := range keys {
				xv[i] = c.Params(k)
			}
			got += ";xk=" + gen.HexList(xv)
		}
		return c.SendStatus(200)
	}
	registered := func() (ok bool) {
		defer func() {
			if r := recover(); r != nil {
				ok = false
			}
		}()
		switch {
		case sub != nil:
			sub.Get(pattern, h)
			app.Use(MountPrefix, sub)
		case use:
			app.Use(pattern, h)
		default:
			app.Get(pattern, h)
		}
		return true
	}()
	if !registered {
		return []string{"panic"}
	}
	var handler fasthttp.RequestHandler
	started := func() (ok bool) { // a mounted route is parsed again at startup
		defer func() {
			if r := recover(); r != nil {
				ok = false
			}
		}()
		handler = app.Handler()
		return true
	}()
	if !started {
		return []string{"panic"}
	}
	var fctx fasthttp.RequestCtx
	var req fasthttp.Request
	for _, path := range paths {
		ran, got = 0, ""
		req.Reset()
		req.Header.SetMethod("GET")
		req.SetRequestURI(path)
		fctx.Init(&req, nil, nil)
		panicked := func() (p bool) {
			defer func() {
				if r := recover(); r != nil {
					p = true
				}
			}()
			handler(&fctx)
			return false
		}()
		if panicked { // a panic while serving: reported as status 599 (never a legitimate answer)
			out = append(out, "ran="+strconv.Itoa(ran)+";st=599"+got)
			continue
		}
		out = append(out, "ran="+strconv.Itoa(ran)+";st="+strconv.Itoa(fctx.Response.StatusCode())+got)
	}
	return out
}

// RPM calls the real RoutePatternMatch; "panic" if it panics.
func RPM(cfg Cfg, path, pattern string) (out string) {
	defer func() {
		if r := recover(); r != nil {
			out = "panic"
		}
	}()
	return gen.B(fiber.RoutePatternMatch(path, pattern, cfg.Fiber()))
}

// ---------------------------------------------------------------------------------------------
// verdict tables for the constraints the Lean model treats abstractly

type Constraint struct {
	Name string
	Data []string
	Raw  string // the constraint entry as written in the pattern
}

func (c Constraint) Key() string { return c.Name + "(" + strings.Join(c.Data, ",") + ")" }

func unesc(s string) string { return strings.ReplaceAll(s, "\\", "") }

func idxNonEscaped(s string, ch byte) int {
	for i := 0; i < len(s); i++ {
		if s[i] == ch && (i == 0 || s[i-1] != '\\') {
			return i
		}
	}
	return -1
}

func splitNonEscaped(s string, sep byte) []string {
	var out []string
	for {
		i := idxNonEscaped(s, sep)
		if i < 0 {
			return append(out, s)
		}
		out = append(out, s[:i])
		s = s[i+1:]
	}
}

// ExtractConstraints is the harness' own small reader of `<…>` sections (well-formed patterns
// only; on malformed text it may disagree with fiber, the model then misses the key and the driver
// tags the case outside-model).
func ExtractConstraints(pattern string) []Constraint {
	var out []Constraint
	for i := 0; i < len(pattern); i++ {
		if pattern[i] != '<' || (i > 0 && pattern[i-1] == '\\') {
			continue
		}
		j := strings.IndexByte(pattern[i:], '>')
		if j < 0 {
			break
		}
		// take the last '>' before the next parameter/segment boundary: constraints may hold '>'
		body := pattern[i+1 : i+j]
		for _, c := range splitNonEscaped(body, ';') {
			st := idxNonEscaped(c, '(')
			en := strings.LastIndexByte(c, ')')
			if st >= 0 && en > st {
				name := c[:st]
				var data []string
				if name == "regex" {
					data = []string{c[st+1 : en]}
				} else {
					data = splitNonEscaped(c[st+1:en], ',')
					if len(data) <= 2 {
						for k := range data {
							data[k] = unesc(data[k])
						}
					}
				}
				out = append(out, Constraint{name, data, c})
			} else {
				out = append(out, Constraint{c, nil, c})
			}
		}
		i += j
	}
	return out
}

var abstractBuiltin = map[string]bool{"float": true, "guid": true, "datetime": true, "regex": true, "alpha": true}

// stdVerdict: the documented meaning of a built-in constraint, computed with the Go standard
// library / google/uuid directly (not through fiber). Used by the spec oracle.
func stdVerdict(c Constraint, v string) bool {
	switch c.Name {
	case "float":
		_, err := strconv.ParseFloat(v, 32)
		return err == nil
	case "guid":
		_, err := uuid.Parse(v)
		return err == nil
	case "datetime":
		if len(c.Data) == 0 {
			return false
		}
		_, err := time.Parse(c.Data[0], v)
		return err == nil
	case "regex":
		if len(c.Data) == 0 {
			return false
		}
		re, err := regexp.Compile(c.Data[0])
		return err == nil && re.MatchString(v)
	case "alpha":
		for _, r := range v {
			if !unicode.IsLetter(r) {
				return false
			}
		}
		return true
	}
	return false
}

// fiberVerdict: what the real code answers for constraint text `raw` on value v, through the public
// RoutePatternMatch on a one-parameter pattern (case-sensitive, strict: no normalisation).
func fiberVerdict(raw, v string) bool {
	defer func() { _ = recover() }()
	return fiber.RoutePatternMatch("/"+v, "/:x<"+raw+">", fiber.Config{CaseSensitive: true, StrictRouting: true})
}

func isCustom(customs []string, name string) bool {
	for _, c := range customs {
		if c == name {
			return true
		}
	}
	return false
}

// Substrings returns the distinct non-empty '/'-free substrings of s.
func Substrings(s string) []string {
	seen := map[string]bool{}
	var out []string
	for i := 0; i < len(s); i++ {
		for j := i + 1; j <= len(s); j++ {
			if s[j-1] == '/' {
				break
			}
			if !seen[s[i:j]] {
				seen[s[i:j]] = true
				out = append(out, s[i:j])
			}
		}
	}
	return out
}

// Tables builds the two verdict tables for the abstractly modelled constraints occurring in the
// given pattern texts, over all '/'-free substrings of userPath:
//   vtf: verdicts of the real code (RoutePatternMatch / the registered custom constraint) — feeds the model
//   vts: verdicts by the standard library directly — feeds the spec oracle
// Format: `hex(key)=hexlist(values with verdict true)` joined by ';' ("-" when no abstract constraint).
func Tables(patterns []string, userPath string, customs []string) (vtf, vts string) {
	seen := map[string]bool{}
	var cons []Constraint
	for _, p := range patterns {
		for _, c := range ExtractConstraints(p) {
			if !(abstractBuiltin[c.Name] || isCustom(customs, c.Name)) || seen[c.Key()] {
				continue
			}
			seen[c.Key()] = true
			cons = append(cons, c)
		}
	}
	if len(cons) == 0 {
		return "-", "-"
	}
	subs := Substrings(userPath)
	sort.Strings(subs)
	var f, s []string
	for _, c := range cons {
		var tf, ts []string
		for _, v := range subs {
			var bf, bs bool
			if isCustom(customs, c.Name) {
				bf = CustomByName(c.Name).Execute(v, c.Data...)
				bs = bf
			} else {
				if c.Name == "alpha" {
					ascii := true
					for i := 0; i < len(v); i++ {
						if v[i] >= 128 {
							ascii = false
						}
					}
					if ascii {
						continue // modelled exactly
					}
				}
				bf = fiberVerdict(c.Raw, v)
				bs = stdVerdict(c, v)
			}
			if bf {
				tf = append(tf, v)
			}
			if bs {
				ts = append(ts, v)
			}
		}
		f = append(f, gen.Hex(c.Key())+"="+gen.HexList(tf))
		s = append(s, gen.Hex(c.Key())+"="+gen.HexList(ts))
	}
	return strings.Join(f, ";"), strings.Join(s, ";")
}

// Unquote = what fiber does to the path with UnescapePath (fasthttp.AppendUnquotedArg).
func Unquote(s string) string { return string(fasthttp.AppendUnquotedArg(nil, []byte(s))) }

// PrettyPattern mirrors the documented registration normalisation (lower-case unless CaseSensitive,
// trailing slashes removed unless StrictRouting); used only to know which constraint texts fiber
// will see, for the verdict tables.
func PrettyPattern(cfg Cfg, p string) string {
	if p == "" {
		p = "/"
	}
	if p[0] != '/' {
		p = "/" + p
	}
	if !cfg.CS {
		b := []byte(p)
		for i := range b {
			if b[i] >= 'A' && b[i] <= 'Z' {
				b[i] += 32
			}
		}
		p = string(b)
	}
	if !cfg.Strict && len(p) > 1 {
		p = strings.TrimRight(p, "/")
	}
	return p
}
