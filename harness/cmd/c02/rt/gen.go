package rt

import (
	"strconv"
	"strings"

	"verifharness/internal/gen"
)

// ---------------------------------------------------------------------------------------------
// pattern tokens

const (
	Lit = iota
	Named
	Star
	Plus
)

type Tok struct {
	Kind int
	Text string   // Lit: text as written in the pattern (may contain escapes)
	Name string   // Named
	Opt  bool     // Named
	Cons []string // Named: constraint entries as written
}

func (t Tok) String() string {
	switch t.Kind {
	case Lit:
		return t.Text
	case Star:
		return "*"
	case Plus:
		return "+"
	}
	s := ":" + t.Name
	if len(t.Cons) > 0 {
		s += "<" + strings.Join(t.Cons, ";") + ">"
	}
	if t.Opt {
		s += "?"
	}
	return s
}

func PatternText(toks []Tok) string {
	var sb strings.Builder
	for _, t := range toks {
		sb.WriteString(t.String())
	}
	return sb.String()
}

var firstLits = []string{"/", "/a", "/a/", "/ab", "/ab/", "/abc", "/abc/", "/api/", "/api/v1/", "/u/", "/A/", "/Ab/",
	"/flights/", "/x-", "/a.", "/test", "/foo", "/name\\:", "/@", "/-", "/.", "//", "/a//", "/a\\*", "/b\\+/"}
var midLits = []string{"/", "-", ".", "/a", "/a/", "-a", ".json", "/b/", "bar", "a", "~", "//", "--", "-.", "/-", "/x/y/", "v1",
	"\\:", "\\?", "/A", "_", "%", "/abc/", "cde", "/proxy", "/fixedEnd", "-a-"}
var names = []string{"x", "y", "z", "id", "Name", "p1", "from", "to", "ab", "Q"}

type consGen struct {
	text string
	vals []string
}

func rep(s string, n int) string {
	if n < 0 {
		n = 0
	}
	return strings.Repeat(s, n)
}

func numsAround(ns ...int) []string {
	var out []string
	for _, n := range ns {
		out = append(out, strconv.Itoa(n-1), strconv.Itoa(n), strconv.Itoa(n+1))
	}
	return append(out, "x", "", "+"+strconv.Itoa(ns[0]), "0"+strconv.Itoa(ns[0]))
}

func lensAround(ns ...int) []string {
	var out []string
	for _, n := range ns {
		out = append(out, rep("a", n-1), rep("b", n), rep("c", n+1))
	}
	return out
}

// floatVals: strconv.ParseFloat(_, 32) syntax classes (special values, sign, dot, exponent, hex
// mantissa with mandatory p exponent, underscores, leading zeros, long mantissas) and the float32
// overflow boundary 2^128 - 2^103 from both sides, in decimal and in hex.
var floatVals = []string{"1.5", "-2", "1e3", "nan", "inf", "1e400", "abc", ".5", "5.", "0x1p-2", "1_0.0", "1e39", "+Inf",
	"NaN", "-nan", "+nan", "infinity", "INFINITY", "-Infinity", "infin", "infinit", "infinityx", "in", "i", "n", "na", "nanx",
	"", "+", "-", ".", "e5", "1e", "1e+", "1e-", "1e+5", "1E5", "1e5x", "+.5e-3", "-.e1", "1..2", "1.2.3", "1e1.5",
	"0x1", "0x", "0x.p1", "0x1P+1", "0X1.8p1", "0x1.8", "0xap0", "0xgp0", "0x1pa", "0x1p", "0x1p+", "0x.8p1", "0x1.p0",
	"1_000.5", "1__0", "_1", "1_", "1_.5", "1._5", "1e1_0", "1e_1", "1e1_", "0x_1p0", "0x1_p0", "0_1", "0b1", "0b_1", "0o_7",
	"1e-400", "0e9999999", "1e99999999999", "1e-99999999999", "0.000000000000000000000000000000000000000000000001",
	"00000000000000000000001", "100000000000000000000000000000000000000", "1000000000000000000000000000000000000000",
	"340282346638528859811704183484516925440", "340282356779733661637539395458142568447",
	"340282356779733661637539395458142568448", "340282356779733661637539395458142568447.9", "340282356779733661637539395458142568449",
	"3.40282356779733661637539395458142568447e38", "3.40282356779733661637539395458142568448e38", "3.4028235e38", "3.4028236e38",
	"34028235677973366163753939545814256844800000e-5", "-340282356779733661637539395458142568448",
	"0x1.fffffep127", "0x1.ffffffp127", "0x1.fffffefp127", "0x1.fffffeffffffffffffffp127", "0x1.ffffff0000000000000001p127",
	"0x1p128", "0x1p127", "0x.ffffffp128", "0x.fffffefp128", "0x1p-200", "0x0p99999", "0x1p99999", "-0x1.ffffffp127",
	"1e38", "9e38", "0.1e40", "0.01e41", "12345678901234567890123456789e10", "12345678901234567890123456789e9", "٣", "1ÿ"}

// guidVals: google/uuid Parse by length class (36, 45 with urn prefix, 38 with two unchecked
// bytes around, 32 hex) and the ways each can fail.
var guidVals = []string{"123e4567-e89b-12d3-a456-426614174000", "{123e4567-e89b-12d3-a456-426614174000}",
	"urn:uuid:123e4567-e89b-12d3-a456-426614174000", "123e4567e89b12d3a456426614174000", "not-a-guid",
	"123E4567-E89B-12D3-A456-426614174000", "123e4567-e89b-12d3-a456-42661417400",
	"x123e4567-e89b-12d3-a456-426614174000y", "{123e4567-e89b-12d3-a456-42661417400g}", "URN:UUID:123e4567-e89b-12d3-a456-426614174000",
	"Urn:Uuid:123E4567-e89b-12d3-a456-426614174000", "urn:uuix:123e4567-e89b-12d3-a456-426614174000",
	"urn:uuid:123e4567-e89b-12d3-a456-42661417400g", "123E4567E89B12D3A456426614174000", "123e4567e89b12d3a45642661417400g",
	"123e4567-e89b-12d3-a456_426614174000", "123e4567ae89b-12d3-a456-426614174000", "123e4567-e89b-12d3-a456-4266141740000",
	"123e4567-e89b-12d3-a456-4266 4174000", "123e4567e89b12d3a4564266141740001", "é23e4567-e89b-12d3-a456-42661417400",
	"00000000-0000-0000-0000-000000000000", "ffffffff-ffff-ffff-ffff-ffffffffffff", "gfffffff-ffff-ffff-ffff-ffffffffffff"}

// genConstraint returns one constraint entry text and values on / off its boundary.
func genConstraint(r *gen.Rand) consGen {
	n := gen.Pick(r, []int{0, 1, 2, 3, 5, 10})
	m := n + gen.Pick(r, []int{0, 1, 2, 5, -1})
	ns, ms := strconv.Itoa(n), strconv.Itoa(m)
	switch r.Intn(26) {
	case 0, 1:
		return consGen{"int", []string{"0", "7", "42", "-3", "+5", "007", "12a", "1.5", "9223372036854775807",
			"9223372036854775808", "-9223372036854775808", "-9223372036854775809", "1_000", "0x10", "-", "+", "٣"}}
	case 2:
		return consGen{"bool", []string{"true", "false", "1", "0", "t", "F", "TRUE", "True", "tRue", "yes", "2", "T", "f"}}
	case 3:
		return consGen{"float", floatVals}
	case 4:
		return consGen{"alpha", []string{"abc", "ABC", "aBc", "ab1", "a_b", "é", "ñandú", "a b", "z", "\xff", "aé1"}}
	case 5:
		return consGen{"guid", guidVals}
	case 6:
		return consGen{gen.Pick(r, []string{"minLen", "minlen"}) + "(" + ns + ")", lensAround(n)}
	case 7:
		return consGen{gen.Pick(r, []string{"maxLen", "maxlen"}) + "(" + ns + ")", lensAround(n)}
	case 8:
		return consGen{"len(" + ns + ")", lensAround(n)}
	case 9:
		return consGen{gen.Pick(r, []string{"betweenLen", "betweenlen"}) + "(" + ns + "," + ms + ")", lensAround(n, m)}
	case 10:
		return consGen{"min(" + ns + ")", numsAround(n)}
	case 11:
		return consGen{"max(" + ns + ")", numsAround(n)}
	case 12:
		return consGen{"range(" + ns + "," + ms + ")", numsAround(n, m)}
	case 13:
		return consGen{"datetime(2006\\-01\\-02)", []string{"2020-01-02", "2020-13-02", "2020-1-2", "20200102", "2020-02-30", "1999-12-31", "abcdefghij"}}
	case 14:
		return consGen{"datetime(2006\\-01\\-02T15\\:04)", []string{"2020-01-02T10:30", "2020-01-02t10:30", "2020-01-02"}}
	case 15:
		return consGen{"regex(p([a-z]+)ch)", []string{"peach", "punch", "pch", "p1ch", "PEACH", "xpeachy", "Peach", "p1ach", "pxch", "pe-ch"}}
	case 16:
		return consGen{"regex(^[A-Z]+$)", []string{"ABC", "abc", "Abc", "A", "A1"}}
	case 17:
		return consGen{"regex(^\\d{4}$)", []string{"2024", "202", "20245", "abcd", "1999", "19a9"}}
	case 18:
		return consGen{"regex(^\\D+$)", []string{"abc", "123", "a1"}}
	case 19:
		return consGen{"even", []string{"ab", "abc", "a", "abcd"}}
	case 20:
		return consGen{"isin(a,bb,C)", []string{"a", "bb", "C", "c", "b", "A"}}
	case 21:
		return consGen{"Even", []string{"ab", "abc", "a", "abcd"}}
	case 22: // constraints lacking required data / malformed data
		return consGen{gen.Pick(r, []string{"minLen", "maxLen", "len", "betweenLen(1)", "min", "max()", "range(5)", "regex", "datetime",
			"len(x)", "min(a)", "range(1,x)", "bool((", "int()", "betweenLen(2,1)", "len(99999999999999999999)", "max(-9223372036854775809)",
			"range(1\\,5,9)", "minLen( 2)", "unknown", "unknown(1)"}), []string{"a", "ab", "1", "5", "12345", "0", "-1"}}
	case 23:
		return consGen{"min(-" + ns + ")", numsAround(-n)}
	case 24:
		return consGen{"len(+" + ns + ")", lensAround(n)}
	default:
		return consGen{"int", []string{"1", "22", "x"}}
	}
}

var generalVals = []string{"a", "ab", "abc", "b", "A", "aB", "a-b", "a.b", "a/b", "", "-", ".", "/", ":x", "a%2Fb", "%41", "a+b",
	"x y", "1", "42", "a-", "-a", "a--b", "a~", "é", "entity", "v1", "bar", "abar", "a/b/c", "json", "a.json", "*", "+", "?", "a:b", "cde"}

type GenPat struct {
	Toks    []Tok
	Vals    [][]string // per token: candidate values aimed at its constraints (params only)
	Customs []string
}

// GenPattern draws a pattern from the token grammar: a leading literal starting with '/', then
// 0–5 tokens; parameter names are distinct.
func GenPattern(r *gen.Rand) GenPat {
	var g GenPat
	g.Toks = append(g.Toks, Tok{Kind: Lit, Text: gen.Pick(r, firstLits)})
	g.Vals = append(g.Vals, nil)
	n := gen.Pick(r, []int{0, 1, 1, 1, 2, 2, 3, 3, 4, 5})
	used := map[string]bool{}
	prevLit := true
	for i := 0; i < n; i++ {
		k := r.Intn(10)
		switch {
		case k < 5 || (i == 0 && k < 8):
			nm := gen.Pick(r, names)
			for used[nm] {
				nm += "2"
			}
			used[nm] = true
			t := Tok{Kind: Named, Name: nm, Opt: r.Chance(1, 4)}
			var vals []string
			if r.Chance(2, 5) {
				for j := gen.Pick(r, []int{1, 1, 1, 2, 3}); j > 0; j-- {
					c := genConstraint(r)
					t.Cons = append(t.Cons, c.text)
					vals = append(vals, c.vals...)
					name := c.text
					if p := strings.IndexByte(name, '('); p >= 0 {
						name = name[:p]
					}
					if name == "even" || name == "Even" || strings.HasPrefix(name, "isin") {
						if r.Chance(9, 10) {
							g.Customs = append(g.Customs, name)
						}
					} else if r.Chance(1, 40) {
						g.Customs = append(g.Customs, name) // custom constraint overriding a built-in name
					}
				}
			}
			g.Toks = append(g.Toks, t)
			g.Vals = append(g.Vals, vals)
			prevLit = false
		case k < 6:
			g.Toks = append(g.Toks, Tok{Kind: Star})
			g.Vals = append(g.Vals, nil)
			prevLit = false
		case k < 7:
			g.Toks = append(g.Toks, Tok{Kind: Plus})
			g.Vals = append(g.Vals, nil)
			prevLit = false
		default:
			if prevLit {
				i--
				prevLit = false // force progress: next draw may still be a literal, merged textually
				continue
			}
			g.Toks = append(g.Toks, Tok{Kind: Lit, Text: gen.Pick(r, midLits)})
			g.Vals = append(g.Vals, nil)
			prevLit = true
		}
	}
	return g
}

// Fill substitutes a value for every parameter; literals contribute their unescaped text.
func (g GenPat) Fill(r *gen.Rand) (string, []string) {
	var sb strings.Builder
	var vals []string
	for i, t := range g.Toks {
		if t.Kind == Lit {
			sb.WriteString(unesc(t.Text))
			continue
		}
		var v string
		if len(g.Vals[i]) > 0 && r.Chance(4, 5) {
			v = gen.Pick(r, g.Vals[i])
		} else {
			v = gen.Pick(r, generalVals)
		}
		if t.Kind == Named && t.Opt && r.Chance(1, 4) || t.Kind == Star && r.Chance(1, 4) {
			v = ""
		}
		vals = append(vals, v)
		sb.WriteString(v)
	}
	return sb.String(), vals
}

// FillHistory returns n filled paths for consecutive requests on one app: the first is an ordinary
// fill; in the following ones every parameter value is replaced by another candidate of the SAME
// length (so all values sit at the same offsets of the reused path buffer) whenever one exists —
// candidates are the values aimed at the parameter's constraints (on and off their boundaries:
// verdicts flip between requests) and the general values.
func (g GenPat) FillHistory(r *gen.Rand, n int) []string {
	_, first := g.Fill(r)
	prev := first
	var out []string
	for k := 0; k < n; k++ {
		var sb strings.Builder
		cur := make([]string, len(prev))
		pi := 0
		for i, t := range g.Toks {
			if t.Kind == Lit {
				sb.WriteString(unesc(t.Text))
				continue
			}
			v := prev[pi]
			if k > 0 {
				var same []string
				for _, c := range g.Vals[i] {
					if len(c) == len(v) && c != v {
						same = append(same, c)
					}
				}
				if len(same) == 0 || r.Chance(1, 6) {
					for _, c := range generalVals {
						if len(c) == len(v) && c != v {
							same = append(same, c)
						}
					}
				}
				if len(same) > 0 && r.Chance(9, 10) {
					v = gen.Pick(r, same)
				}
			}
			cur[pi] = v
			pi++
			sb.WriteString(v)
		}
		out = append(out, sb.String())
		prev = cur
	}
	return out
}

const pathAlphabet = "/ab-.:*+%A1c~"

// Mutate derives a request path from a filled path: the places where matcher and model could part.
func Mutate(r *gen.Rand, filled, pattern string) (string, string) {
	p := filled
	switch r.Intn(16) {
	case 0, 1, 2, 3, 4:
		return p, "fill"
	case 5:
		return pattern, "pattern-text"
	case 6:
		if strings.HasSuffix(p, "/") {
			return strings.TrimRight(p, "/"), "drop-slash"
		}
		return p + "/", "add-slash"
	case 7:
		b := []byte(p)
		for i := range b {
			if r.Chance(1, 3) {
				if b[i] >= 'a' && b[i] <= 'z' {
					b[i] -= 32
				} else if b[i] >= 'A' && b[i] <= 'Z' {
					b[i] += 32
				}
			}
		}
		return string(b), "case-flip"
	case 8:
		if len(p) > 1 {
			i := 1 + r.Intn(len(p)-1)
			const hexd = "0123456789ABCDEF"
			return p[:i] + "%" + string(hexd[p[i]>>4]) + string(hexd[p[i]&15]) + p[i+1:], "pct-escape"
		}
		return p, "fill"
	case 9:
		k := r.Intn(len(p) + 1)
		if r.Chance(1, 2) && len(p) > 3 {
			k = r.Intn(4)
		}
		return p[:k], "truncate"
	case 10:
		i := r.Intn(len(p) + 1)
		return p[:i] + "/" + p[i:], "insert-slash"
	case 11:
		if len(p) > 1 {
			i := 1 + r.Intn(len(p)-1)
			return p[:i] + p[i+1:], "delete-byte"
		}
		return p, "fill"
	case 12:
		i := r.Intn(len(p) + 1)
		return p[:i] + string(pathAlphabet[r.Intn(len(pathAlphabet))]) + p[i:], "insert-byte"
	case 13:
		n := 1 + r.Intn(8)
		b := []byte{'/'}
		for i := 0; i < n; i++ {
			b = append(b, pathAlphabet[r.Intn(len(pathAlphabet))])
		}
		return string(b), "random"
	case 14:
		return p + gen.Pick(r, []string{"/x", "/x/y", "x", "//", "/", "-a", ".json"}), "extend"
	default:
		return p + "%", "pct-tail"
	}
}

const malformedAlphabet = "/ab:*+?\\<>();,-.A1x"

// Malformed draws pattern text outside the token grammar (unbalanced constraint brackets, dangling
// escapes, runs of parameter characters …).
func Malformed(r *gen.Rand) string {
	if r.Chance(1, 3) {
		return gen.Pick(r, []string{"/:x\\", "/:a>b<c", "/:x<a)(>", "/::x", "/:*", "/+:x", "/:x??", "/:", "/:?", "/*?", "/:x<int", "/:x>int<",
			"/a\\", "\\", "/\\", "/:x<int>y", "/:x<int>>", "/:x<<int>", "/:x<int;>", "/:x<;>", "/:x<>", "/:x<()>", "/a:x?b", ":x", "a", "",
			"/:x<regex(a>b)>", "/:x<min(1)><max(2)>", "/:x-:y<int>", "/:x<int>-:y", "/:x.:y?.:z?", "/***", "/+++", "/:::", "/*a*", "/:x\\?"})
	}
	n := 1 + r.Intn(9)
	b := []byte{'/'}
	for i := 0; i < n; i++ {
		b = append(b, malformedAlphabet[r.Intn(len(malformedAlphabet))])
	}
	return string(b)
}
