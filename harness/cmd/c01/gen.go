package main

import (
	"fmt"
	"strings"

	"verifharness/internal/gen"
)

type table struct {
	cfg  config
	regs []reg
	ovr  []string
}

// stems cluster patterns around the 3-byte index boundary (2-, 3- and 4-byte first constants).
var stems = []string{"/a", "/ab", "/abc", "/a/b", "/ab/c", "/A", "/Ab", "/api", "/old", "/new", "/x", "/b", "/a-b", "/a.b"}

var tails = []string{"", "", "", "/", "/:x", "/:x?", "/:x?", "/*", "/+", "/:x/c", "-:y", "/:x<int>", "/:x<int>?", ":z",
	"/:x-:y", "/c", "/c/", "/:x/", "\\:c", "/\\*", "%20b", "/:x<min(2)>?", "/*/c", "/::x"}

var rootish = []string{"/", "", "/*", "*", "/:p", "/:p?", ":p", "/+", "//", "/:p/:q?", "/*/a"}

var values = []string{"1", "x", "abc", "A", "a", "ab", "12", "b", "c", "a%20b", "a%2Fb", "X1", "new", ""}

var regMethods = []string{"GET", "GET", "GET", "POST", "PUT", "HEAD"}
var reqMethods = []string{"GET", "GET", "GET", "POST", "PUT", "HEAD", "DELETE", "PATCH"}
var failCodes = []int{400, 403, 418, 500, 503}

func flipCase(r *gen.Rand, s string) string {
	b := []byte(s)
	for i := range b {
		if r.Chance(1, 3) {
			switch {
			case b[i] >= 'a' && b[i] <= 'z':
				b[i] -= 32
			case b[i] >= 'A' && b[i] <= 'Z':
				b[i] += 32
			}
		}
	}
	return string(b)
}

func genPattern(r *gen.Rand, pool []string) string {
	switch r.Intn(10) {
	case 0:
		return gen.Pick(r, rootish)
	case 1:
		return flipCase(r, gen.Pick(r, pool)+gen.Pick(r, tails))
	case 2:
		// no leading slash
		p := gen.Pick(r, pool) + gen.Pick(r, tails)
		return p[1:]
	default:
		return gen.Pick(r, pool) + gen.Pick(r, tails)
	}
}

func genScript(r *gen.Rand, use bool, novr int) string {
	x := r.Intn(100)
	if use {
		switch {
		case x < 70:
			return "n"
		case x < 78:
			return "s"
		case x < 82:
			return fmt.Sprintf("f%d", gen.Pick(r, failCodes))
		case x < 94:
			if novr > 0 {
				return fmt.Sprintf("p%d", 1+r.Intn(novr))
			}
			return "n"
		default:
			return "m" + gen.Pick(r, regMethods)
		}
	}
	switch {
	case x < 55:
		return "n"
	case x < 78:
		return "s"
	case x < 84:
		return fmt.Sprintf("f%d", gen.Pick(r, failCodes))
	case x < 94:
		if novr > 0 {
			return fmt.Sprintf("p%d", 1+r.Intn(novr))
		}
		return "n"
	default:
		return "m" + gen.Pick(r, regMethods)
	}
}

// customLists: Config.RequestMethods that remove, reorder and interleave standard and non-standard methods
// (a standard method away from its default index, a list without GET, a non-standard method in front)
var customLists = [][]string{
	{"GET", "POST", "PURGE"}, {"POST", "GET"}, {"BREW", "GET", "HEAD", "POST"}, {"GET", "HEAD", "PUT", "DELETE"},
	{"POST", "PUT", "PURGE"}, {"PUT", "BREW", "POST", "GET"}, {"GET", "HEAD", "POST", "PUT", "DELETE", "CONNECT", "OPTIONS", "TRACE", "PATCH", "PURGE"},
	{"HEAD", "GET"}, {"PATCH", "PURGE", "GET", "DELETE"},
}

var absentPool = []string{"GET", "HEAD", "POST", "PUT", "DELETE", "PATCH", "OPTIONS", "FOO", "PURGE"}

// customise rewrites the method names of a table generated over the default methods into the
// configured list (one table in five).
func customise(r *gen.Rand, t *table) {
	if !r.Chance(1, 5) {
		return
	}
	l := gen.Pick(r, customLists)
	t.cfg.methods = l
	for i := range t.regs {
		g := &t.regs[i]
		if i > 0 && g.kind == t.regs[i-1].kind && g.path == t.regs[i-1].path && len(g.methods) > 0 &&
			strings.Join(g.chain, ".") == strings.Join(t.regs[i-1].chain, ".") && r.Chance(3, 4) {
			// keep duplicates duplicates
			g.methods = t.regs[i-1].methods
		} else if len(g.methods) > 0 {
			seen := map[string]bool{}
			var ms []string
			for range g.methods {
				m := gen.Pick(r, l)
				if !seen[m] {
					seen[m] = true
					ms = append(ms, m)
				}
			}
			g.methods = ms
		}
		for k := range g.hs {
			if g.hs[k].script[0] == 'm' {
				if r.Chance(1, 8) {
					g.hs[k].script = "m" + gen.Pick(r, absentPool)
				} else {
					g.hs[k].script = "m" + gen.Pick(r, l)
				}
			}
		}
	}
}

func genTable(r *gen.Rand) table {
	t := genTable0(r)
	customise(r.Fork(424242), &t)
	return t
}

func genTable0(r *gen.Rand) table {
	var t table
	t.cfg = config{cs: r.Bool(), strict: r.Bool(), unesc: r.Bool(), custom: r.Bool()}
	// 2-3 stems per table so that patterns collide on prefixes
	var pool []string
	for i := 2 + r.Intn(2); i > 0; i-- {
		pool = append(pool, gen.Pick(r, stems))
	}
	nreg := gen.Pick(r, []int{1, 1, 2, 2, 3, 3, 4, 4, 5, 6, 7, 8, 10, 12})
	novr := gen.Pick(r, []int{0, 0, 1, 1, 2})
	// override-free tables dominate; override tables get their targets from the same pool
	hid := 1
	groups := []string{"/g", "/a", "/ab", "/api/", "/", "", "/A", "g", "/a/"}
	for i := 0; i < nreg; i++ {
		var g reg
		if i > 0 && r.Chance(1, 4) {
			// duplicate of the previous registration (same kind/methods/chain/path): addRoute merges it
			p := t.regs[i-1]
			g = reg{kind: p.kind, methods: p.methods, chain: p.chain, path: p.path}
		} else {
			switch x := r.Intn(100); {
			case x < 25:
				g.kind = 'U'
			case x < 33:
				g.kind = 'L'
			case x < 39:
				g.kind = 'G'
			case x < 44:
				g.kind = 'R'
				if r.Chance(2, 3) {
					g.methods = []string{gen.Pick(r, regMethods)}
				}
			case x < 47:
				g.kind = 'A'
				n := 2 + r.Intn(2)
				seen := map[string]bool{}
				for len(g.methods) < n {
					m := gen.Pick(r, regMethods)
					if !seen[m] {
						seen[m] = true
						g.methods = append(g.methods, m)
					}
				}
			default:
				g.kind = 'A'
				g.methods = []string{gen.Pick(r, regMethods)}
			}
			if g.kind == 'R' {
				g.chain = append(g.chain, genPattern(r, pool))
				if r.Chance(1, 3) {
					g.chain = append(g.chain, gen.Pick(r, tails))
				}
			} else if g.kind == 'G' || r.Chance(1, 5) {
				for d := 1 + r.Intn(2); d > 0; d-- {
					if r.Chance(1, 3) {
						g.chain = append(g.chain, gen.Pick(r, pool))
					} else {
						g.chain = append(g.chain, gen.Pick(r, groups))
					}
				}
			}
			if g.kind != 'G' && g.kind != 'R' {
				g.path = genPattern(r, pool)
				if g.kind == 'U' && r.Chance(1, 3) {
					g.path = gen.Pick(r, []string{"", "/", gen.Pick(r, pool), gen.Pick(r, pool) + "/"})
				}
			}
		}
		use := g.kind == 'U' || g.kind == 'G' || (g.kind == 'R' && len(g.methods) == 0)
		nh := gen.Pick(r, []int{1, 1, 1, 1, 2, 2, 3})
		for k := 0; k < nh; k++ {
			g.hs = append(g.hs, handler{hid, genScript(r, use, novr)})
			hid++
		}
		t.regs = append(t.regs, g)
	}
	for i := 0; i < novr; i++ {
		for tries := 0; ; tries++ {
			p, _ := derivePath(r, t, pool)
			if pathOK(p) || tries > 20 {
				if !pathOK(p) {
					p = "/new"
				}
				t.ovr = append(t.ovr, p)
				break
			}
		}
	}
	return t
}

// effective raw pattern of a registration (group prefixes joined), used only to derive requests
func effPattern(g reg) string {
	p := ""
	for i, c := range g.chain {
		if i == 0 {
			p = c
		} else {
			p = joinGroup(p, c)
		}
	}
	if g.kind == 'G' || g.kind == 'R' {
		return p
	}
	if len(g.chain) > 0 {
		return joinGroup(p, g.path)
	}
	return g.path
}

func joinGroup(prefix, path string) string {
	if path == "" {
		return prefix
	}
	if path[0] != '/' {
		path = "/" + path
	}
	return strings.TrimRight(prefix, "/") + path
}

// fill replaces parameter tokens of a pattern by values (rough: good enough to land near the pattern)
func fill(r *gen.Rand, pat string) string {
	var out []byte
	for i := 0; i < len(pat); i++ {
		c := pat[i]
		switch {
		case c == '\\':
			continue
		case c == '*' || c == '+':
			v := gen.Pick(r, values)
			if r.Chance(1, 3) {
				v += "/" + gen.Pick(r, values)
			}
			out = append(out, v...)
		case c == ':':
			j := i + 1
			depth := 0
			for j < len(pat) {
				d := pat[j]
				if d == '<' {
					depth++
				} else if d == '>' {
					depth--
				} else if depth == 0 && (d == '/' || d == '-' || d == '.' || d == ':' || d == '?' || d == '\\') {
					break
				}
				j++
			}
			opt := j < len(pat) && pat[j] == '?'
			if !(opt && r.Chance(1, 2)) {
				out = append(out, gen.Pick(r, values)...)
			}
			if opt {
				j++
			}
			i = j - 1
		default:
			out = append(out, c)
		}
	}
	return string(out)
}

func mutate(r *gen.Rand, p string) string {
	switch r.Intn(14) {
	case 0: // truncate below the index width
		if len(p) > 2 {
			return p[:1+r.Intn(2)]
		}
	case 1:
		if len(p) > 3 {
			return p[:3]
		}
	case 2:
		return p + "/"
	case 3:
		return strings.TrimRight(p, "/")
	case 4:
		return flipCase(r, p)
	case 5: // percent-escape one byte
		if len(p) > 1 {
			i := 1 + r.Intn(len(p)-1)
			return fmt.Sprintf("%s%%%02X%s", p[:i], p[i], p[i+1:])
		}
	case 6:
		return p + "/" + gen.Pick(r, values)
	case 7:
		if len(p) > 1 {
			return p[:len(p)-1]
		}
	case 8:
		return p + gen.Pick(r, []string{"c", "x", "-1", ".b"})
	}
	return p
}

// derivePath returns a request path aimed at the table, and the registration it was derived from (or nil).
func derivePath(r *gen.Rand, t table, pool []string) (string, *reg) {
	var p string
	var from *reg
	switch x := r.Intn(10); {
	case x < 7 && len(t.regs) > 0:
		g := gen.Pick(r, t.regs)
		from = &g
		pat := effPattern(g)
		if r.Chance(1, 10) {
			p = pat // the pattern's own text
		} else {
			p = fill(r, pat)
		}
		if (g.kind == 'U' || g.kind == 'G') && r.Chance(1, 2) {
			p = strings.TrimRight(p, "/") + "/" + gen.Pick(r, values)
		}
	case x < 9:
		p = gen.Pick(r, pool) + gen.Pick(r, []string{"", "/", "/" + gen.Pick(r, values), "/" + gen.Pick(r, values) + "/c"})
	default:
		p = gen.Pick(r, []string{"/", "/a", "/ab", "/abc", "/a/", "/A", "/zz", "/new", "/a/b"})
	}
	if p == "" || p[0] != '/' {
		p = "/" + p
	}
	for k := gen.Pick(r, []int{0, 0, 0, 1, 1, 2}); k > 0; k-- {
		p = mutate(r, p)
	}
	if p == "" || p[0] != '/' {
		p = "/" + p
	}
	return p, from
}

func genReq(r *gen.Rand, t table) (string, string) {
	var pool []string
	for _, g := range t.regs {
		if len(g.chain) == 0 && g.kind != 'G' && strings.HasPrefix(g.path, "/") && len(g.path) > 1 {
			pool = append(pool, g.path)
		}
	}
	if len(pool) == 0 {
		pool = stems
	}
	var path string
	var from *reg
	for tries := 0; ; tries++ {
		path, from = derivePath(r, t, pool)
		if pathOK(path) {
			break
		}
		if tries > 20 {
			path, from = "/a", nil
			break
		}
	}
	method := gen.Pick(r, reqMethods)
	if t.cfg.methods != nil {
		rm := r.Fork(515151)
		method = gen.Pick(rm, t.cfg.methods)
		switch {
		case rm.Chance(1, 8):
			// mostly a standard method the list does not hold: 501
			return gen.Pick(rm, absentPool), path
		case from != nil && len(from.methods) > 0 && rm.Chance(1, 2):
			method = gen.Pick(rm, from.methods)
		}
		return method, path
	}
	if from != nil && len(from.methods) > 0 && r.Chance(3, 4) {
		method = gen.Pick(r, from.methods)
	} else if r.Chance(1, 3) {
		g := gen.Pick(r, t.regs)
		if len(g.methods) > 0 {
			method = gen.Pick(r, g.methods)
		}
	}
	return method, path
}

func countTable(w *gen.Writer, t table) {
	w.Count(fmt.Sprintf("regs=%d", len(t.regs)))
	w.Count("cfg=" + t.cfg.String())
	for i, g := range t.regs {
		w.Count("kind=" + string(g.kind))
		if len(g.chain) > 0 {
			w.Count("grouped")
		}
		if i > 0 && g.kind == t.regs[i-1].kind && g.path == t.regs[i-1].path &&
			strings.Join(g.methods, ".") == strings.Join(t.regs[i-1].methods, ".") &&
			strings.Join(g.chain, "\x00") == strings.Join(t.regs[i-1].chain, "\x00") {
			w.Count("duplicate-reg")
		}
		for _, h := range g.hs {
			w.Count("script=" + h.script[:1])
		}
	}
}

// exhaustive enumerates all tables of ≤ 3 routes over a 14-entry universe chosen around the index
// × all paths of ≤ 2 segments over {a, ab, abc, A} with/without trailing slash × 8 configurations
// (default ctx; every fourth table also with the custom ctx). All handlers call Next, so the trace
// lists every route the dispatcher considers matching, in order.
func exhaustive(w *gen.Writer, seed uint64) {
	type ent struct {
		kind byte
		path string
	}
	uni := []ent{{'A', "/a"}, {'A', "/a/"}, {'A', "/ab"}, {'A', "/abc"}, {'A', "/a/:x?"}, {'A', "/ab/:x?"},
		{'A', "/abc/:x?"}, {'A', "/:x"}, {'A', "/*"}, {'A', "/"}, {'U', "/a"}, {'U', "/"}, {'A', "/a/*"}, {'U', "/ab/:x?"}}
	segs := []string{"a", "ab", "abc", "A"}
	var paths []string
	paths = append(paths, "/")
	for _, s := range segs {
		paths = append(paths, "/"+s, "/"+s+"/")
		for _, u := range segs {
			paths = append(paths, "/"+s+"/"+u, "/"+s+"/"+u+"/")
		}
	}
	n := len(uni)
	tno := 0
	for size := 1; size <= 3; size++ {
		total := 1
		for i := 0; i < size; i++ {
			total *= n
		}
		for code := 0; code < total; code++ {
			var regs []reg
			c := code
			for i := 0; i < size; i++ {
				e := uni[c%n]
				c /= n
				g := reg{kind: e.kind, path: e.path, hs: []handler{{i + 1, "n"}}}
				if e.kind == 'A' {
					g.methods = []string{"GET"}
				}
				regs = append(regs, g)
			}
			for cf := 0; cf < 8; cf++ {
				cfg := config{cs: cf&1 != 0, strict: cf&2 != 0, unesc: cf&4 != 0, custom: tno%4 == 3}
				b, ok := build(cfg, regs, nil)
				if !ok {
					w.Count("table-build-panic")
					continue
				}
				for pi, p := range paths {
					emit(w, fmt.Sprintf("x%d.%d.%d.%d", seed, tno, cf, pi), b, "GET", p)
				}
			}
			tno++
			w.Count("exhaustive-table")
		}
	}
}

// genHistory derives a history from a table: 2-5 requests on one app; half of the histories register a
// new route at run time (unique literal path under a stem of the table, so that it shares the 3-byte
// bucket with earlier requests), serve requests before RebuildTree() and after it.
func genHistory(r *gen.Rand, t table) ([]reg, []hop) {
	regs := make([]reg, len(t.regs))
	for i, g := range t.regs {
		g2 := g
		g2.hs = append([]handler(nil), g.hs...)
		for k := range g2.hs {
			if g2.hs[k].script[0] == 'p' {
				g2.hs[k].script = "n"
			}
		}
		regs[i] = g2
	}
	tt := table{cfg: t.cfg, regs: regs}
	q := func() hop {
		m, p := genReq(r, tt)
		return hop{kind: 'Q', method: m, path: p}
	}
	var ops []hop
	if r.Bool() {
		for n := 2 + r.Intn(4); n > 0; n-- {
			ops = append(ops, q())
		}
		return regs, ops
	}
	listed := t.cfg.methodList()
	hid := 900
	nreq := 0
	for round := 1 + r.Intn(2); round > 0; round-- {
		stem := gen.Pick(r, []string{"/api", "/abc", "/ab", "/a", "/old", "/new"})
		m := listed[0]
		if r.Chance(1, 3) {
			m = gen.Pick(r, listed)
		}
		np := fmt.Sprintf("%s/r%d", stem, round)
		g := reg{kind: 'A', methods: []string{m}, path: np, hs: []handler{{hid, gen.Pick(r, []string{"s", "s", "n"})}}}
		if r.Chance(1, 5) {
			g = reg{kind: 'U', path: np, hs: []handler{{hid, "n"}}}
		}
		hid++
		if r.Chance(2, 3) {
			// warm the pooled context with the same method and 3-byte prefix
			ops = append(ops, hop{kind: 'Q', method: m, path: gen.Pick(r, []string{stem + "/q", np, stem + "/r", stem})})
			nreq++
		} else if r.Chance(1, 2) {
			ops = append(ops, q())
			nreq++
		}
		ops = append(ops, hop{kind: 'R', g: g})
		if r.Chance(2, 3) {
			// a request between the registration and the rebuild: the new route is not served yet
			ops = append(ops, hop{kind: 'Q', method: m, path: gen.Pick(r, []string{np, stem + "/q", np})})
			nreq++
		}
		if r.Chance(4, 5) {
			ops = append(ops, hop{kind: 'B'})
		}
		ops = append(ops, hop{kind: 'Q', method: m, path: np})
		nreq++
		if r.Chance(1, 3) {
			ops = append(ops, q())
			nreq++
		}
	}
	return regs, ops
}
