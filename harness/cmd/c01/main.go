// Harness for C01 (dispatch = registration-order first match; the lookup index is transparent).
//
// Every case is one (route table, request) pair executed on a real fiber.App through App.Handler().
// Input fields (after the id):
//
//	cfg     c<0|1>s<0|1>u<0|1>x<0|1>   CaseSensitive, StrictRouting, UnescapePath, custom ctx (NewCtxFunc)
//	regs    `;`-separated registrations  K:methods:chain:path:handlers
//	          K        U = Use, A = Add (Get/Post/Put/Head when single), L = All, G = Group(prefix, handlers...),
//	                   R = app.Route(chain…).Add(methods…) or .All(…) when methods is `-` (register.go)
//	          methods  `.`-joined method names (A only), else `-`
//	          chain    `.`-joined hex group prefixes from the outermost group inwards (`-` = registered on the app)
//	          path     hex (for G: unused, `-`)
//	          handlers `.`-joined  hid~script ; script = n (Next) | s (stop, return nil) | f<code> (return
//	                   fiber.NewError(code)) | p<i> (c.Path(paths[i]); Next) | m<METHOD> (c.Method(METHOD); Next)
//	paths   `,`-separated hex; paths[0] is the request path, the rest are override targets of p<i> scripts
//	method  request method
//
// Observation (one field, `;`-separated key=value):
//
//	t   handler-id trace (`.`-joined, `-` = empty; `loop` = more than 1000 handler calls)       s  response status       a  sorted Allow values
//	ps  c.Path() of a request for each paths[i] (hex, `.`-joined)
//	ph  ctx.treePathHash of a request for each paths[i] (verif hook)
//	rp  Route.Path of each registration's route (public field)
//	tr  the real lookup index of the request method: key:pos.pos/key:pos…  (via the verif hook)
//	mb  per registration, per paths[i]: (*Route).match of that registration's route (verif hook), `.` between regs
//	ab  per registration, per paths[i]: did the registration alone in a fresh app (same config) run on that path
package main

import (
	"fmt"
	"io"
	"sort"
	"strconv"
	"strings"

	"github.com/gofiber/fiber/v3"
	"github.com/gofiber/fiber/v3/log"
	"github.com/valyala/fasthttp"

	"verifharness/internal/gen"
)

type handler struct {
	hid    int
	script string
}

type reg struct {
	kind    byte
	methods []string
	chain   []string
	path    string
	hs      []handler
}

type config struct {
	cs, strict, unesc, custom bool
	// custom Config.RequestMethods (nil = default methods)
	methods []string
}

type customCtx struct {
	fiber.DefaultCtx
}

// per-app mutable request state shared by the handler closures
type state struct {
	trace []int
	paths []string
	plain bool // ignore scripts: record and stop (used for the single-registration apps)
	loop  bool // more than maxCalls handler invocations in one request: the dispatcher does not terminate
}

const maxCalls = 1000

func (c config) String() string {
	out := "c" + gen.B(c.cs) + "s" + gen.B(c.strict) + "u" + gen.B(c.unesc) + "x" + gen.B(c.custom)
	if c.methods != nil {
		out += "@" + strings.Join(c.methods, ".")
	}
	return out
}

// methodList is Config.RequestMethods as the app sees it
func (c config) methodList() []string {
	if c.methods != nil {
		return c.methods
	}
	return fiber.DefaultMethods
}

func (c config) listed(m string) bool {
	for _, x := range c.methodList() {
		if x == m {
			return true
		}
	}
	return false
}

// validName: a syntactically acceptable method name of the harness (upper-case letters)
func validName(m string) bool {
	if m == "" || len(m) > 12 {
		return false
	}
	for i := 0; i < len(m); i++ {
		if m[i] < 'A' || m[i] > 'Z' {
			return false
		}
	}
	return true
}

func parseConfig(s string) (config, bool) {
	var methods []string
	if i := strings.IndexByte(s, '@'); i >= 0 {
		methods = strings.Split(s[i+1:], ".")
		s = s[:i]
		seen := map[string]bool{}
		for _, m := range methods {
			if !validName(m) || seen[m] {
				return config{}, false
			}
			seen[m] = true
		}
	}
	c, ok := parseConfig0(s)
	c.methods = methods
	return c, ok
}

func parseConfig0(s string) (config, bool) {
	if len(s) != 8 || s[0] != 'c' || s[2] != 's' || s[4] != 'u' || s[6] != 'x' {
		return config{}, false
	}
	for _, i := range []int{1, 3, 5, 7} {
		if s[i] != '0' && s[i] != '1' {
			return config{}, false
		}
	}
	return config{cs: s[1] == '1', strict: s[3] == '1', unesc: s[5] == '1', custom: s[7] == '1'}, true
}

func hexDot(xs []string) string {
	if len(xs) == 0 {
		return "-"
	}
	out := make([]string, len(xs))
	for i, x := range xs {
		if x == "" {
			out[i] = "_"
		} else {
			out[i] = gen.Hex(x)
		}
	}
	return strings.Join(out, ".")
}

func unhexSafe(s string) (string, bool) {
	ok := true
	var out string
	func() {
		defer func() {
			if recover() != nil {
				ok = false
			}
		}()
		out = gen.UnHex(s)
	}()
	return out, ok
}

func unhexDot(s string) ([]string, bool) {
	if s == "-" {
		return nil, true
	}
	var out []string
	for _, p := range strings.Split(s, ".") {
		v, ok := unhexSafe(p)
		if !ok {
			return nil, false
		}
		out = append(out, v)
	}
	return out, true
}

func (g reg) String() string {
	ms := "-"
	if len(g.methods) > 0 {
		ms = strings.Join(g.methods, ".")
	}
	hs := make([]string, len(g.hs))
	for i, h := range g.hs {
		hs[i] = strconv.Itoa(h.hid) + "~" + h.script
	}
	return string(g.kind) + ":" + ms + ":" + hexDot(g.chain) + ":" + gen.Hex(g.path) + ":" + strings.Join(hs, ".")
}


func parseReg(s string, npaths int) (reg, bool) {
	f := strings.Split(s, ":")
	if len(f) != 5 || len(f[0]) != 1 || !strings.Contains("UALGR", f[0]) {
		return reg{}, false
	}
	g := reg{kind: f[0][0]}
	if f[1] != "-" {
		g.methods = strings.Split(f[1], ".")
		for _, m := range g.methods {
			if !validName(m) {
				return reg{}, false
			}
		}
	}
	if g.kind != 'R' && (g.kind == 'A') != (len(g.methods) > 0) {
		return reg{}, false
	}
	var ok bool
	if g.chain, ok = unhexDot(f[2]); !ok {
		return reg{}, false
	}
	if (g.kind == 'G' || g.kind == 'R') && len(g.chain) == 0 {
		return reg{}, false
	}
	if g.path, ok = unhexSafe(f[3]); !ok {
		return reg{}, false
	}
	if f[4] == "" {
		return reg{}, false
	}
	for _, hs := range strings.Split(f[4], ".") {
		p := strings.SplitN(hs, "~", 2)
		if len(p) != 2 || p[1] == "" {
			return reg{}, false
		}
		hid, err := strconv.Atoi(p[0])
		if err != nil || hid < 0 {
			return reg{}, false
		}
		sc := p[1]
		switch sc[0] {
		case 'n', 's':
			if len(sc) != 1 {
				return reg{}, false
			}
		case 'f':
			c, err := strconv.Atoi(sc[1:])
			if err != nil || c < 400 || c > 599 {
				return reg{}, false
			}
		case 'p':
			i, err := strconv.Atoi(sc[1:])
			if err != nil || i < 1 || i >= npaths {
				return reg{}, false
			}
		case 'm':
			if !validName(sc[1:]) {
				return reg{}, false
			}
		default:
			return reg{}, false
		}
		g.hs = append(g.hs, handler{hid, sc})
	}
	return g, true
}

func mkHandler(h handler, st *state) fiber.Handler {
	return func(c fiber.Ctx) error {
		if len(st.trace) >= maxCalls {
			st.loop = true
			return nil
		}
		st.trace = append(st.trace, h.hid)
		if st.plain {
			return nil
		}
		switch h.script[0] {
		case 'n':
			return c.Next()
		case 's':
			return nil
		case 'f':
			code, _ := strconv.Atoi(h.script[1:])
			return fiber.NewError(code)
		case 'p':
			i, _ := strconv.Atoi(h.script[1:])
			c.Path(st.paths[i])
			return c.Next()
		case 'm':
			c.Method(h.script[1:])
			return c.Next()
		}
		return nil
	}
}

func newApp(cfg config) *fiber.App {
	fc := fiber.Config{CaseSensitive: cfg.cs, StrictRouting: cfg.strict, UnescapePath: cfg.unesc}
	if cfg.methods != nil {
		fc.RequestMethods = append([]string(nil), cfg.methods...)
	}
	app := fiber.New(fc)
	if cfg.custom {
		app.NewCtxFunc(func(a *fiber.App) fiber.CustomCtx {
			return &customCtx{DefaultCtx: *fiber.NewDefaultCtx(a)}
		})
	}
	return app
}

// register performs one registration through the public API.
func register(app *fiber.App, g reg, st *state) {
	hs := make([]fiber.Handler, len(g.hs))
	for i, h := range g.hs {
		hs[i] = mkHandler(h, st)
	}
	if g.kind == 'R' {
		// app.Route(p0).Route(p1)… then Add(methods…) or All(…) (register.go)
		rr := app.Route(g.chain[0])
		for _, p := range g.chain[1:] {
			rr = rr.Route(p)
		}
		if len(g.methods) == 0 {
			rr.All(hs[0], hs[1:]...)
		} else {
			rr.Add(g.methods, hs[0], hs[1:]...)
		}
		return
	}
	var r fiber.Router = app
	chain := g.chain
	if g.kind == 'G' {
		chain = chain[:len(chain)-1]
	}
	for _, p := range chain {
		r = r.Group(p)
	}
	switch g.kind {
	case 'G':
		r.Group(g.chain[len(g.chain)-1], hs...)
	case 'U':
		args := []any{g.path}
		for _, h := range hs {
			args = append(args, h)
		}
		r.Use(args...)
	case 'L':
		r.All(g.path, hs[0], hs[1:]...)
	case 'A':
		if len(g.methods) == 1 {
			switch g.methods[0] {
			case "GET":
				r.Get(g.path, hs[0], hs[1:]...)
				return
			case "POST":
				r.Post(g.path, hs[0], hs[1:]...)
				return
			case "PUT":
				r.Put(g.path, hs[0], hs[1:]...)
				return
			case "HEAD":
				r.Head(g.path, hs[0], hs[1:]...)
				return
			}
		}
		r.Add(g.methods, g.path, hs[0], hs[1:]...)
	}
}

func serve(h fasthttp.RequestHandler, method, path string) *fasthttp.RequestCtx {
	var fctx fasthttp.RequestCtx
	var req fasthttp.Request
	req.Header.SetMethod(method)
	req.SetRequestURI(path)
	fctx.Init(&req, nil, nil)
	h(&fctx)
	return &fctx
}

// withCtx acquires a context of app for (method, path) and hands it to f.
func withCtx(app *fiber.App, method, path string, f func(c fiber.Ctx)) {
	var fctx fasthttp.RequestCtx
	var req fasthttp.Request
	req.Header.SetMethod(method)
	req.SetRequestURI(path)
	fctx.Init(&req, nil, nil)
	c := app.AcquireCtx(&fctx)
	defer app.ReleaseCtx(c)
	f(c)
}

// single holds the fresh app containing one registration only.
type single struct {
	app    *fiber.App
	h      fasthttp.RequestHandler
	st     *state
	route  *fiber.Route
	method string
}

func buildSingle(cfg config, g reg) *single {
	s := &single{st: &state{plain: true}}
	s.app = newApp(cfg)
	register(s.app, g, s.st)
	s.h = s.app.Handler()
	for mi, stack := range s.app.Stack() {
		if len(stack) > 0 {
			s.route = stack[0]
			s.method = cfg.methodList()[mi]
			break
		}
	}
	return s
}

// built is a route table realised on real apps: the full app plus one app per registration.
type built struct {
	cfg     config
	regs    []reg
	app     *fiber.App
	h       fasthttp.RequestHandler
	st      *state
	singles []*single
	// cache of the per-path observations for override targets (index ≥ 1 of paths)
	ovr      []string
	ovrPs    []string
	ovrPh    []string
	ovrMb    [][]byte
	ovrAb    [][]byte
	treeMemo map[string]string
}

func build(cfg config, regs []reg, ovr []string) (b *built, ok bool) {
	defer func() {
		if r := recover(); r != nil {
			b, ok = nil, false
		}
	}()
	b = &built{cfg: cfg, regs: regs, st: &state{}, ovr: ovr, treeMemo: map[string]string{}}
	b.app = newApp(cfg)
	for _, g := range regs {
		register(b.app, g, b.st)
	}
	b.h = b.app.Handler()
	for _, g := range regs {
		b.singles = append(b.singles, buildSingle(cfg, g))
	}
	for _, p := range ovr {
		ps, ph, mb, ab := b.probe(p)
		b.ovrPs = append(b.ovrPs, ps)
		b.ovrPh = append(b.ovrPh, strconv.Itoa(ph))
		b.ovrMb = append(b.ovrMb, mb)
		b.ovrAb = append(b.ovrAb, ab)
	}
	return b, true
}

// probe computes, for one raw path, c.Path() and the per-registration match / alone bits.
func (b *built) probe(path string) (ps string, ph int, mb, ab []byte) {
	withCtx(b.app, b.cfg.methodList()[0], path, func(c fiber.Ctx) {
		ps = string([]byte(c.Path()))
		ph = fiber.VerifTreePathHash(c)
	})
	for _, s := range b.singles {
		bit := byte('0')
		if s.route != nil {
			withCtx(s.app, s.method, path, func(c fiber.Ctx) {
				if fiber.VerifRouteMatch(s.route, c) {
					bit = '1'
				}
			})
		}
		mb = append(mb, bit)
		s.st.trace = s.st.trace[:0]
		if s.route != nil {
			serve(s.h, s.method, path)
		}
		if len(s.st.trace) > 0 {
			ab = append(ab, '1')
		} else {
			ab = append(ab, '0')
		}
	}
	return ps, ph, mb, ab
}

// rawPaths: Route.Path of every registration's route (public field), as registered alone
func (b *built) rawPaths() string {
	out := make([]string, len(b.singles))
	for i, s := range b.singles {
		if s.route != nil {
			out[i] = s.route.Path
		}
	}
	return hexDot(out)
}

func (b *built) tree(method string) string {
	if v, ok := b.treeMemo[method]; ok {
		return v
	}
	keys, pos := fiber.VerifTreeStack(b.app, method)
	var parts []string
	for i, k := range keys {
		ps := make([]string, len(pos[i]))
		for j, p := range pos[i] {
			ps[j] = strconv.Itoa(int(p))
		}
		parts = append(parts, strconv.Itoa(k)+":"+strings.Join(ps, "."))
	}
	v := strings.Join(parts, "/")
	if v == "" {
		v = "-"
	}
	b.treeMemo[method] = v
	return v
}

func (b *built) observe(method, path string) (obs string) {
	defer func() {
		if r := recover(); r != nil {
			obs = fmt.Sprintf("panic")
		}
	}()
	paths := append([]string{path}, b.ovr...)
	b.st.paths = paths
	b.st.trace = b.st.trace[:0]
	b.st.loop = false
	fctx := serve(b.h, method, path)
	tr := make([]string, len(b.st.trace))
	for i, h := range b.st.trace {
		tr[i] = strconv.Itoa(h)
	}
	t := strings.Join(tr, ".")
	if t == "" {
		t = "-"
	}
	if b.st.loop {
		t = "loop"
	}
	var allow []string
	if v := string(fctx.Response.Header.Peek("Allow")); v != "" {
		allow = strings.Split(v, ", ")
		sort.Strings(allow)
	}
	a := strings.Join(allow, ".")
	if a == "" {
		a = "-"
	}
	status := fctx.Response.StatusCode()
	ps0, ph0, mb0, ab0 := b.probe(path)
	pss := append([]string{ps0}, b.ovrPs...)
	phs := append([]string{strconv.Itoa(ph0)}, b.ovrPh...)
	mbs := make([]string, len(b.regs))
	abs := make([]string, len(b.regs))
	for i := range b.regs {
		m := []byte{mb0[i]}
		a := []byte{ab0[i]}
		for j := range b.ovr {
			m = append(m, b.ovrMb[j][i])
			a = append(a, b.ovrAb[j][i])
		}
		mbs[i], abs[i] = string(m), string(a)
	}
	if b.st.loop {
		return fmt.Sprintf("t=loop;s=loop;a=-;ps=%s;ph=%s;rp=%s;tr=%s;mb=%s;ab=%s", hexDot(pss), strings.Join(phs, "."),
			b.rawPaths(), b.tree(method), strings.Join(mbs, "."), strings.Join(abs, "."))
	}
	return fmt.Sprintf("t=%s;s=%d;a=%s;ps=%s;ph=%s;rp=%s;tr=%s;mb=%s;ab=%s", t, status, a, hexDot(pss), strings.Join(phs, "."), b.rawPaths(), b.tree(method),
		strings.Join(mbs, "."), strings.Join(abs, "."))
}

// ---- histories: several requests (and run-time registrations / RebuildTree) on ONE app, served one after
// the other through the same handler with a reused fasthttp.RequestCtx, so that the pooled DefaultCtx is reused.
//
// case line:  id  cfg  regs  ops  obs     (5 fields)
//	ops  `|`-separated:  Q=METHOD=hexpath   a request
//	                     R=<registration>   app.<register> at run time (not served before the next RebuildTree)
//	                     B                  app.RebuildTree()
//	obs  r=t,s,a/t,s,a/…   per request: trace, status, Allow
//	     rp=…  Route.Path of every registration (initial ones, then the run-time ones in order)
//	     mb=…  per registration, per request: (*Route).match
type hop struct {
	kind   byte
	method string
	path   string
	g      reg
}

func (o hop) String() string {
	switch o.kind {
	case 'Q':
		return "Q=" + o.method + "=" + gen.Hex(o.path)
	case 'R':
		return "R=" + o.g.String()
	}
	return "B"
}

func opsField(ops []hop) string {
	out := make([]string, len(ops))
	for i, o := range ops {
		out[i] = o.String()
	}
	return strings.Join(out, "|")
}

func parseOps(s string) ([]hop, bool) {
	var ops []hop
	for _, f := range strings.Split(s, "|") {
		switch {
		case f == "B":
			ops = append(ops, hop{kind: 'B'})
		case strings.HasPrefix(f, "Q="):
			p := strings.Split(f[2:], "=")
			if len(p) != 2 || !validName(p[0]) {
				return nil, false
			}
			path, ok := unhexSafe(p[1])
			if !ok || !pathOK(path) {
				return nil, false
			}
			ops = append(ops, hop{kind: 'Q', method: p[0], path: path})
		case strings.HasPrefix(f, "R="):
			g, ok := parseReg(f[2:], 1)
			if !ok {
				return nil, false
			}
			ops = append(ops, hop{kind: 'R', g: g})
		default:
			return nil, false
		}
	}
	return ops, len(ops) > 0
}

func observeHistory(cfg config, regs []reg, ops []hop) (obs string) {
	defer func() {
		if r := recover(); r != nil {
			obs = "panic"
		}
	}()
	st := &state{}
	app := newApp(cfg)
	for _, g := range regs {
		register(app, g, st)
	}
	h := app.Handler()
	all := append([]reg(nil), regs...)
	var paths []string
	var res []string
	var fctx fasthttp.RequestCtx // reused for every request of the history
	for _, o := range ops {
		switch o.kind {
		case 'R':
			register(app, o.g, st)
			all = append(all, o.g)
		case 'B':
			app.RebuildTree()
		case 'Q':
			st.trace = st.trace[:0]
			st.loop = false
			var req fasthttp.Request
			req.Header.SetMethod(o.method)
			req.SetRequestURI(o.path)
			fctx.Init(&req, nil, nil)
			fctx.Response.Reset()
			h(&fctx)
			tr := make([]string, len(st.trace))
			for i, x := range st.trace {
				tr[i] = strconv.Itoa(x)
			}
			t := strings.Join(tr, ".")
			if t == "" {
				t = "-"
			}
			if st.loop {
				t = "loop"
			}
			var allow []string
			if v := string(fctx.Response.Header.Peek("Allow")); v != "" {
				allow = strings.Split(v, ", ")
				sort.Strings(allow)
			}
			a := strings.Join(allow, ".")
			if a == "" {
				a = "-"
			}
			res = append(res, fmt.Sprintf("%s,%d,%s", t, fctx.Response.StatusCode(), a))
			paths = append(paths, o.path)
		}
	}
	// single-route decisions of every registration on every request path
	rp := make([]string, len(all))
	mbs := make([]string, len(all))
	for i, g := range all {
		s := buildSingle(cfg, g)
		if s.route != nil {
			rp[i] = s.route.Path
		}
		row := make([]byte, len(paths))
		for j, path := range paths {
			row[j] = '0'
			if s.route != nil {
				withCtx(s.app, s.method, path, func(c fiber.Ctx) {
					if fiber.VerifRouteMatch(s.route, c) {
						row[j] = '1'
					}
				})
			}
		}
		mbs[i] = string(row)
	}
	return fmt.Sprintf("r=%s;rp=%s;mb=%s", strings.Join(res, "/"), hexDot(rp), strings.Join(mbs, "."))
}

func emitHistory(w *gen.Writer, id string, cfg config, regs []reg, ops []hop) {
	w.Case(id, cfg.String(), regsField(regs), opsField(ops), observeHistory(cfg, regs, ops))
}

func regsField(regs []reg) string {
	out := make([]string, len(regs))
	for i, g := range regs {
		out[i] = g.String()
	}
	return strings.Join(out, ";")
}

func emit(w *gen.Writer, id string, b *built, method, path string) {
	obs := b.observe(method, path)
	w.Case(id, b.cfg.String(), regsField(b.regs), gen.HexList(append([]string{path}, b.ovr...)), method, obs)
}

func replay(w *gen.Writer, file string) {
	for _, f := range gen.ReplayInputs(file) {
		if len(f) == 4 || (len(f) == 5 && (strings.HasPrefix(f[3], "Q=") || strings.HasPrefix(f[3], "R=") || strings.HasPrefix(f[3], "B"))) {
			// a history: id cfg regs ops [obs]
			cfg, ok := parseConfig(f[1])
			ops, ok2 := parseOps(f[3])
			if !ok || !ok2 || f[2] == "" || f[2] == "-" {
				continue
			}
			var regs []reg
			bad := false
			for _, s := range strings.Split(f[2], ";") {
				g, ok := parseReg(s, 1)
				if !ok {
					bad = true
					break
				}
				regs = append(regs, g)
			}
			if bad {
				continue
			}
			emitHistory(w, f[0], cfg, regs, ops)
			continue
		}
		if len(f) < 5 {
			continue
		}
		cfg, ok := parseConfig(f[1])
		if !ok || !validName(f[4]) {
			continue
		}
		var paths []string
		okp := true
		func() {
			defer func() {
				if recover() != nil {
					okp = false
				}
			}()
			paths = gen.UnHexList(f[3])
		}()
		if !okp || len(paths) == 0 || !pathOK(paths[0]) {
			continue
		}
		var regs []reg
		bad := f[2] == "" || f[2] == "-"
		if !bad {
			for _, s := range strings.Split(f[2], ";") {
				g, ok := parseReg(s, len(paths))
				if !ok {
					bad = true
					break
				}
				regs = append(regs, g)
			}
		}
		if bad {
			continue
		}
		b, ok := build(cfg, regs, paths[1:])
		if !ok {
			continue
		}
		emit(w, f[0], b, f[4], paths[0])
	}
}

// pathOK: request paths the harness can hand to fasthttp unchanged (PathOriginal = the string).
func pathOK(p string) bool {
	if p == "" || p[0] != '/' || strings.HasPrefix(p, "//") {
		return false
	}
	for i := 0; i < len(p); i++ {
		if p[i] <= ' ' || p[i] == '?' || p[i] == '#' || p[i] >= 0x7f {
			return false
		}
	}
	return true
}

func main() {
	log.SetOutput(io.Discard)
	o := gen.ParseFlags()
	w := gen.NewWriter(o.Out)
	defer w.Close()
	if o.Replay != "" {
		replay(w, o.Replay)
		return
	}
	if o.Tier == "thorough" {
		exhaustive(w, o.Seed)
	}
	root := gen.New(o.Seed)
	perTable := 8
	for i := 0; i*perTable < o.N; i++ {
		r := root.Fork(uint64(i))
		t := genTable(r)
		b, ok := build(t.cfg, t.regs, t.ovr)
		if !ok {
			w.Count("table-build-panic")
			continue
		}
		countTable(w, t)
		if i%4 == 0 {
			hr := r.Fork(77001)
			hregs, hops := genHistory(hr, t)
			w.Count("history")
			emitHistory(w, fmt.Sprintf("s%d.%d.h", o.Seed, i), t.cfg, hregs, hops)
		}
		for j := 0; j < perTable && i*perTable+j < o.N; j++ {
			method, path := genReq(r, t)
			emit(w, fmt.Sprintf("s%d.%d.%d", o.Seed, i, j), b, method, path)
		}
	}
}
