package main

import (
	"encoding/json"
	"flag"
	"fmt"
	"os"
	"os/exec"
	"strconv"
	"strings"

	"verifharness/internal/gen"
)

// The Go runtime occasionally live-locks under `-tags faketime` (GC worker stuck runnable, the
// virtual clock never advances). Defence: GC off (main), and the generated run is split into child
// processes of `chunkSize` cases, each under coreutils `timeout` (real time) and retried.
const chunkSize = 1000

var (
	flagLo = flag.Int("lo", -1, "child mode: first case index")
	flagHi = flag.Int("hi", -1, "child mode: one past the last case index")
)

// runParent re-executes this binary per chunk and merges the part files into o.Out.
func runParent(o gen.Opts) {
	wr := gen.NewWriter(o.Out)
	defer wr.Close()
	for lo := 0; lo < o.N; lo += chunkSize {
		hi := lo + chunkSize
		if hi > o.N {
			hi = o.N
		}
		part := fmt.Sprintf("%s.part%d", o.Out, lo)
		ok := false
		for attempt := 0; attempt < 4 && !ok; attempt++ {
			_ = os.Remove(part)
			cmd := exec.Command("timeout", "-k", "5", "120", os.Args[0], "-seed", strconv.FormatUint(o.Seed, 10),
				"-n", strconv.Itoa(o.N), "-tier", o.Tier, "-lo", strconv.Itoa(lo), "-hi", strconv.Itoa(hi), "-out", part)
			if err := cmd.Run(); err == nil {
				ok = true
			} else {
				wr.Count("chunk-retry")
			}
		}
		if !ok {
			fmt.Fprintf(os.Stderr, "harness: chunk %d..%d failed repeatedly\n", lo, hi)
			os.Exit(3)
		}
		data, err := os.ReadFile(part)
		if err != nil {
			fmt.Fprintln(os.Stderr, "harness:", err)
			os.Exit(3)
		}
		for _, l := range strings.Split(string(data), "\n") {
			f := strings.Split(l, "\t")
			switch {
			case len(f) >= 2 && f[0] == "case":
				wr.Case(f[1], f[2:]...)
			case len(f) == 2 && f[0] == "dist":
				var m map[string]int
				if json.Unmarshal([]byte(f[1]), &m) == nil {
					for k, v := range m {
						for i := 0; i < v; i++ {
							wr.Count(k)
						}
					}
				}
			}
		}
		_ = os.Remove(part)
	}
}
