package main

import (
	"net/url"
	"strconv"
	"strings"
	"time"

	"verifharness/internal/gen"
)

var (
	schemes   = []string{"http", "https"}
	domains   = []string{"example.com", "a.example.com", "evil-example.com", "example.com.evil.io", "xexample.com", "site.io", "localhost", "127.0.0.1"}
	ports     = []string{"", "", "", ":8080", ":443"}
	reqHosts  = []string{"api.site.io", "example.com", "app.example.com", "localhost:3000", "site.io:8080", "API.Site.io", "[::1]:3000", "example.com.", "evil.test", "evil.com"}
	backends  = []string{"st", "st", "st", "st", "ss", "ss", "sm", "sm", "mem"}
	extractor = []string{"header", "header", "form", "query", "param", "cookie", "custom"}
	unsafeM   = []string{"POST", "POST", "POST", "PUT", "DELETE", "PATCH"}
	safeM     = []string{"GET", "GET", "HEAD", "OPTIONS", "TRACE"}

	// the URL vocabulary of C19's generator (net/url shapes an origin can be written in)
	schemesOK  = []string{"http", "https", "http", "https", "http", "https", "HTTP", "Https", "chrome-extension", "a+b.c-1", "x"}
	schemesAny = []string{"http", "https", "", "1http", "ht tp", "-x", "h_t", "HTTPS", "a:b", "http:", "x", "ftp"}
	hostsPlain = []string{"example.com", "a.example.com", "b.a.example.com", "evil-example.com", "examplexcom",
		"example.com.evil.io", "xexample.com", "localhost", "site.io", "127.0.0.1", "example.com.", "xn--bcher-kva.example",
		"sub.xn--p1ai", "ex_ample.com", "a"}
	hostsV6  = []string{"[::1]", "[2001:db8::1]", "[::FFFF:1.2.3.4]", "[fe80::1%25en0]"}
	hostsOdd = []string{"", "a%25b.com", "ex%41mple.com", "exa mple.com", "ex*mple.com", "[::1", "::1", "::1]", "[::1]x",
		"[fe80::1%25e%20n]", "[fe80::1%25e%2Fn]", "[fe80::1%25%41]", "a..b", ".", "ex%zzmple.com", "ex%2", "a<b>c", "a\"b", "a\\b", "a^b", "a\tb", "exa\x7fmple.com",
		"a,b", "a;b=c", "(a)", "a'b", "a!b", "a$b", "a&b", "a+b", "a~b", "a|b", "a{b}", "a`b"}
	portsOK   = []string{"", "", "", "", ":8080", ":443", ":80", ":3000"}
	portsAny  = []string{"", ":", ":0", ":65536", ":80a", ":-1", ":99999999999999999999", ":8080", ": 80"}
	usersOK   = []string{"user@", "user:pw@", "u%40x@", "a@b@", ":@", "@", "user:p:w@"}
	usersAny  = []string{"us er@", "u%zz@", "u/x@", "u?x@", "u#x@", "u[x@", "user:p%w@", "\xc3\xa9@", "u%@"}
	tailsOK   = []string{"", "", "", "", "", "/", "/", "?", "/?", "#", "/#", "?#", "/?#"}
	tailsAny  = []string{"//", "/path", "?q=1", "#frag", "/%2F", "/%zz", "/.", ";x", "/?q", "/#f", "??", "?#f", "#?", "/ ", "\\", "/*", "#%zz", "#%41", "?%zz"}
	tailsPath = []string{"/", "/page", "/a/b?x=1", "/p#frag", "?q=1", "#f", "/%41", "/a%zz", "?", "#", "/?#", "//x", "/x y"}
)

func mixCase(r *gen.Rand, s string) string {
	if !r.Chance(1, 4) {
		return s
	}
	b := []byte(s)
	for i := range b {
		if r.Chance(1, 3) && b[i] >= 'a' && b[i] <= 'z' {
			b[i] -= 32
		}
	}
	return string(b)
}

func genHost(r *gen.Rand) string {
	if r.Chance(1, 6) {
		return gen.Pick(r, hostsV6)
	}
	return gen.Pick(r, hostsPlain)
}

// genEntry builds one TrustedOrigins entry over net/url's shapes. clean: a shape the constructor
// should accept (http/https, optional userinfo, host, optional port, a tail that normalisation
// strips); otherwise one or two components come from the odd vocabulary (most must be refused).
func genEntry(r *gen.Rand, wr *gen.Writer, wildcard bool) string {
	clean := r.Chance(7, 8)
	scheme, user, host, port, tail := gen.Pick(r, schemesOK[:8]), "", genHost(r), gen.Pick(r, portsOK), gen.Pick(r, tailsOK)
	if r.Chance(1, 3) {
		host = gen.Pick(r, domains[:6])
	}
	if r.Chance(1, 8) {
		user = gen.Pick(r, usersOK)
	}
	if !clean {
		for k := 1 + r.Intn(2); k > 0; k-- {
			switch r.Intn(5) {
			case 0:
				scheme = gen.Pick(r, schemesAny)
			case 1:
				user = gen.Pick(r, usersAny)
			case 2:
				host = gen.Pick(r, hostsOdd)
			case 3:
				port = gen.Pick(r, portsAny)
			default:
				tail = gen.Pick(r, tailsAny)
			}
		}
		wr.Count("entry-odd")
	} else {
		wr.Count("entry-clean")
	}
	sep := "://"
	if !clean && r.Chance(1, 10) {
		sep = gen.Pick(r, []string{":/", ":", "//", ":///", "://:"})
	}
	var o string
	if wildcard {
		switch {
		case r.Chance(1, 12):
			// the wildcard in front of a userinfo (the dot belongs to the userinfo), or a second one:
			// entries the constructor must refuse
			o = scheme + sep + "*." + gen.Pick(r, []string{"user@", "a@", "u:p@", "@", "*."}) + host + port + tail
			wr.Count("entry-wild-userinfo")
		case r.Chance(1, 16):
			o = scheme + sep + gen.Pick(r, usersOK) + "*." + host + port + tail // userinfo then wildcard: not a "://*." entry
		default:
			o = scheme + sep + "*." + host + port + tail
		}
	} else {
		o = scheme + sep + user + host + port + tail
	}
	if r.Chance(1, 6) {
		o = gen.Pick(r, []string{" ", "  ", "      ", ""}) + o + gen.Pick(r, []string{"", " ", "  "})
		wr.Count("entry-spaces")
	}
	return mixCase(r, o)
}

func genTrusted(r *gen.Rand, wr *gen.Writer) []string {
	var out []string
	for i := r.Intn(4); i > 0; i-- {
		switch r.Intn(12) {
		case 0, 1, 2:
			out = append(out, gen.Pick(r, schemes)+"://*."+gen.Pick(r, domains[:6])+gen.Pick(r, ports))
		case 3, 4, 5:
			out = append(out, genEntry(r, wr, true))
		case 6, 7:
			out = append(out, genEntry(r, wr, false))
		case 8:
			if r.Chance(1, 4) {
				// invalid entries: the constructor must panic
				out = append(out, gen.Pick(r, []string{"localhost", "https://*", "ftp://example.com", "https://*.*.com", "https://example.com/path",
					"https://example.com?x=1", "null", "", " ", "//example.com", "http://", "https://*.", "http://*./", "*.example.com", " * "}))
			} else {
				out = append(out, gen.Pick(r, []string{"", " "})+gen.Pick(r, schemes)+"://"+gen.Pick(r, []string{"", "*."})+gen.Pick(r, domains[:6])+" ")
			}
		default:
			out = append(out, gen.Pick(r, schemes)+"://"+gen.Pick(r, domains)+gen.Pick(r, ports))
		}
	}
	return out
}

// entryOrigin: what net/url reads off a configured entry (trimmed, the `*` of a "://*." entry cut
// out): scheme and host in lower case, and whether it is a wildcard entry. Used only to aim requests.
func entryOrigin(e string) (scheme, host string, wild, ok bool) {
	o := strings.Trim(e, " ")
	if i := strings.Index(o, "://*."); i >= 0 {
		o = o[:i+3] + o[i+4:]
		wild = true
	}
	u, err := url.Parse(o)
	if err != nil || u.Host == "" {
		return "", "", wild, false
	}
	return strings.ToLower(u.Scheme), strings.ToLower(u.Host), wild, true
}

// genOriginLike produces Origin/Referer values aimed at the trust decision.
func genOriginLike(r *gen.Rand, c cfgIn, host string, https bool, referer bool) string {
	sch := "http"
	if https {
		sch = "https"
	}
	same := sch + "://" + strings.ToLower(host)
	pathy := func(s string) string {
		if referer && r.Chance(1, 2) {
			return s + gen.Pick(r, tailsPath)
		}
		if !referer && r.Chance(1, 12) {
			return s + gen.Pick(r, tailsOK)
		}
		return s
	}
	// ways to write the same scheme://host: userinfo, letter case
	dress := func(scheme, hostport string) string {
		switch r.Intn(8) {
		case 0:
			return scheme + "://" + gen.Pick(r, usersOK) + hostport
		case 1:
			return strings.ToUpper(scheme) + "://" + hostport
		case 2:
			return mixCase(r, scheme+"://"+hostport)
		default:
			return scheme + "://" + hostport
		}
	}
	switch r.Intn(16) {
	case 0, 1, 2:
		return pathy(dress(sch, strings.ToLower(host)))
	case 3:
		// same host, other scheme / port / case / trailing dot / userinfo trick
		return pathy(gen.Pick(r, []string{gen.Pick(r, schemes) + "://" + host, same + ":8443", strings.ToUpper(same), sch + "://x" + host,
			same + ".", sch + "://" + host + "@evil.com", sch + "://evil.com#@" + host, sch + "://evil.com/" + host}))
	case 4, 5, 6, 7, 8, 9:
		if len(c.trusted) == 0 {
			return pathy(gen.Pick(r, schemes) + "://" + gen.Pick(r, domains) + gen.Pick(r, ports))
		}
		es, eh, wild, ok := entryOrigin(gen.Pick(r, c.trusted))
		if !ok {
			return pathy(gen.Pick(r, schemes) + "://" + genHost(r) + gen.Pick(r, portsOK))
		}
		if !wild {
			switch r.Intn(8) {
			case 0:
				return pathy(es + "://" + eh + gen.Pick(r, []string{":81", ".evil.io", "x", "."}))
			case 1:
				return pathy(es + "://sub." + eh)
			case 2:
				return pathy(es + "://" + eh + "@evil.com")
			case 3:
				return pathy(gen.Pick(r, schemes) + "://" + eh)
			default:
				return pathy(dress(es, eh))
			}
		}
		dom := strings.TrimPrefix(eh, ".") // host suffix without the leading dot
		pre := es + "://"
		switch r.Intn(14) {
		case 0:
			return pathy(pre + "x" + dom) // look-alike: no dot
		case 1:
			return pre + "evil.com/x." + dom // suffix only in the path
		case 2:
			return pre + "evil.com" + gen.Pick(r, []string{"?", "#", "/?q=", "/a/b/"}) + "." + dom
		case 3:
			return pathy(pre + "." + dom) // empty label
		case 4:
			return pathy(pre + dom) // the bare domain
		case 5:
			return pathy(gen.Pick(r, schemes) + "://sub." + dom) // maybe wrong scheme
		case 6:
			return pathy(pre + "sub." + dom + gen.Pick(r, []string{":8080", ".evil.io", "x", "."}))
		case 7:
			return pathy(pre + gen.Pick(r, []string{"user@sub.", ".evil", ".x.", "u:p@", "user@"}) + dom)
		case 8:
			return pathy(pre + "sub." + dom + "@evil.com")
		case 9:
			return pathy(pre + "evil.com@sub." + dom)
		default:
			return pathy(dress(es, gen.Pick(r, []string{"sub.", "a.b.", "SUB."})+dom))
		}
	case 10:
		return gen.Pick(r, []string{"null", "NULL", "Null", " null", "https://", "://x", "example.com", "https://exa mple.com", "https://a.example.com%zz", "%",
			"https:evil.com/.example.com", "//example.com", "*", "https://[::1", "http://a:b:c", "http://[::1]:x", "\x7f", "http://a\tb"})
	case 11:
		// any URL shape
		return gen.Pick(r, schemesOK) + "://" + gen.Pick(r, append([]string{""}, usersOK...)) + gen.Pick(r, append(hostsOdd, hostsV6...)) +
			gen.Pick(r, portsAny) + gen.Pick(r, append(tailsOK, tailsAny...))
	default:
		return pathy(dress(gen.Pick(r, schemes), genHost(r)+gen.Pick(r, portsOK)))
	}
}

type client struct{ ck, sc string }

// mangle returns a token that differs slightly from t: a proper prefix, an extension, another case.
func mangle(r *gen.Rand, t string) string {
	if t == "" {
		return "t"
	}
	switch r.Intn(4) {
	case 0:
		return t[:len(t)-1]
	case 1:
		return t + gen.Pick(r, []string{"0", "x", "-"})
	case 2:
		return strings.ToUpper(t)
	default:
		return t[:1]
	}
}

// genCase generates a history adaptively (choices look at what the server answered so far) but
// records only concrete values, so the case replays and shrinks as plain data.
func genCase(r *gen.Rand, wr *gen.Writer) (cfgIn, []op, string) {
	c := cfgIn{backend: gen.Pick(r, backends), ext: gen.Pick(r, extractor), single: r.Chance(2, 5),
		idle: gen.Pick(r, []int{1, 2, 5, 10, 60}), trusted: genTrusted(r, wr)}
	// front: ErrorHandler, Next, cookie fields
	c.eh = gen.Pick(r, []string{"d", "d", "c", "c", "n"})
	c.next = r.Chance(1, 4)
	if r.Chance(1, 2) {
		c.ckSecure, c.ckHTTPOnly, c.ckSessOnly = r.Chance(1, 3), r.Chance(1, 2), r.Chance(1, 4)
		c.ckSameSite = gen.Pick(r, []string{"", "Lax", "Strict", "None", "none", "STRICT", "disabled", "Disabled", "bogus", "lax"})
		c.ckDomain = gen.Pick(r, []string{"", "example.com", "Example.COM", ".site.io"})
		c.ckPath = gen.Pick(r, []string{"", "/", "/app", "app", "/a/b/", "a/b"})
		wr.Count("cookie-fields")
	}
	// tokens whose length is a multiple of 256 (a comparison that folds the length into one byte
	// takes the empty cookie for equal)
	if r.Chance(1, 8) {
		c.kg = gen.Pick(r, []int{256, 512})
		wr.Count("long-tokens")
	}
	wr.Count("eh-" + c.eh)
	if c.next {
		wr.Count("next-set")
	}
	wr.Count("backend-" + c.backend)
	wr.Count("ext-" + c.ext)
	w, panicked := newWorld(c)
	if panicked {
		wr.Count("ctor-panic")
		// still give the model something to agree on: a single op
		return c, []op{{kind: "a", secs: 1}}, "panic"
	}
	ncl := 1 + r.Intn(3)
	cls := make([]client, ncl)
	seen := []string{"zz", "t999"}
	seenSid := []string{"forged", "s999"}
	// origins (scheme://host) that an earlier unsafe request of this history presented as ITS OWN
	// origin: a later request to another Host must not profit from them
	var ownOrigins []string
	n := 3 + r.Intn(10)
	var ops []op
	var obs []string
	faultsOK := c.backend == "st" || c.backend == "ss"
	for i := 0; i < n; i++ {
		if r.Chance(1, 5) {
			o := op{kind: "a", secs: gen.Pick(r, []int{1, 1, 2, c.idle - 1, c.idle, c.idle + 1, 3})}
			if o.secs < 0 {
				o.secs = 0
			}
			time.Sleep(time.Duration(o.secs) * time.Second)
			ops = append(ops, o)
			obs = append(obs, "-")
			continue
		}
		ci := r.Intn(ncl)
		cl := &cls[ci]
		o := op{kind: "r"}
		unsafe := r.Chance(3, 5)
		if unsafe {
			o.method = gen.Pick(r, unsafeM)
		} else {
			o.method = gen.Pick(r, safeM)
		}
		o.host = gen.Pick(r, reqHosts)
		o.https = r.Chance(1, 2)
		// cookie
		switch r.Intn(12) {
		case 0:
			o.ck = ""
		case 1:
			o.ck = cls[r.Intn(ncl)].ck
		case 2:
			o.ck = gen.Pick(r, seen)
		case 3:
			o.ck = mangle(r, cl.ck) // near miss of the client's own token (cookie and presented value agree)
		default:
			o.ck = cl.ck
		}
		switch r.Intn(12) {
		case 0:
			o.sc = ""
		case 1:
			o.sc = cls[r.Intn(ncl)].sc
		case 2:
			o.sc = gen.Pick(r, seenSid)
		default:
			o.sc = cl.sc
		}
		// presented token
		tok := o.ck
		switch r.Intn(12) {
		case 0:
			tok = ""
		case 1:
			tok = gen.Pick(r, seen)
		case 2:
			tok = cls[r.Intn(ncl)].ck
		case 3:
			if r.Chance(1, 2) {
				tok = mangle(r, o.ck) // cookie and presented value differ slightly
			}
		}
		// length-aimed near misses around a token the server knows: one of cookie / presented value is
		// the other followed by 255, 256, 257 or 512 bytes (lengths that agree modulo 256, and
		// controls), a proper prefix, or empty
		if cl.ck != "" && ((unsafe && r.Chance(1, 6)) || (c.kg > 0 && r.Chance(1, 3))) {
			base := cl.ck
			if other := cls[r.Intn(ncl)].ck; other != "" && r.Chance(1, 6) {
				base = other // another client's live token
			}
			pad := strings.Repeat(gen.Pick(r, []string{"x", "0", "-"}), gen.Pick(r, []int{255, 256, 256, 257, 512, 512, 1, 768}))
			switch r.Intn(8) {
			case 0, 1:
				o.ck, tok = base+pad, base // cookie = token ++ pad
			case 2:
				o.ck, tok = base, base+pad // token = cookie ++ pad
			case 3:
				o.ck, tok = "", base // no cookie at all
			case 4:
				k := gen.Pick(r, []int{1, len(base) / 2, len(base) - 1})
				if k < 0 || k > len(base) {
					k = 0
				}
				o.ck, tok = base[:k], base // cookie a proper prefix of the token
			case 5:
				k := gen.Pick(r, []int{1, len(base) / 2, len(base) - 1})
				if k < 0 || k > len(base) {
					k = 0
				}
				o.ck, tok = base, base[:k] // token a proper prefix of the cookie
			case 6:
				o.ck, tok = base+pad, base+pad // both padded alike
			default:
				o.ck, tok = pad, base // same length class, other bytes
			}
			wr.Count("length-near-miss")
		}
		place := c.ext
		if r.Chance(1, 12) {
			place = gen.Pick(r, extractor)
		}
		switch place {
		case "header":
			o.hdr = tok
		case "form":
			if r.Chance(1, 5) {
				o.qry = tok // FormValue also reads the query string
			} else {
				o.form = tok
			}
		case "query":
			o.qry = tok
		case "param":
			o.param = tok
		case "custom":
			o.custom = tok
			if r.Chance(1, 15) {
				o.custom = "err"
			}
		case "cookie":
		}
		if c.ext == "param" && (o.param == "" || !tokenSafe(o.param)) {
			o.param = "none"
		}
		if c.ext == "form" && o.form != "" && r.Chance(1, 10) {
			o.qry = gen.Pick(r, seen) // query wins over the body
		}
		// origin / referer
		switch r.Intn(10) {
		case 0, 1, 2:
		case 3, 4:
			o.referer = genOriginLike(r, c, o.host, o.https, true)
		case 5:
			o.origin = gen.Pick(r, []string{"null", ""})
			o.referer = genOriginLike(r, c, o.host, o.https, true)
		case 6:
			o.origin = genOriginLike(r, c, o.host, o.https, false)
			o.referer = genOriginLike(r, c, o.host, o.https, true)
		default:
			o.origin = genOriginLike(r, c, o.host, o.https, false)
		}
		// the Host header varies within a history; the origin decision of one request must not leak
		// into the next (the gate is a function of configuration and request only)
		sch := "http"
		if o.https {
			sch = "https"
		}
		own := sch + "://" + strings.ToLower(o.host)
		present := func(tok string) { // the token through the configured extractor, nothing else
			o.hdr, o.qry, o.form, o.param, o.custom = "", "", "", "", ""
			switch c.ext {
			case "header":
				o.hdr = tok
			case "form":
				o.form = tok
			case "query":
				o.qry = tok
			case "param":
				o.param = tok
			case "custom":
				o.custom = tok
			}
			if c.ext == "param" && (o.param == "" || !tokenSafe(o.param)) {
				o.param = "none"
			}
		}
		crossHost := false
		if unsafe && r.Chance(1, 8) {
			// primer: an unsafe request from its own origin (Origin, or on https Referer only), mostly
			// without a token
			if o.https && r.Chance(1, 2) {
				o.origin, o.referer = gen.Pick(r, []string{"", "null"}), own+gen.Pick(r, []string{"", "/", "/page?x=1"})
			} else {
				o.origin = own
			}
			if r.Chance(2, 3) {
				present("")
			}
			wr.Count("own-origin-primer")
		} else if unsafe && len(ownOrigins) > 0 && cl.ck != "" && r.Chance(1, 4) {
			// a foreign origin that an earlier request (to another Host) presented as its own, now
			// with this client's valid cookie, session and token
			if po := gen.Pick(r, ownOrigins); po != own {
				o.ck, o.sc = cl.ck, cl.sc
				present(cl.ck)
				if o.https && strings.HasPrefix(po, "https://") && r.Chance(1, 2) {
					o.origin, o.referer = gen.Pick(r, []string{"", "null"}), po+gen.Pick(r, []string{"", "/", "/page?x=1"})
				} else {
					o.origin = po
				}
				crossHost = true
				wr.Count("cross-host-origin")
			}
		}
		if unsafe && (strings.ToLower(o.origin) == own || ((o.origin == "" || strings.ToLower(o.origin) == "null") && o.https && strings.HasPrefix(strings.ToLower(o.referer), own))) {
			ownOrigins = append(ownOrigins, own)
		}
		// the protected handler calls DeleteToken: on safe requests, and "logout" style on unsafe ones
		if !crossHost && ((!unsafe && r.Chance(1, 6)) || (unsafe && r.Chance(1, 9))) {
			o.del = true
		}
		if !crossHost && ((c.next && r.Chance(1, 4)) || (!c.next && r.Chance(1, 25))) {
			o.skip = true
			wr.Count("skip-header")
		}
		if !crossHost && faultsOK && r.Chance(1, 7) {
			o.faults = gen.Pick(r, []string{"g", "s", "d", "gs", "sd", "gsd"})
			wr.Count("faulted-req")
		}
		res := w.do(o)
		ops = append(ops, o)
		obs = append(obs, res)
		// update the jar from the answer
		f := strings.Split(res, ",")
		if len(f) == 10 {
			if f[0] == "1" {
				if unsafe {
					wr.Count("unsafe-pass")
				}
			} else if unsafe {
				wr.Count("unsafe-reject-" + f[1])
			}
			switch f[2] {
			case "none":
			case "exp":
				cl.ck = ""
			default:
				cl.ck = gen.UnHex(f[2])
				seen = append(seen, cl.ck)
			}
			if f[3] != "none" {
				cl.sc = gen.UnHex(f[3])
				seenSid = append(seenSid, cl.sc)
			}
		}
	}
	_ = strconv.Itoa
	return c, ops, strings.Join(obs, ";")
}
