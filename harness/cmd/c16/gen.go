package main

import (
	"strconv"
	"strings"
	"time"

	"verifharness/internal/gen"
)

var (
	schemes   = []string{"http", "https"}
	domains   = []string{"example.com", "a.example.com", "evil-example.com", "example.com.evil.io", "xexample.com", "site.io", "localhost", "127.0.0.1"}
	ports     = []string{"", "", "", ":8080", ":443"}
	reqHosts  = []string{"api.site.io", "example.com", "app.example.com", "localhost:3000", "site.io:8080", "API.Site.io"}
	backends  = []string{"st", "st", "st", "st", "ss", "ss", "sm", "sm", "mem"}
	extractor = []string{"header", "header", "form", "query", "param", "cookie", "custom"}
	unsafeM   = []string{"POST", "POST", "POST", "PUT", "DELETE", "PATCH"}
	safeM     = []string{"GET", "GET", "HEAD", "OPTIONS", "TRACE"}
)

func genTrusted(r *gen.Rand) []string {
	var out []string
	for i := r.Intn(4); i > 0; i-- {
		switch r.Intn(10) {
		case 0, 1, 2, 3:
			out = append(out, gen.Pick(r, schemes)+"://*."+gen.Pick(r, domains[:6])+gen.Pick(r, ports))
		case 4:
			out = append(out, gen.Pick(r, schemes)+"://"+gen.Pick(r, domains)+"/")
		case 5:
			out = append(out, gen.Pick(r, schemes)+"://"+strings.ToUpper(gen.Pick(r, domains)))
		case 6:
			if r.Chance(1, 6) {
				// invalid entries: the constructor must panic
				out = append(out, gen.Pick(r, []string{"localhost", "https://*", "ftp://example.com", "https://*.*.com", "https://example.com/path", "https://example.com?x=1"}))
			} else {
				out = append(out, gen.Pick(r, []string{"", " "})+gen.Pick(r, schemes)+"://"+gen.Pick(r, []string{"", "*."})+gen.Pick(r, domains[:6])+" ")
			}
		default:
			out = append(out, gen.Pick(r, schemes)+"://"+gen.Pick(r, domains)+gen.Pick(r, ports))
		}
	}
	return out
}

// genOriginLike produces Origin/Referer values aimed at the trust decision.
func genOriginLike(r *gen.Rand, c cfgIn, host string, https bool, referer bool) string {
	sch := "http"
	if https {
		sch = "https"
	}
	same := sch + "://" + strings.ToLower(host)
	pathy := func(s string) string {
		if referer && r.Chance(1, 2) {
			return s + gen.Pick(r, []string{"/", "/page", "/a/b?x=1", "/p#frag", "?q=1"})
		}
		return s
	}
	switch r.Intn(14) {
	case 0, 1, 2:
		return pathy(same)
	case 3:
		// same host, other scheme / port / case
		return pathy(gen.Pick(r, []string{gen.Pick(r, schemes) + "://" + host, same + ":8443", strings.ToUpper(same), sch + "://x" + host}))
	case 4, 5, 6, 7, 8:
		if len(c.trusted) == 0 {
			return pathy(gen.Pick(r, schemes) + "://" + gen.Pick(r, domains) + gen.Pick(r, ports))
		}
		t := strings.TrimSuffix(strings.TrimSpace(gen.Pick(r, c.trusted)), "/")
		i := strings.Index(t, "://*.")
		if i < 0 {
			switch r.Intn(5) {
			case 0:
				return pathy(t + gen.Pick(r, []string{":81", ".evil.io", "x"}))
			case 1:
				return pathy(strings.Replace(t, "://", "://sub.", 1))
			default:
				return pathy(t)
			}
		}
		pre, dom := t[:i+3], t[i+5:] // dom without the leading "*."
		switch r.Intn(12) {
		case 0:
			return pathy(pre + "x" + dom) // look-alike: no dot
		case 1:
			return pre + "evil.com/x." + dom // suffix only in the path
		case 2:
			return pre + "evil.com" + gen.Pick(r, []string{"?", "#", "/?q=", "/a/b/"}) + "." + dom
		case 3:
			return pathy(pre + "." + dom) // empty label
		case 4:
			return pathy(pre + dom) // the bare domain
		case 5:
			return pathy(gen.Pick(r, schemes) + "://sub." + dom) // maybe wrong scheme
		case 6:
			return pathy(pre + "sub." + dom + gen.Pick(r, []string{":8080", ".evil.io", "x"}))
		case 7:
			return pathy(pre + gen.Pick(r, []string{"user@sub.", ".evil", ".x."}) + dom)
		case 8:
			return pathy(pre + "sub." + dom + "@evil.com")
		default:
			return pathy(pre + gen.Pick(r, []string{"sub.", "a.b.", "SUB."}) + dom)
		}
	case 9:
		return gen.Pick(r, []string{"null", "NULL", "https://", "://x", "example.com", "https://exa mple.com", "https://a.example.com%zz", "%", "https:evil.com/.example.com", "//example.com"})
	default:
		return pathy(gen.Pick(r, schemes) + "://" + gen.Pick(r, domains) + gen.Pick(r, ports))
	}
}

type client struct{ ck, sc string }

// mangle returns a token that differs slightly from t: a proper prefix, an extension, another case.
func mangle(r *gen.Rand, t string) string {
	if t == "" {
		return "t"
	}
	switch r.Intn(4) {
	case 0:
		return t[:len(t)-1]
	case 1:
		return t + gen.Pick(r, []string{"0", "x", "-"})
	case 2:
		return strings.ToUpper(t)
	default:
		return t[:1]
	}
}

// genCase generates a history adaptively (choices look at what the server answered so far) but
// records only concrete values, so the case replays and shrinks as plain data.
func genCase(r *gen.Rand, wr *gen.Writer) (cfgIn, []op, string) {
	c := cfgIn{backend: gen.Pick(r, backends), ext: gen.Pick(r, extractor), single: r.Chance(2, 5),
		idle: gen.Pick(r, []int{1, 2, 5, 10, 60}), trusted: genTrusted(r)}
	wr.Count("backend-" + c.backend)
	wr.Count("ext-" + c.ext)
	w, panicked := newWorld(c)
	if panicked {
		wr.Count("ctor-panic")
		// still give the model something to agree on: a single op
		return c, []op{{kind: "a", secs: 1}}, "panic"
	}
	ncl := 1 + r.Intn(3)
	cls := make([]client, ncl)
	seen := []string{"zz", "t999"}
	seenSid := []string{"forged", "s999"}
	n := 3 + r.Intn(10)
	var ops []op
	var obs []string
	faultsOK := c.backend == "st" || c.backend == "ss"
	for i := 0; i < n; i++ {
		if r.Chance(1, 5) {
			o := op{kind: "a", secs: gen.Pick(r, []int{1, 1, 2, c.idle - 1, c.idle, c.idle + 1, 3})}
			if o.secs < 0 {
				o.secs = 0
			}
			time.Sleep(time.Duration(o.secs) * time.Second)
			ops = append(ops, o)
			obs = append(obs, "-")
			continue
		}
		ci := r.Intn(ncl)
		cl := &cls[ci]
		o := op{kind: "r"}
		unsafe := r.Chance(3, 5)
		if unsafe {
			o.method = gen.Pick(r, unsafeM)
		} else {
			o.method = gen.Pick(r, safeM)
		}
		o.host = gen.Pick(r, reqHosts)
		o.https = r.Chance(1, 2)
		// cookie
		switch r.Intn(12) {
		case 0:
			o.ck = ""
		case 1:
			o.ck = cls[r.Intn(ncl)].ck
		case 2:
			o.ck = gen.Pick(r, seen)
		case 3:
			o.ck = mangle(r, cl.ck) // near miss of the client's own token (cookie and presented value agree)
		default:
			o.ck = cl.ck
		}
		switch r.Intn(12) {
		case 0:
			o.sc = ""
		case 1:
			o.sc = cls[r.Intn(ncl)].sc
		case 2:
			o.sc = gen.Pick(r, seenSid)
		default:
			o.sc = cl.sc
		}
		// presented token
		tok := o.ck
		switch r.Intn(12) {
		case 0:
			tok = ""
		case 1:
			tok = gen.Pick(r, seen)
		case 2:
			tok = cls[r.Intn(ncl)].ck
		case 3:
			if r.Chance(1, 2) {
				tok = mangle(r, o.ck) // cookie and presented value differ slightly
			}
		}
		place := c.ext
		if r.Chance(1, 12) {
			place = gen.Pick(r, extractor)
		}
		switch place {
		case "header":
			o.hdr = tok
		case "form":
			if r.Chance(1, 5) {
				o.qry = tok // FormValue also reads the query string
			} else {
				o.form = tok
			}
		case "query":
			o.qry = tok
		case "param":
			o.param = tok
		case "custom":
			o.custom = tok
			if r.Chance(1, 15) {
				o.custom = "err"
			}
		case "cookie":
		}
		if c.ext == "param" && (o.param == "" || !tokenSafe(o.param)) {
			o.param = "none"
		}
		if c.ext == "form" && o.form != "" && r.Chance(1, 10) {
			o.qry = gen.Pick(r, seen) // query wins over the body
		}
		// origin / referer
		switch r.Intn(10) {
		case 0, 1, 2:
		case 3, 4:
			o.referer = genOriginLike(r, c, o.host, o.https, true)
		case 5:
			o.origin = gen.Pick(r, []string{"null", ""})
			o.referer = genOriginLike(r, c, o.host, o.https, true)
		case 6:
			o.origin = genOriginLike(r, c, o.host, o.https, false)
			o.referer = genOriginLike(r, c, o.host, o.https, true)
		default:
			o.origin = genOriginLike(r, c, o.host, o.https, false)
		}
		// the protected handler calls DeleteToken: on safe requests, and "logout" style on unsafe ones
		if (!unsafe && r.Chance(1, 6)) || (unsafe && r.Chance(1, 9)) {
			o.del = true
		}
		if faultsOK && r.Chance(1, 7) {
			o.faults = gen.Pick(r, []string{"g", "s", "d", "gs", "sd", "gsd"})
			wr.Count("faulted-req")
		}
		res := w.do(o)
		ops = append(ops, o)
		obs = append(obs, res)
		// update the jar from the answer
		f := strings.Split(res, ",")
		if len(f) == 9 {
			if f[0] == "1" {
				if unsafe {
					wr.Count("unsafe-pass")
				}
			} else if unsafe {
				wr.Count("unsafe-reject-" + f[1])
			}
			switch f[2] {
			case "none":
			case "exp":
				cl.ck = ""
			default:
				cl.ck = gen.UnHex(f[2])
				seen = append(seen, cl.ck)
			}
			if f[3] != "none" {
				cl.sc = gen.UnHex(f[3])
				seenSid = append(seenSid, cl.sc)
			}
		}
	}
	_ = strconv.Itoa
	return c, ops, strings.Join(obs, ";")
}
