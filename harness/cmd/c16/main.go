// Harness for C16: runs the real csrf middleware (and, for the session back-ends, the real session
// store / middleware) on generated request histories under the virtual clock of `-tags faketime`,
// and writes one case line per history: configuration, the concrete ops, the implementation's
// per-op observation.
//
// Case fields after the id:
//   backend(st|mem|ss|sm) extractor(header|form|query|param|cookie|custom) single(0/1) idle(secs)
//   trusted(hexlist)
//   front(`eh=<d|c|n>;next=<0|1>;ck=<secure><httponly><sessiononly>,<samesite hex>,<domain hex>,<path hex>[;kg=<0|256|512>]`:
//     kg = the KeyGenerator pads every token with `x` to that many bytes (0 = `t<n>` as it is);
//     ErrorHandler default / custom (one status per error) / swallowing (returns nil); Next configured
//     (skips requests carrying `X-Skip: 1`); the cookie fields of the configuration)
//   ops(`;`-separated)
//   urlFacts(`hex(arg)=err|scheme|host|path|rawquery|fragment` joined by `;`: what the real net/url.Parse
//     answers on every string the constructor can hand to it; recomputed on replay)
//   obs(`;`-separated, one per op, or `panic`)
// Ops (`:`-separated sub-fields, byte strings hex, `-` = empty):
//   a:<secs>
//   r:<METHOD>:<csrf cookie>:<session cookie>:<hdr tok>:<query tok>:<form tok>:<param tok>:<custom tok>:
//     <origin>:<ok>:<scheme>:<host>:<referer>:<ok>:<scheme>:<host>:<Host header>:<https 0/1>:<del 0/1>:<faults g/s/d or ->:<skip 0/1>
//   (ok/scheme/host = net/url.Parse of the lower-cased header: recomputed by the harness on replay)
// Observation per `r` op: pass,status,ck(none|exp|hex),sc(none|hex),gen(+-joined hex|-),sgen,
//   fired(faults that actually hit a storage call: subset of gsd, or -),
//   early(1 = a fault hit before the protected handler was entered, or it never was),
//   live(+-joined k@deadline|?|-),
//   attrs(- = no csrf cookie set | <domain hex>~<path hex>~<secure><httponly>~<lax|strict|none|disabled|default>~<expires secs|none>)
package main

import (
	"bytes"
	"crypto/tls"
	"encoding/gob"
	"errors"
	"fmt"
	"io"
	"net"
	"net/url"
	"runtime/debug"
	"sort"
	"strconv"
	"strings"
	"time"

	"github.com/gofiber/fiber/v3"
	"github.com/gofiber/fiber/v3/log"
	"github.com/gofiber/fiber/v3/middleware/csrf"
	"github.com/gofiber/fiber/v3/middleware/session"
	"github.com/valyala/fasthttp"

	"verifharness/internal/gen"
)

// ---------------------------------------------------------------------------------------------
// injected storage: a map with TTL on the (virtual) clock and per-request fault flags

var errFault = errors.New("injected storage fault")

type entry struct {
	val []byte
	exp time.Time // zero = no expiry
}

type faultStorage struct {
	m                         map[string]entry
	failGet, failSet, failDel bool
	fired                     [3]bool // a Get / Set / Delete actually failed during this request
}

func newFaultStorage() *faultStorage { return &faultStorage{m: map[string]entry{}} }

func (s *faultStorage) live(e entry) bool { return e.exp.IsZero() || time.Now().Before(e.exp) }

func (s *faultStorage) Get(key string) ([]byte, error) {
	if s.failGet {
		s.fired[0] = true
		return nil, errFault
	}
	e, ok := s.m[key]
	if !ok || !s.live(e) {
		return nil, nil
	}
	return e.val, nil
}

func (s *faultStorage) Set(key string, val []byte, exp time.Duration) error {
	if s.failSet {
		s.fired[1] = true
		return errFault
	}
	if len(key) == 0 || len(val) == 0 {
		return nil
	}
	e := entry{val: append([]byte(nil), val...)}
	if exp != 0 {
		e.exp = time.Now().Add(exp)
	}
	s.m[key] = e
	return nil
}

func (s *faultStorage) Delete(key string) error {
	if s.failDel {
		s.fired[2] = true
		return errFault
	}
	delete(s.m, key)
	return nil
}

func (s *faultStorage) Reset() error { s.m = map[string]entry{}; return nil }
func (s *faultStorage) Close() error { return nil }

// ---------------------------------------------------------------------------------------------
// fake TLS connection: makes fasthttp's RequestCtx.IsTLS() true without the proxy headers

type fakeConn struct{ tlsOn bool }

func (fakeConn) Read([]byte) (int, error)         { return 0, io.EOF }
func (fakeConn) Write(b []byte) (int, error)      { return len(b), nil }
func (fakeConn) Close() error                     { return nil }
func (fakeConn) LocalAddr() net.Addr              { return &net.TCPAddr{IP: net.IPv4(127, 0, 0, 1), Port: 443} }
func (fakeConn) RemoteAddr() net.Addr             { return &net.TCPAddr{IP: net.IPv4(127, 0, 0, 1), Port: 50000} }
func (fakeConn) SetDeadline(time.Time) error      { return nil }
func (fakeConn) SetReadDeadline(time.Time) error  { return nil }
func (fakeConn) SetWriteDeadline(time.Time) error { return nil }

type fakeTLSConn struct{ fakeConn }

func (fakeTLSConn) Handshake() error                    { return nil }
func (fakeTLSConn) ConnectionState() tls.ConnectionState { return tls.ConnectionState{} }

// ---------------------------------------------------------------------------------------------

type cfgIn struct {
	backend, ext string
	single       bool
	idle         int
	trusted      []string
	// front
	eh                                string // "d" default | "c" custom (a status per error) | "n" swallows the error (returns nil)
	next                              bool   // Config.Next = "the request carries X-Skip: 1"
	ckSecure, ckHTTPOnly, ckSessOnly  bool
	ckSameSite, ckDomain, ckPath      string
	kg                                int // KeyGenerator: token length (0 = short tokens `t<n>`)
}

func (c cfgIn) front() string {
	eh := c.eh
	if eh == "" {
		eh = "d"
	}
	return "eh=" + eh + ";next=" + gen.B(c.next) + ";ck=" + gen.B(c.ckSecure) + gen.B(c.ckHTTPOnly) + gen.B(c.ckSessOnly) + "," +
		gen.Hex(c.ckSameSite) + "," + gen.Hex(c.ckDomain) + "," + gen.Hex(c.ckPath) + ";kg=" + strconv.Itoa(c.kg)
}

// parseFront tolerates mangled input: ok=false for anything ill-formed.
func parseFront(s string, c *cfgIn) (ok bool) {
	defer func() {
		if recover() != nil {
			ok = false
		}
	}()
	parts := strings.Split(s, ";")
	if len(parts) == 4 {
		if !strings.HasPrefix(parts[3], "kg=") {
			return false
		}
		n, err := strconv.Atoi(parts[3][3:])
		if err != nil || (n != 0 && n != 256 && n != 512) {
			return false
		}
		c.kg = n
		parts = parts[:3]
	}
	if len(parts) != 3 || !strings.HasPrefix(parts[0], "eh=") || !strings.HasPrefix(parts[1], "next=") || !strings.HasPrefix(parts[2], "ck=") {
		return false
	}
	c.eh = parts[0][3:]
	if c.eh != "d" && c.eh != "c" && c.eh != "n" {
		return false
	}
	c.next = parts[1][5:] == "1"
	f := strings.Split(parts[2][3:], ",")
	if len(f) != 4 || len(f[0]) != 3 {
		return false
	}
	c.ckSecure, c.ckHTTPOnly, c.ckSessOnly = f[0][0] == '1', f[0][1] == '1', f[0][2] == '1'
	c.ckSameSite, c.ckDomain, c.ckPath = gen.UnHex(f[1]), gen.UnHex(f[2]), gen.UnHex(f[3])
	return true
}

var errCustom = errors.New("custom extractor error")

// errCode: the status the custom ErrorHandler answers an error with
func errCode(err error) int {
	switch {
	case errors.Is(err, csrf.ErrOriginInvalid):
		return 461
	case errors.Is(err, csrf.ErrOriginNoMatch):
		return 462
	case errors.Is(err, csrf.ErrRefererNotFound):
		return 463
	case errors.Is(err, csrf.ErrRefererInvalid):
		return 464
	case errors.Is(err, csrf.ErrRefererNoMatch):
		return 465
	case errors.Is(err, csrf.ErrMissingHeader), errors.Is(err, csrf.ErrMissingQuery), errors.Is(err, csrf.ErrMissingParam),
		errors.Is(err, csrf.ErrMissingForm), errors.Is(err, csrf.ErrMissingCookie):
		return 466
	case errors.Is(err, errCustom):
		return 467
	case errors.Is(err, csrf.ErrTokenNotFound):
		return 468
	case errors.Is(err, csrf.ErrTokenInvalid):
		return 469
	case errors.Is(err, errFault):
		return 470
	}
	return 499
}

type op struct {
	kind string // "a" | "r"
	secs int
	// request
	method, ck, sc, hdr, qry, form, param, custom, origin, referer, host string
	https, del                                                        bool
	faults                                                            string
	skip                                                              bool // the request carries X-Skip: 1
}

func urlInfo(h string) (string, string, string) {
	u, err := url.Parse(strings.ToLower(h))
	if err != nil {
		return "0", "-", "-"
	}
	return "1", gen.Hex(u.Scheme), gen.Hex(u.Host)
}

func (o op) String() string {
	if o.kind == "a" {
		return "a:" + strconv.Itoa(o.secs)
	}
	ook, osch, ohost := urlInfo(o.origin)
	rok, rsch, rhost := urlInfo(o.referer)
	f := o.faults
	if f == "" {
		f = "-"
	}
	return strings.Join([]string{"r", o.method, gen.Hex(o.ck), gen.Hex(o.sc), gen.Hex(o.hdr), gen.Hex(o.qry),
		gen.Hex(o.form), gen.Hex(o.param), gen.Hex(o.custom), gen.Hex(o.origin), ook, osch, ohost,
		gen.Hex(o.referer), rok, rsch, rhost, gen.Hex(o.host), gen.B(o.https), gen.B(o.del), f, gen.B(o.skip)}, ":")
}

func unhex(s string) (string, bool) {
	defer func() { _ = recover() }()
	if s == "" {
		return "", false
	}
	return gen.UnHex(s), true
}

// parseOp tolerates mangled input (shrinker): returns ok=false for anything ill-formed.
func parseOp(s string) (o op, ok bool) {
	defer func() {
		if recover() != nil {
			ok = false
		}
	}()
	f := strings.Split(s, ":")
	switch {
	case len(f) == 2 && f[0] == "a":
		n, err := strconv.Atoi(f[1])
		if err != nil || n < 0 || n > 100000 {
			return o, false
		}
		return op{kind: "a", secs: n}, true
	case (len(f) == 21 || len(f) == 22) && f[0] == "r":
		o = op{kind: "r", method: f[1], ck: gen.UnHex(f[2]), sc: gen.UnHex(f[3]), hdr: gen.UnHex(f[4]),
			qry: gen.UnHex(f[5]), form: gen.UnHex(f[6]), param: gen.UnHex(f[7]), custom: gen.UnHex(f[8]),
			origin: gen.UnHex(f[9]), referer: gen.UnHex(f[13]), host: gen.UnHex(f[17]), https: f[18] == "1",
			del: f[19] == "1", faults: strings.Trim(f[20], "-")}
		if len(f) == 22 {
			o.skip = f[21] == "1"
		}
		return o, true
	}
	return o, false
}

const (
	csrfCookie = "csrf_"
	sessCookie = "session_id"
	formKey    = "_csrf"
	customHdr  = "X-Alt-Token"
)

// world is one configured app under test.
type world struct {
	cfg      cfgIn
	h        fasthttp.RequestHandler
	st       *faultStorage // injected storage (token store, or the session store's storage)
	start    time.Time
	gens     []string
	sgens    []string
	ntok     int
	nsid     int
	ran      bool
	early    bool // a storage fault had fired when the protected handler was entered
	sessions bool
	// one RequestCtx per connection kind, reused across requests like a keep-alive connection
	plain, secure *fasthttp.RequestCtx
}

func tokenSafe(s string) bool {
	for i := 0; i < len(s); i++ {
		c := s[i]
		if !(c >= 'a' && c <= 'z' || c >= '0' && c <= '9' || c >= 'A' && c <= 'Z' || c == '_' || c == '-') {
			return false
		}
	}
	return true
}

func newWorld(c cfgIn) (w *world, panicked bool) {
	defer func() {
		if r := recover(); r != nil {
			w, panicked = nil, true
		}
	}()
	w = &world{cfg: c, start: time.Now()}
	conf := csrf.Config{
		SingleUseToken: c.single,
		IdleTimeout:    time.Duration(c.idle) * time.Second,
		TrustedOrigins: c.trusted,
		KeyGenerator: func() string {
			w.ntok++
			t := "t" + strconv.Itoa(w.ntok)
			if len(t) < c.kg {
				t += strings.Repeat("x", c.kg-len(t))
			}
			w.gens = append(w.gens, t)
			return t
		},
		CookieSecure: c.ckSecure, CookieHTTPOnly: c.ckHTTPOnly, CookieSessionOnly: c.ckSessOnly,
		CookieSameSite: c.ckSameSite, CookieDomain: c.ckDomain, CookiePath: c.ckPath,
	}
	if c.next {
		conf.Next = func(c fiber.Ctx) bool { return c.Get("X-Skip") == "1" }
	}
	switch c.eh {
	case "c":
		conf.ErrorHandler = func(_ fiber.Ctx, err error) error { return fiber.NewError(errCode(err)) }
	case "n":
		conf.ErrorHandler = func(_ fiber.Ctx, _ error) error { return nil }
	}
	switch c.ext {
	case "header":
		conf.KeyLookup = "header:" + csrf.HeaderName
	case "form":
		conf.KeyLookup = "form:" + formKey
	case "query":
		conf.KeyLookup = "query:" + formKey
	case "param":
		conf.KeyLookup = "param:tok"
	case "cookie":
		conf.KeyLookup = "cookie:" + csrfCookie
	case "custom":
		conf.Extractor = func(c fiber.Ctx) (string, error) {
			v := c.Get(customHdr)
			if v == "err" {
				return "", errCustom
			}
			return v, nil
		}
	default:
		panic("bad extractor")
	}
	app := fiber.New()
	sessKeyGen := func() string {
		w.nsid++
		s := "s" + strconv.Itoa(w.nsid)
		w.sgens = append(w.sgens, s)
		return s
	}
	switch c.backend {
	case "st":
		w.st = newFaultStorage()
		conf.Storage = w.st
	case "mem":
	case "ss":
		w.st = newFaultStorage()
		w.sessions = true
		conf.Session = session.NewStore(session.Config{Storage: w.st, KeyGenerator: sessKeyGen, IdleTimeout: 24 * time.Hour})
	case "sm":
		w.st = newFaultStorage()
		w.sessions = true
		mw, store := session.NewWithStore(session.Config{Storage: w.st, KeyGenerator: sessKeyGen, IdleTimeout: 24 * time.Hour})
		app.Use(mw)
		conf.Session = store
	default:
		panic("bad backend")
	}
	protected := func(c fiber.Ctx) error {
		w.ran = true
		w.early = w.st != nil && (w.st.fired[0] || w.st.fired[1] || w.st.fired[2])
		if fiber.Query[string](c, "del") == "1" {
			if h := csrf.HandlerFromContext(c); h != nil {
				if err := h.DeleteToken(c); err != nil {
					return err
				}
			}
		}
		return c.SendStatus(200)
	}
	mwc := csrf.New(conf)
	if c.ext == "param" {
		app.Use("/:tok", mwc, protected)
	} else {
		app.Use(mwc, protected)
	}
	w.h = app.Handler()
	return w, false
}

func (w *world) now() int { return int(time.Since(w.start) / time.Second) }

// liveObs: canonical dump of the token store after a request ("?" when it cannot be inspected).
func (w *world) liveObs() string {
	if w.st == nil {
		return "?"
	}
	var out []string
	for k, e := range w.st.m {
		if !w.st.live(e) {
			continue
		}
		if !w.sessions {
			d := "inf"
			if !e.exp.IsZero() {
				d = strconv.Itoa(int(e.exp.Sub(w.start) / time.Second))
			}
			out = append(out, hexs(k)+"@"+d)
			continue
		}
		var m map[any]any
		if err := gob.NewDecoder(bytes.NewReader(e.val)).Decode(&m); err != nil {
			out = append(out, hexs(k)+"/undecodable@0")
			continue
		}
		found := false
		for _, v := range m {
			if t, ok := v.(csrf.Token); ok {
				out = append(out, hexs(k)+"/"+hexs(t.Key)+"@"+strconv.Itoa(int(t.Expiration.Sub(w.start)/time.Second)))
				found = true
			}
		}
		if !found {
			out = append(out, hexs(k)+"/none@0")
		}
	}
	if len(out) == 0 {
		return "-"
	}
	sort.Strings(out)
	return strings.Join(out, "+")
}

func hexs(s string) string { return gen.Hex(s) }

func plusList(xs []string) string {
	if len(xs) == 0 {
		return "-"
	}
	o := make([]string, len(xs))
	for i, x := range xs {
		o[i] = gen.Hex(x)
	}
	return strings.Join(o, "+")
}

func (w *world) do(o op) (obs string) {
	defer func() {
		if r := recover(); r != nil {
			obs = "panic"
		}
		if w.st != nil {
			w.st.failGet, w.st.failSet, w.st.failDel = false, false, false
		}
	}()
	var req fasthttp.Request
	req.Header.SetMethod(o.method)
	path := "/x"
	if w.cfg.ext == "param" {
		path = "/" + o.param
	}
	var q []string
	if o.qry != "" {
		q = append(q, formKey+"="+o.qry)
	}
	if o.del {
		q = append(q, "del=1")
	}
	if len(q) > 0 {
		path += "?" + strings.Join(q, "&")
	}
	req.SetRequestURI(path)
	if o.host != "" {
		req.Header.SetHost(o.host)
		req.URI().SetHost(o.host)
	}
	if o.ck != "" {
		req.Header.SetCookie(csrfCookie, o.ck)
	}
	if o.sc != "" {
		req.Header.SetCookie(sessCookie, o.sc)
	}
	if o.hdr != "" {
		req.Header.Set(csrf.HeaderName, o.hdr)
	}
	if o.custom != "" {
		req.Header.Set(customHdr, o.custom)
	}
	if o.form != "" {
		req.Header.SetContentType("application/x-www-form-urlencoded")
		req.SetBodyString(formKey + "=" + o.form)
	}
	if o.origin != "" {
		req.Header.Set("Origin", o.origin)
	}
	if o.referer != "" {
		req.Header.Set("Referer", o.referer)
	}
	if o.skip {
		req.Header.Set("X-Skip", "1")
	}
	var fctx *fasthttp.RequestCtx
	if o.https {
		if w.secure == nil {
			w.secure = &fasthttp.RequestCtx{}
			w.secure.Init2(fakeTLSConn{}, nil, false)
		}
		fctx = w.secure
	} else {
		if w.plain == nil {
			w.plain = &fasthttp.RequestCtx{}
			w.plain.Init2(fakeConn{}, nil, false)
		}
		fctx = w.plain
	}
	fctx.Request.Reset()
	fctx.Response.Reset()
	fctx.ResetUserValues() // as fasthttp's server loop does between requests (fiber Locals live there)
	req.CopyTo(&fctx.Request)
	if w.st != nil {
		w.st.failGet = strings.Contains(o.faults, "g")
		w.st.failSet = strings.Contains(o.faults, "s")
		w.st.failDel = strings.Contains(o.faults, "d")
		w.st.fired = [3]bool{}
	}
	w.ran, w.early, w.gens, w.sgens = false, false, nil, nil
	w.h(fctx)
	if w.st != nil {
		w.st.failGet, w.st.failSet, w.st.failDel = false, false, false
	}
	ck, sc, attrs := "none", "none", "-"
	fctx.Response.Header.VisitAllCookie(func(k, v []byte) {
		var c fasthttp.Cookie
		if err := c.ParseBytes(v); err != nil {
			return
		}
		switch string(k) {
		case csrfCookie:
			if len(c.Value()) == 0 {
				ck = "exp"
			} else {
				ck = gen.Hex(string(c.Value()))
			}
			ss := map[fasthttp.CookieSameSite]string{fasthttp.CookieSameSiteDisabled: "disabled", fasthttp.CookieSameSiteDefaultMode: "default",
				fasthttp.CookieSameSiteLaxMode: "lax", fasthttp.CookieSameSiteStrictMode: "strict", fasthttp.CookieSameSiteNoneMode: "none"}[c.SameSite()]
			exp := "none"
			if c.MaxAge() != 0 {
				exp = "maxage" + strconv.Itoa(c.MaxAge())
			} else if !c.Expire().Equal(fasthttp.CookieExpireUnlimited) {
				exp = strconv.FormatInt(c.Expire().Unix()-w.start.Truncate(time.Second).Unix(), 10)
			}
			attrs = gen.Hex(string(c.Domain())) + "~" + gen.Hex(string(c.Path())) + "~" + gen.B(c.Secure()) + gen.B(c.HTTPOnly()) + "~" + ss + "~" + exp
		case sessCookie:
			sc = gen.Hex(string(c.Value()))
		}
	})
	fired := ""
	if w.st != nil {
		for i, c := range "gsd" {
			if w.st.fired[i] {
				fired += string(c)
			}
		}
	}
	early := w.early
	if !w.ran {
		early = fired != ""
	}
	if fired == "" {
		fired = "-"
	}
	return strings.Join([]string{gen.B(w.ran), strconv.Itoa(fctx.Response.StatusCode()), ck, sc,
		plusList(w.gens), plusList(w.sgens), fired, gen.B(early), w.liveObs(), attrs}, ",")
}

// runCase executes a history on a fresh world and returns the obs field.
func runCase(c cfgIn, ops []op) string {
	w, panicked := newWorld(c)
	if panicked {
		return "panic"
	}
	out := make([]string, len(ops))
	for i, o := range ops {
		if o.kind == "a" {
			time.Sleep(time.Duration(o.secs) * time.Second)
			out[i] = "-"
			continue
		}
		out[i] = w.do(o)
	}
	if len(out) == 0 {
		return "-"
	}
	return strings.Join(out, ";")
}

// urlFacts: the real net/url.Parse on every string the constructor can pass to normalizeOrigin (each
// entry trimmed; a "://*." entry with the star cut out). The Origin/Referer answers travel in the ops.
func urlFacts(c cfgIn) string {
	var probes []string
	seen := map[string]bool{}
	for _, e := range c.trusted {
		o := strings.Trim(e, " ")
		if i := strings.Index(o, "://*."); i != -1 {
			o = o[:i+3] + o[i+4:]
		}
		if !seen[o] {
			seen[o] = true
			probes = append(probes, o)
		}
	}
	out := make([]string, 0, len(probes))
	for _, p := range probes {
		u, err := url.Parse(p)
		res := "err"
		if err == nil {
			res = fmt.Sprintf("%x|%x|%x|%x|%x", u.Scheme, u.Host, u.Path, u.RawQuery, u.Fragment)
		}
		out = append(out, fmt.Sprintf("%x", p)+"="+res)
	}
	if len(out) == 0 {
		return "-"
	}
	return strings.Join(out, ";")
}

func emit(wr *gen.Writer, id string, c cfgIn, ops []op, obs string) {
	s := make([]string, len(ops))
	for i, o := range ops {
		s[i] = o.String()
	}
	opsField := "-"
	if len(s) > 0 {
		opsField = strings.Join(s, ";")
	}
	wr.Case(id, c.backend, c.ext, gen.B(c.single), gen.I(c.idle), gen.HexList(c.trusted), c.front(), opsField, urlFacts(c), obs)
}

func replay(wr *gen.Writer, file string) {
	for _, f := range gen.ReplayInputs(file) {
		func() {
			defer func() {
				if r := recover(); r != nil {
					wr.Count("replay-skipped")
				}
			}()
			if len(f) < 7 {
				wr.Count("replay-skipped")
				return
			}
			idle, err := strconv.Atoi(f[4])
			if err != nil || idle <= 0 {
				wr.Count("replay-skipped")
				return
			}
			c := cfgIn{backend: f[1], ext: f[2], single: f[3] == "1", idle: idle, trusted: gen.UnHexList(f[5])}
			opsF := f[6]
			if strings.HasPrefix(f[6], "eh=") { // current format: the front field sits before the ops
				if len(f) < 8 || !parseFront(f[6], &c) {
					wr.Count("replay-skipped")
					return
				}
				opsF = f[7]
			}
			var ops []op
			if opsF != "-" {
				for _, s := range strings.Split(opsF, ";") {
					o, ok := parseOp(s)
					if !ok {
						wr.Count("replay-skipped")
						return
					}
					if o.kind == "r" && c.ext == "param" && (o.param == "" || !tokenSafe(o.param)) {
						wr.Count("replay-skipped")
						return
					}
					ops = append(ops, o)
				}
			}
			emit(wr, f[0], c, ops, runCase(c, ops))
		}()
	}
}

func main() {
	debug.SetGCPercent(-1) // see chunk.go
	log.SetOutput(io.Discard)
	o := gen.ParseFlags()
	if o.Replay == "" && *flagLo < 0 && o.N > chunkSize {
		runParent(o)
		return
	}
	// start gofiber/utils' 1 s timestamp updater now (a session store without Storage creates the
	// built-in memory storage, which starts it), then move the harness half a second off its ticks so
	// that whole-second advances never race the updater: utils.Timestamp() is exactly floor(now)
	_ = session.NewStore()
	time.Sleep(500 * time.Millisecond)
	wr := gen.NewWriter(o.Out)
	defer wr.Close()
	if o.Replay != "" {
		replay(wr, o.Replay)
		return
	}
	lo, hi := 0, o.N
	if *flagLo >= 0 {
		lo, hi = *flagLo, *flagHi
	}
	root := gen.New(o.Seed)
	for i := lo; i < hi; i++ {
		r := root.Fork(uint64(i))
		c, ops, obs := genCase(r, wr)
		emit(wr, fmt.Sprintf("s%d.%d", o.Seed, i), c, ops, obs)
	}
}
