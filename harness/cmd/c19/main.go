// Harness for C19: runs the real cors middleware on generated configurations × requests and
// writes one case line per request (inputs + the implementation's observation).
package main

import (
	"fmt"
	"io"
	"sort"
	"strings"

	"github.com/gofiber/fiber/v3"
	"github.com/gofiber/fiber/v3/log"
	"github.com/gofiber/fiber/v3/middleware/cors"
	"github.com/valyala/fasthttp"

	"verifharness/internal/gen"
)

type cfgIn struct {
	origins, funcAllows, methods, headers, expose []string
	funcSet, creds, pn                            bool
	maxAge                                        int
}

type reqIn struct {
	method, origin, acrm, acrh, acrpn string
	skip                              bool
}

var schemes = []string{"http", "https"}
var hosts = []string{"example.com", "a.example.com", "b.a.example.com", "evil-example.com", "examplexcom",
	"example.com.evil.io", "xexample.com", "localhost", "a.io", "[::1]", "127.0.0.1"}
var ports = []string{"", "", "", ":8080", ":443"}

func mixCase(r *gen.Rand, s string) string {
	if !r.Chance(1, 4) {
		return s
	}
	b := []byte(s)
	for i := range b {
		if r.Chance(1, 3) && b[i] >= 'a' && b[i] <= 'z' {
			b[i] -= 32
		}
	}
	return string(b)
}

func genOrigin(r *gen.Rand) string {
	return gen.Pick(r, schemes) + "://" + gen.Pick(r, hosts) + gen.Pick(r, ports)
}

func genCfgOrigin(r *gen.Rand) string {
	switch r.Intn(12) {
	case 0:
		return "*"
	case 1, 2, 3:
		o := gen.Pick(r, schemes) + "://*." + gen.Pick(r, hosts[:6]) + gen.Pick(r, ports)
		if r.Chance(1, 8) {
			o = gen.Pick(r, []string{" ", "  "}) + o + gen.Pick(r, []string{"", " ", "/"})
		}
		return mixCase(r, o)
	case 4:
		return " " + genOrigin(r) + " "
	case 5:
		return genOrigin(r) + "/"
	default:
		return mixCase(r, genOrigin(r))
	}
}

func genCfg(r *gen.Rand) cfgIn {
	var c cfgIn
	n := r.Intn(4)
	for i := 0; i < n; i++ {
		c.origins = append(c.origins, genCfgOrigin(r))
	}
	c.funcSet = r.Chance(1, 4)
	if c.funcSet {
		for i := r.Intn(3); i > 0; i-- {
			c.funcAllows = append(c.funcAllows, strings.ToLower(genOrigin(r)))
		}
		if r.Chance(1, 6) {
			c.funcAllows = append(c.funcAllows, "*")
		}
	}
	if r.Chance(1, 2) {
		for i := r.Intn(3) + 1; i > 0; i-- {
			c.methods = append(c.methods, gen.Pick(r, []string{"GET", "POST", "PUT", "DELETE", "X-CUSTOM"}))
		}
	}
	if r.Chance(1, 2) {
		for i := r.Intn(3) + 1; i > 0; i-- {
			c.headers = append(c.headers, gen.Pick(r, []string{"Content-Type", "X-Token", "Authorization"}))
		}
	}
	if r.Chance(1, 3) {
		for i := r.Intn(2) + 1; i > 0; i-- {
			c.expose = append(c.expose, gen.Pick(r, []string{"X-A", "X-B"}))
		}
	}
	c.creds = r.Chance(1, 3)
	c.pn = r.Chance(1, 3)
	c.maxAge = gen.Pick(r, []int{0, 0, -1, 1, 3600})
	return c
}

func genReq(r *gen.Rand, c cfgIn) reqIn {
	var q reqIn
	q.method = gen.Pick(r, []string{"GET", "POST", "OPTIONS", "OPTIONS", "DELETE"})
	switch r.Intn(10) {
	case 0:
		q.origin = ""
	case 1:
		q.origin = gen.Pick(r, []string{"null", "*", "https://", "example.com", "https://a.example.com/x"})
	case 2, 3, 4:
		// derive from a configured origin: same, subdomain instance, look-alike
		if len(c.origins) > 0 {
			o := strings.TrimSpace(gen.Pick(r, c.origins))
			o = strings.TrimSuffix(o, "/")
			if i := strings.Index(o, "://*."); i >= 0 {
				sub := gen.Pick(r, []string{"x.", "x.y.", "", "X."})
				if r.Chance(1, 4) {
					o = o[:i+3] + "x" + o[i+5:] // drop the dot: look-alike host
				} else {
					o = o[:i+3] + sub + o[i+5:]
				}
			}
			q.origin = mixCase(r, o)
		} else {
			q.origin = genOrigin(r)
		}
	default:
		q.origin = mixCase(r, genOrigin(r))
	}
	if q.method == "OPTIONS" && r.Chance(4, 5) {
		q.acrm = gen.Pick(r, []string{"GET", "POST", "PUT"})
	}
	if r.Chance(1, 2) {
		q.acrh = gen.Pick(r, []string{"X-Token", "Content-Type, X-Token"})
	}
	if r.Chance(1, 3) {
		q.acrpn = gen.Pick(r, []string{"true", "false", "TRUE"})
	}
	q.skip = r.Chance(1, 10)
	return q
}

func opt(h *fasthttp.ResponseHeader, k string) string {
	v := h.Peek(k)
	if v == nil {
		return "none"
	}
	return gen.Hex(string(v))
}

// observe runs the real middleware. The constructor's panic is part of the modelled behaviour.
func observe(c cfgIn, q reqIn) (obs string) {
	defer func() {
		if r := recover(); r != nil {
			obs = "panic"
		}
	}()
	conf := cors.Config{AllowOrigins: c.origins, AllowMethods: c.methods, AllowHeaders: c.headers,
		ExposeHeaders: c.expose, MaxAge: c.maxAge, AllowCredentials: c.creds, AllowPrivateNetwork: c.pn}
	if c.funcSet {
		allowed := map[string]bool{}
		for _, a := range c.funcAllows {
			allowed[a] = true
		}
		conf.AllowOriginsFunc = func(o string) bool { return allowed[o] }
	}
	// Next is always configured; it steps aside exactly for requests marked X-Skip: 1
	conf.Next = func(c fiber.Ctx) bool { return c.Get("X-Skip") == "1" }
	app := fiber.New()
	ran := false
	app.Use(cors.New(conf))
	app.Use(func(c fiber.Ctx) error { ran = true; return c.SendStatus(200) })
	h := app.Handler()
	var fctx fasthttp.RequestCtx
	var req fasthttp.Request
	req.Header.SetMethod(q.method)
	req.SetRequestURI("/x")
	if q.origin != "" {
		req.Header.Set("Origin", q.origin)
	}
	if q.acrm != "" {
		req.Header.Set("Access-Control-Request-Method", q.acrm)
	}
	if q.acrh != "" {
		req.Header.Set("Access-Control-Request-Headers", q.acrh)
	}
	if q.acrpn != "" {
		req.Header.Set("Access-Control-Request-Private-Network", q.acrpn)
	}
	if q.skip {
		req.Header.Set("X-Skip", "1")
	}
	fctx.Init(&req, nil, nil)
	h(&fctx)
	rh := &fctx.Response.Header
	var vary []string
	if v := string(rh.Peek("Vary")); v != "" {
		// canonical: sorted set (the property only speaks about membership)
		seen := map[string]bool{}
		for _, x := range strings.Split(v, ",") {
			x = strings.TrimSpace(x)
			if x != "" && !seen[x] {
				seen[x] = true
				vary = append(vary, x)
			}
		}
		sort.Strings(vary)
	}
	return fmt.Sprintf("next=%s;s204=%s;acao=%s;acac=%s;vary=%s;am=%s;ah=%s;ma=%s;ex=%s;pn=%s",
		gen.B(ran), gen.B(fctx.Response.StatusCode() == 204), opt(rh, "Access-Control-Allow-Origin"),
		gen.B(string(rh.Peek("Access-Control-Allow-Credentials")) == "true"), gen.HexList(vary),
		opt(rh, "Access-Control-Allow-Methods"), opt(rh, "Access-Control-Allow-Headers"),
		opt(rh, "Access-Control-Max-Age"), opt(rh, "Access-Control-Expose-Headers"),
		gen.B(string(rh.Peek("Access-Control-Allow-Private-Network")) == "true"))
}

func emit(w *gen.Writer, id string, c cfgIn, q reqIn) {
	obs := observe(c, q)
	if obs == "panic" {
		w.Count("ctor-panic")
	}
	w.Case(id, gen.HexList(c.origins), gen.B(c.funcSet), gen.HexList(c.funcAllows), gen.HexList(c.methods),
		gen.HexList(c.headers), gen.HexList(c.expose), gen.I(c.maxAge), gen.B(c.creds), gen.B(c.pn),
		gen.Hex(q.method), gen.Hex(q.origin), gen.Hex(q.acrm), gen.Hex(q.acrh), gen.Hex(q.acrpn), gen.B(q.skip), obs)
}

func main() {
	log.SetOutput(io.Discard)
	o := gen.ParseFlags()
	w := gen.NewWriter(o.Out)
	defer w.Close()
	if o.Replay != "" {
		for _, f := range gen.ReplayInputs(o.Replay) {
			if len(f) < 16 {
				continue
			}
			var mi int
			fmt.Sscan(f[7], &mi)
			c := cfgIn{origins: gen.UnHexList(f[1]), funcSet: f[2] == "1", funcAllows: gen.UnHexList(f[3]),
				methods: gen.UnHexList(f[4]), headers: gen.UnHexList(f[5]), expose: gen.UnHexList(f[6]),
				maxAge: mi, creds: f[8] == "1", pn: f[9] == "1"}
			q := reqIn{gen.UnHex(f[10]), gen.UnHex(f[11]), gen.UnHex(f[12]), gen.UnHex(f[13]), gen.UnHex(f[14]), f[15] == "1"}
			emit(w, f[0], c, q)
		}
		return
	}
	root := gen.New(o.Seed)
	perCfg := 8
	for i := 0; i*perCfg < o.N; i++ {
		r := root.Fork(uint64(i))
		c := genCfg(r)
		for j := 0; j < perCfg && i*perCfg+j < o.N; j++ {
			emit(w, fmt.Sprintf("s%d.%d.%d", o.Seed, i, j), c, genReq(r, c))
		}
	}
}
