// Harness for C19: runs the real cors middleware on generated configurations × requests and
// writes one case line per request (inputs + the implementation's observation).
//
// Case fields after the id:
//
//	 1 allowOrigins(hexlist)  2 nextSet(0/1)  3 funcSet(0/1)  4 funcAllows(hexlist)  5 funcPanics(hexlist)
//	 6 allowMethods  7 allowHeaders  8 expose (hexlists)  9 maxAge(int)  10 credentials  11 privateNetwork
//	12 method  13 origin  14 acrMethod  15 acrHeaders  16 acrPrivate (hex)  17 skip(0/1)
//	18 priorVary(hex)  19 afterVary(hexlist)
//	20 history: the requests served BEFORE this one by the same app on the same reused
//	   fasthttp.RequestCtx (`-` = none), `;`-joined, each `method:origin:acrm:acrh:acrpn:skip:priorVary:afterVary`
//	   (hex, `-` = empty; afterVary `+`-joined). The middleware is stateless in the model: the reply
//	   observed (and judged) is the one to THIS request, whatever came before.
//	21 urlFacts: what the real net/url.Parse answers on every string the constructor can hand to it
//	   (and on the request's Origin), `hex(arg)=err` or `hex(arg)=scheme|host|path|rawquery|fragment`
//	   joined by `;`  — an observation, recomputed on replay
//	22 the middleware's observation
package main

import (
	"bufio"
	"encoding/hex"
	"fmt"
	"io"
	"net/url"
	"strings"

	"github.com/gofiber/fiber/v3"
	"github.com/gofiber/fiber/v3/log"
	"github.com/gofiber/fiber/v3/middleware/cors"
	"github.com/valyala/fasthttp"
	"github.com/valyala/fasthttp/fasthttputil"

	"verifharness/internal/gen"
)

type cfgIn struct {
	origins, funcAllows, funcPanics, methods, headers, expose []string
	nextSet, funcSet, creds, pn                               bool
	maxAge                                                    int
}

type reqIn struct {
	method, origin, acrm, acrh, acrpn string
	skip                              bool
	priorVary                         string
	afterVary                         []string
}

// ---- vocabulary -------------------------------------------------------------------------------

var schemesOK = []string{"http", "https", "http", "https", "http", "https", "HTTP", "Https", "chrome-extension", "a+b.c-1", "x"}
var schemesAny = []string{"http", "https", "", "1http", "ht tp", "-x", "h_t", "HTTPS", "a:b", "http:", "x"}

var hostsPlain = []string{"example.com", "a.example.com", "b.a.example.com", "evil-example.com", "examplexcom",
	"example.com.evil.io", "xexample.com", "localhost", "a.io", "127.0.0.1", "example.com.", "xn--bcher-kva.example",
	"sub.xn--p1ai", "ex_ample.com", "a"}
var hostsV6 = []string{"[::1]", "[2001:db8::1]", "[::FFFF:1.2.3.4]", "[fe80::1%25en0]"}
var hostsOdd = []string{"", "a%25b.com", "ex%41mple.com", "exa mple.com", "ex*mple.com", "[::1", "::1", "::1]", "[::1]x",
	"[fe80::1%25e%20n]", "[fe80::1%25e%2Fn]", "a..b", ".", "ex%zzmple.com", "ex%2", "a<b>c", "a\"b", "a\\b", "a^b", "a\tb", "exa\x7fmple.com",
	"a,b", "a;b=c", "(a)", "a'b", "a!b", "a$b", "a&b", "a+b", "a~b", "a|b", "a{b}", "a`b"}
var portsOK = []string{"", "", "", "", ":8080", ":443", ":80", ":3000"}
var portsAny = []string{"", ":", ":0", ":65536", ":80a", ":-1", ":99999999999999999999", ":8080", ": 80"}
var usersOK = []string{"user@", "user:pw@", "u%40x@", "a@b@", ":@", "@", "user:p:w@"}
var usersAny = []string{"us er@", "u%zz@", "u/x@", "u?x@", "u#x@", "u[x@", "user:p%w@", "\xc3\xa9@", "u%@"}
var tailsOK = []string{"", "", "", "", "", "/", "/", "?", "/?", "#", "/#", "?#", "/?#"}
var tailsAny = []string{"//", "/path", "?q=1", "#frag", "/%2F", "/%zz", "/.", ";x", "/?q", "/#f", "??", "?#f", "#?", "/ ", "\\", "/*", "#%zz", "#%41", "?%zz"}

func longHost(r *gen.Rand) string {
	n := gen.Pick(r, []int{64, 255, 256, 1000, 5000})
	var sb strings.Builder
	for sb.Len() < n {
		sb.WriteString(gen.Pick(r, []string{"a", "bc", "x1", "label"}))
		if r.Chance(1, 4) {
			sb.WriteByte('.')
		}
	}
	return sb.String() + ".example.com"
}

func mixCase(r *gen.Rand, s string) string {
	if !r.Chance(1, 4) {
		return s
	}
	b := []byte(s)
	for i := range b {
		if r.Chance(1, 3) && b[i] >= 'a' && b[i] <= 'z' {
			b[i] -= 32
		}
	}
	return string(b)
}

func genHost(r *gen.Rand) string {
	switch r.Intn(12) {
	case 0, 1:
		return gen.Pick(r, hostsV6)
	case 2:
		if r.Chance(1, 3) {
			return longHost(r)
		}
		return gen.Pick(r, hostsPlain)
	default:
		return gen.Pick(r, hostsPlain)
	}
}

// a serialized origin (what browsers send), over the widened host vocabulary
func genOrigin(r *gen.Rand) string {
	return gen.Pick(r, schemesOK[:6]) + "://" + genHost(r) + gen.Pick(r, portsOK)
}

// genEntry builds one AllowOrigins entry. clean: a shape the constructor accepts (scheme, optional
// userinfo, host, optional port, and one of the tails that normalisation strips); otherwise any
// component may come from the odd vocabulary (most of those must be refused).
func genEntry(r *gen.Rand, w *gen.Writer, wildcard bool) string {
	clean := r.Chance(4, 5)
	scheme, user, host, port, tail := gen.Pick(r, schemesOK), "", genHost(r), gen.Pick(r, portsOK), gen.Pick(r, tailsOK)
	if r.Chance(1, 8) {
		user = gen.Pick(r, usersOK)
	}
	if !clean {
		// one or two components go odd
		for k := 1 + r.Intn(2); k > 0; k-- {
			switch r.Intn(5) {
			case 0:
				scheme = gen.Pick(r, schemesAny)
			case 1:
				user = gen.Pick(r, usersAny)
			case 2:
				host = gen.Pick(r, hostsOdd)
			case 3:
				port = gen.Pick(r, portsAny)
			default:
				tail = gen.Pick(r, tailsAny)
			}
		}
		w.Count("entry-odd")
	} else {
		w.Count("entry-clean")
	}
	sep := "://"
	if !clean && r.Chance(1, 10) {
		sep = gen.Pick(r, []string{":/", ":", "//", ":///", "://:"})
	}
	var o string
	if wildcard {
		switch {
		case r.Chance(1, 12):
			// the wildcard in front of the userinfo, or a second one: entries the constructor must refuse
			o = scheme + sep + "*." + gen.Pick(r, []string{"user@", "a@", "*."}) + host + port + tail
			w.Count("entry-wild-odd")
		case r.Chance(1, 16):
			o = scheme + sep + user + "*." + host + port + tail // userinfo then wildcard: not a "://*." entry
		default:
			o = scheme + sep + "*." + host + port + tail
		}
	} else {
		o = scheme + sep + user + host + port + tail
	}
	if r.Chance(1, 8) {
		o = gen.Pick(r, []string{" ", "  ", "      ", ""}) + o + gen.Pick(r, []string{"", " ", "  "})
		w.Count("entry-spaces")
	}
	return mixCase(r, o)
}

func genCfgOrigin(r *gen.Rand, w *gen.Writer) string {
	switch r.Intn(14) {
	case 0:
		return "*"
	case 1, 2, 3, 4:
		return genEntry(r, w, true)
	case 5:
		return gen.Pick(r, []string{"null", "", " ", "example.com", "//example.com", "http://", "http://*", "https://*.", "http://*./", "*.example.com", " * "})
	default:
		return genEntry(r, w, false)
	}
}

// stripEntry gives the origin text an entry stands for, roughly (spaces, stripped tails, userinfo).
func stripEntry(r *gen.Rand, e string) string {
	o := strings.Trim(e, " ")
	if i := strings.Index(o, "://"); i >= 0 && r.Chance(1, 2) {
		// cut whatever follows the authority (a path, query or fragment the entry should not have had)
		if j := strings.IndexAny(o[i+3:], "/?#"); j >= 0 {
			o = o[:i+3+j]
		}
	}
	for _, t := range []string{"#", "?", "/"} {
		o = strings.TrimSuffix(o, t)
	}
	if i := strings.Index(o, "://"); i >= 0 && r.Chance(3, 4) {
		if j := strings.LastIndex(o, "@"); j > i {
			o = o[:i+3] + o[j+1:]
		}
	}
	return o
}

func genCfg(r *gen.Rand, w *gen.Writer) cfgIn {
	var c cfgIn
	n := r.Intn(4)
	for i := 0; i < n; i++ {
		c.origins = append(c.origins, genCfgOrigin(r, w))
	}
	c.nextSet = r.Chance(3, 4)
	c.funcSet = r.Chance(1, 4)
	if c.funcSet {
		for i := r.Intn(3); i > 0; i-- {
			switch r.Intn(6) {
			case 0:
				// an origin that fails normalisation, or is no origin at all
				c.funcAllows = append(c.funcAllows, gen.Pick(r, []string{"null", "*", "https://a.example.com/x", "foo", "https://", "https://user@example.com", "http://example.com?", "HTTPS://UPPER.example.com"}))
			case 1:
				if len(c.origins) > 0 {
					c.funcAllows = append(c.funcAllows, strings.ToLower(stripEntry(r, gen.Pick(r, c.origins))))
					break
				}
				fallthrough
			default:
				c.funcAllows = append(c.funcAllows, strings.ToLower(genOrigin(r)))
			}
		}
		if r.Chance(1, 4) {
			for i := 1 + r.Intn(2); i > 0; i-- {
				switch r.Intn(3) {
				case 0:
					c.funcPanics = append(c.funcPanics, gen.Pick(r, []string{"null", "https://boom.example.com", "*"}))
				case 1:
					if len(c.origins) > 0 {
						c.funcPanics = append(c.funcPanics, strings.ToLower(stripEntry(r, gen.Pick(r, c.origins))))
						break
					}
					fallthrough
				default:
					c.funcPanics = append(c.funcPanics, strings.ToLower(genOrigin(r)))
				}
			}
		}
	}
	if r.Chance(1, 2) {
		for i := r.Intn(3) + 1; i > 0; i-- {
			c.methods = append(c.methods, gen.Pick(r, []string{"GET", "POST", "PUT", "DELETE", "X-CUSTOM", "get"}))
		}
	}
	if r.Chance(1, 2) {
		for i := r.Intn(3) + 1; i > 0; i-- {
			c.headers = append(c.headers, gen.Pick(r, []string{"Content-Type", "X-Token", "Authorization", "*", "x-lower"}))
		}
	}
	if r.Chance(1, 3) {
		for i := r.Intn(2) + 1; i > 0; i-- {
			c.expose = append(c.expose, gen.Pick(r, []string{"X-A", "X-B", "*"}))
		}
	}
	c.creds = r.Chance(1, 3)
	c.pn = r.Chance(1, 3)
	c.maxAge = gen.Pick(r, []int{0, 0, 0, -1, -3600, 1, 5, 3600, 86400, 2147483647})
	return c
}

var priorVaries = []string{"Accept-Encoding", "Origin", "origin", "Accept-Encoding, Origin", "Origin, Accept-Encoding",
	"Accept-Encoding,Origin", "X-Origin", "Origin-Agent-Cluster", "*", "Accept-Encoding, Access-Control-Request-Method",
	"Access-Control-Request-Headers", "A, Origin, B", "OriginX", "Accept ,Origin", "A,\tOrigin", "Origin ", " Origin",
	"Access-Control-Request-Private-Network, X", "A, ORIGIN"}

// members with a blank inside: no list of field names (the spec is silent on Vary there, the model is not)
var priorVariesMalformed = []string{"Foo Origin", "A, Foo Origin, B", "X Access-Control-Request-Method", "Foo Origin,"}

func genReq(r *gen.Rand, w *gen.Writer, c cfgIn) reqIn {
	var q reqIn
	q.method = gen.Pick(r, []string{"GET", "POST", "OPTIONS", "OPTIONS", "DELETE", "HEAD", "PUT", "PATCH", "OPTIONS"})
	kind := "random"
	switch r.Intn(12) {
	case 0:
		q.origin = ""
		kind = "none"
	case 1:
		q.origin = gen.Pick(r, []string{"null", "NULL", "*", "https://", "example.com", "https://a.example.com/x", "://example.com",
			"file://", "https://example.com?", "https://example.com#", "https://example.com/", "https://evil.com/.example.com",
			"https://evil.com#.example.com", "https://evil.com?.example.com", "https://x@a.example.com", "https:// a.example.com"})
		kind = "special"
	case 2, 3, 4, 5, 6, 7:
		// derive from a configured origin: same, subdomain instance, look-alike, then a textual variant
		if len(c.origins) > 0 {
			e := gen.Pick(r, c.origins)
			o := stripEntry(r, e)
			if i := strings.Index(o, "://*."); i >= 0 {
				sub := gen.Pick(r, []string{"x.", "x.y.", "", "X.", "a-b.", "x@", "evil.com/", "."})
				switch {
				case r.Chance(1, 4):
					o = o[:i+3] + "x" + o[i+5:] // drop the dot: look-alike host
					kind = "lookalike"
				case r.Chance(1, 8):
					o = o[:i+3] + o[i+5:] // the bare domain
					kind = "bare-domain"
				default:
					o = o[:i+3] + sub + o[i+5:]
					kind = "sub-instance"
				}
			} else {
				kind = "same"
			}
			switch r.Intn(12) {
			case 0:
				o += "/"
				kind += "+slash"
			case 1:
				o += "."
				kind += "+dot"
			case 2:
				if i := strings.Index(o, "://"); i >= 0 {
					o = o[:i+3] + gen.Pick(r, []string{"user@", "u:p@"}) + o[i+3:]
					kind += "+userinfo"
				}
			case 3:
				// default port added / any port removed
				if j := strings.LastIndex(o, ":"); j > 6 && !strings.HasSuffix(o, "]") {
					o = o[:j]
					kind += "-port"
				} else if strings.HasPrefix(strings.ToLower(o), "https://") {
					o += ":443"
					kind += "+port"
				} else {
					o += ":80"
					kind += "+port"
				}
			case 4:
				o = strings.ToUpper(o)
				kind += "+upper"
			case 5:
				o = strings.ToLower(o)
				kind += "+lower"
			}
			q.origin = mixCase(r, o)
		} else {
			q.origin = genOrigin(r)
		}
	case 8:
		// what the allow function knows
		pool := append(append([]string{}, c.funcAllows...), c.funcPanics...)
		if len(pool) > 0 {
			q.origin = mixCase(r, gen.Pick(r, pool))
			kind = "func-known"
		} else {
			q.origin = mixCase(r, genOrigin(r))
		}
	default:
		q.origin = mixCase(r, genOrigin(r))
	}
	for i := 0; i < len(q.origin); i++ {
		if q.origin[i] >= 0x80 {
			// strings.ToLower on non-ASCII text is outside the model (Unicode tables)
			q.origin, kind = genOrigin(r), "random"
			break
		}
	}
	w.Count("origin-" + kind)
	if q.method == "OPTIONS" && r.Chance(4, 5) {
		q.acrm = gen.Pick(r, []string{"GET", "POST", "PUT", "get", "X"})
	} else if r.Chance(1, 10) {
		q.acrm = "GET" // Access-Control-Request-Method on a non-OPTIONS request: no preflight
	}
	if r.Chance(1, 2) {
		q.acrh = gen.Pick(r, []string{"X-Token", "Content-Type, X-Token", "x-token,content-type", "*", " "})
	}
	if r.Chance(1, 3) {
		q.acrpn = gen.Pick(r, []string{"true", "false", "TRUE", "true ", "1"})
	}
	q.skip = r.Chance(1, 8)
	if r.Chance(3, 10) {
		if r.Chance(1, 12) {
			q.priorVary = gen.Pick(r, priorVariesMalformed)
			w.Count("vary-prior-malformed")
		} else {
			q.priorVary = gen.Pick(r, priorVaries)
			w.Count("vary-prior")
		}
	}
	if r.Chance(3, 10) {
		for i := 1 + r.Intn(2); i > 0; i-- {
			q.afterVary = append(q.afterVary, gen.Pick(r, []string{"Accept-Encoding", "Origin", "Accept", "origin", "X-Origin", "Access-Control-Request-Method"}))
		}
		w.Count("vary-after")
	}
	return q
}

// ---- the real code ----------------------------------------------------------------------------

func opt(h *fasthttp.ResponseHeader, k string) string {
	v := h.Peek(k)
	if v == nil {
		return "none"
	}
	return gen.Hex(string(v))
}

// construct runs the real constructor; its panic is part of the modelled behaviour.
func construct(c cfgIn) (h fiber.Handler, panicked bool) {
	defer func() {
		if r := recover(); r != nil {
			h, panicked = nil, true
		}
	}()
	conf := cors.Config{AllowOrigins: c.origins, AllowMethods: c.methods, AllowHeaders: c.headers,
		ExposeHeaders: c.expose, MaxAge: c.maxAge, AllowCredentials: c.creds, AllowPrivateNetwork: c.pn}
	if c.funcSet {
		allowed, boom := map[string]bool{}, map[string]bool{}
		for _, a := range c.funcAllows {
			allowed[a] = true
		}
		for _, a := range c.funcPanics {
			boom[a] = true
		}
		conf.AllowOriginsFunc = func(o string) bool {
			if boom[o] {
				panic("AllowOriginsFunc: boom")
			}
			return allowed[o]
		}
	}
	if c.nextSet {
		// Next steps aside exactly for requests marked X-Skip: 1
		conf.Next = func(c fiber.Ctx) bool { return c.Get("X-Skip") == "1" }
	}
	return cors.New(conf), false
}

// observe builds ONE app, serves the history `pre` and then `q` through ONE reused
// fasthttp.RequestCtx (request and response reset in between, as a keep-alive connection does, so
// header values land in the same buffers), and reports the reply to `q`.
func observe(c cfgIn, pre []reqIn, q reqIn) (obs string) {
	mw, bad := construct(c)
	if bad {
		return "panic"
	}
	app := fiber.New()
	ran := false
	var cur *reqIn
	// an earlier middleware that already made the response vary
	app.Use(func(c fiber.Ctx) error {
		if cur.priorVary != "" {
			c.Set("Vary", cur.priorVary)
		}
		return c.Next()
	})
	app.Use(mw)
	app.Use(func(c fiber.Ctx) error {
		ran = true
		if len(cur.afterVary) > 0 {
			c.Vary(cur.afterVary...)
		}
		return c.SendStatus(200)
	})
	h := app.Handler()
	var fctx fasthttp.RequestCtx
	var req0 fasthttp.Request
	fctx.Init(&req0, nil, nil)
	serve := func(r *reqIn) (o string) {
		defer func() {
			if rec := recover(); rec != nil {
				o = "reqpanic"
			}
		}()
		cur, ran = r, false
		fctx.Request.Reset()
		fctx.Response.Reset()
		req := &fctx.Request
		// Origin first: it lands in the same header slot (and buffer) on every request of the history
		if r.origin != "" {
			req.Header.Set("Origin", r.origin)
		}
		req.Header.SetMethod(r.method)
		req.SetRequestURI("/x")
		if r.acrm != "" {
			req.Header.Set("Access-Control-Request-Method", r.acrm)
		}
		if r.acrh != "" {
			req.Header.Set("Access-Control-Request-Headers", r.acrh)
		}
		if r.acrpn != "" {
			req.Header.Set("Access-Control-Request-Private-Network", r.acrpn)
		}
		if r.skip {
			req.Header.Set("X-Skip", "1")
		}
		h(&fctx)
		rh := &fctx.Response.Header
		return fmt.Sprintf("next=%s;s204=%s;acao=%s;acac=%s;vary=%s;am=%s;ah=%s;ma=%s;ex=%s;pn=%s",
			gen.B(ran), gen.B(fctx.Response.StatusCode() == 204), opt(rh, "Access-Control-Allow-Origin"),
			gen.B(string(rh.Peek("Access-Control-Allow-Credentials")) == "true"), gen.Hex(string(rh.Peek("Vary"))),
			opt(rh, "Access-Control-Allow-Methods"), opt(rh, "Access-Control-Allow-Headers"),
			opt(rh, "Access-Control-Max-Age"), opt(rh, "Access-Control-Expose-Headers"),
			gen.B(string(rh.Peek("Access-Control-Allow-Private-Network")) == "true"))
	}
	for i := range pre {
		serve(&pre[i])
	}
	obs = serve(&q)
	// A history is served a second time by a fresh handler over ONE keep-alive connection of a real
	// fasthttp server (in-memory listener). The two replies must agree; if they do not, the wire
	// reply is the observation (it is then compared with the model and judged by the spec).
	if len(pre) > 0 && wireClean(pre, q) {
		if mw2, bad2 := construct(c); !bad2 {
			if wobs := observeWire(mw2, pre, q); wobs != obs {
				return wobs
			}
		}
	}
	return obs
}

// wireClean: header values (request and response side) the wire delivers unchanged (no blank at either end, no control byte),
// so that the in-process reply and the wire reply are comparable.
func wireClean(pre []reqIn, q reqIn) bool {
	ok := func(v string) bool {
		if v == "" {
			return true
		}
		if v[0] == ' ' || v[len(v)-1] == ' ' {
			return false
		}
		for i := 0; i < len(v); i++ {
			if v[i] < 0x20 || v[i] == 0x7f {
				return false
			}
		}
		return true
	}
	for _, r := range append(append([]reqIn{}, pre...), q) {
		if !ok(r.origin) || !ok(r.acrm) || !ok(r.acrh) || !ok(r.acrpn) || !ok(r.priorVary) {
			return false
		}
		for _, a := range r.afterVary {
			if !ok(a) {
				return false
			}
		}
	}
	return true
}

func observeWire(mw fiber.Handler, pre []reqIn, q reqIn) (obs string) {
	app := fiber.New()
	ran, panicked := false, false
	var cur *reqIn
	app.Use(func(c fiber.Ctx) error {
		if cur.priorVary != "" {
			c.Set("Vary", cur.priorVary)
		}
		return c.Next()
	})
	app.Use(mw)
	app.Use(func(c fiber.Ctx) error {
		ran = true
		if len(cur.afterVary) > 0 {
			c.Vary(cur.afterVary...)
		}
		return c.SendStatus(200)
	})
	inner := app.Handler()
	srv := &fasthttp.Server{Handler: func(ctx *fasthttp.RequestCtx) {
		defer func() {
			if rec := recover(); rec != nil {
				panicked = true
				ctx.Response.Reset()
				ctx.SetStatusCode(500)
			}
		}()
		inner(ctx)
	}}
	ln := fasthttputil.NewInmemoryListener()
	go srv.Serve(ln) //nolint:errcheck // ends when the listener is closed
	defer ln.Close()
	conn, err := ln.Dial()
	if err != nil {
		return "wire-dial-error"
	}
	defer conn.Close()
	br := bufio.NewReader(conn)
	serve := func(r *reqIn) string {
		cur, ran, panicked = r, false, false
		var sb strings.Builder
		sb.WriteString(r.method + " /x HTTP/1.1\r\nHost: h\r\n")
		hdr := func(k, v string) {
			if v != "" {
				sb.WriteString(k + ": " + v + "\r\n")
			}
		}
		hdr("Origin", r.origin)
		hdr("Access-Control-Request-Method", r.acrm)
		hdr("Access-Control-Request-Headers", r.acrh)
		hdr("Access-Control-Request-Private-Network", r.acrpn)
		if r.skip {
			hdr("X-Skip", "1")
		}
		sb.WriteString("\r\n")
		if _, err := conn.Write([]byte(sb.String())); err != nil {
			return "wire-write-error"
		}
		var resp fasthttp.Response
		resp.SkipBody = r.method == "HEAD"
		if err := resp.Read(br); err != nil {
			return "wire-read-error:" + err.Error()
		}
		if panicked {
			return "reqpanic"
		}
		rh := &resp.Header
		return fmt.Sprintf("next=%s;s204=%s;acao=%s;acac=%s;vary=%s;am=%s;ah=%s;ma=%s;ex=%s;pn=%s",
			gen.B(ran), gen.B(resp.StatusCode() == 204), opt(rh, "Access-Control-Allow-Origin"),
			gen.B(string(rh.Peek("Access-Control-Allow-Credentials")) == "true"), gen.Hex(string(rh.Peek("Vary"))),
			opt(rh, "Access-Control-Allow-Methods"), opt(rh, "Access-Control-Allow-Headers"),
			opt(rh, "Access-Control-Max-Age"), opt(rh, "Access-Control-Expose-Headers"),
			gen.B(string(rh.Peek("Access-Control-Allow-Private-Network")) == "true"))
	}
	for i := range pre {
		if o := serve(&pre[i]); strings.HasPrefix(o, "wire-") {
			return o
		}
	}
	return serve(&q)
}

// ---- histories --------------------------------------------------------------------------------

func encReq(q reqIn) string {
	after := "-"
	if len(q.afterVary) > 0 {
		parts := make([]string, len(q.afterVary))
		for i, a := range q.afterVary {
			parts[i] = gen.Hex(a)
		}
		after = strings.Join(parts, "+")
	}
	return strings.Join([]string{gen.Hex(q.method), gen.Hex(q.origin), gen.Hex(q.acrm), gen.Hex(q.acrh), gen.Hex(q.acrpn),
		gen.B(q.skip), gen.Hex(q.priorVary), after}, ":")
}

func encHistory(pre []reqIn) string {
	if len(pre) == 0 {
		return "-"
	}
	parts := make([]string, len(pre))
	for i, q := range pre {
		parts[i] = encReq(q)
	}
	return strings.Join(parts, ";")
}

// decHistory is forgiving: the shrinker may hand it mangled text; what does not parse is dropped.
func decHistory(s string) (out []reqIn) {
	if s == "-" || s == "" {
		return nil
	}
	unhex := func(x string) (string, bool) {
		if x == "-" {
			return "", true
		}
		b, err := hex.DecodeString(x)
		return string(b), err == nil
	}
	for _, p := range strings.Split(s, ";") {
		f := strings.Split(p, ":")
		if len(f) != 8 {
			continue
		}
		var q reqIn
		ok := true
		get := func(x string) string {
			v, k := unhex(x)
			ok = ok && k
			return v
		}
		q.method, q.origin, q.acrm, q.acrh, q.acrpn = get(f[0]), get(f[1]), get(f[2]), get(f[3]), get(f[4])
		q.skip = f[5] == "1"
		q.priorVary = get(f[6])
		if f[7] != "-" {
			for _, a := range strings.Split(f[7], "+") {
				q.afterVary = append(q.afterVary, get(a))
			}
		}
		if ok {
			out = append(out, q)
		}
	}
	return out
}

// genHistory: a configuration whose allow function and static list split a pool of SAME-LENGTH
// lower-case origins into accepted-by-function / refused / statically listed / not listed, and 2-4
// requests over that pool with otherwise equal headers. A middleware that remembers anything about
// an earlier request (a verdict, a header value it does not own) shows here and nowhere else.
func genHistory(r *gen.Rand, w *gen.Writer) (cfgIn, []reqIn) {
	c := genCfg(r, w)
	scheme := gen.Pick(r, []string{"https", "http"})
	dom := gen.Pick(r, []string{".example.com", ".a.io", ".example.com:8443"})
	pool := make([]string, 6)
	for i := range pool {
		pool[i] = fmt.Sprintf("%s://%c%c%s", scheme, 'a'+byte(r.Intn(26)), 'a'+byte(i), dom)
	}
	// keep only entries the constructor accepts, so the history is served
	var kept []string
	for _, e := range c.origins {
		if _, bad := construct(cfgIn{origins: []string{e}}); !bad && e != "*" {
			kept = append(kept, e)
		}
	}
	c.origins = kept
	if r.Chance(1, 2) {
		c.origins = append(c.origins, pool[0]) // statically listed
	}
	c.funcSet = r.Chance(5, 6)
	c.funcAllows, c.funcPanics = nil, nil
	if c.funcSet {
		c.funcAllows = append(c.funcAllows, pool[1], pool[2]) // accepted by the function
		if r.Chance(1, 10) {
			c.funcPanics = append(c.funcPanics, pool[5])
		}
	}
	if len(c.origins) == 0 && !c.funcSet {
		c.origins = append(c.origins, pool[0])
	}
	n := 2 + r.Intn(3)
	base := genReq(r, w, c)
	base.skip = base.skip && r.Chance(1, 4)
	hist := make([]reqIn, n)
	for i := range hist {
		q := base
		if r.Chance(1, 6) {
			q = genReq(r, w, c)
		}
		q.origin = gen.Pick(r, pool)
		if i > 0 && r.Chance(2, 3) {
			// alternate the verdict: accepted <-> refused
			if hist[i-1].origin == pool[1] || hist[i-1].origin == pool[2] || hist[i-1].origin == pool[0] {
				q.origin = gen.Pick(r, pool[3:5])
			} else {
				q.origin = gen.Pick(r, pool[0:3])
			}
		}
		hist[i] = q
	}
	w.Count("history")
	return c, hist
}

// urlFacts: the real net/url.Parse on every string the constructor can pass to it (each entry
// trimmed; a "://*." entry also with the star cut out) and on the request's Origin.
func urlFacts(c cfgIn, q reqIn) string {
	var probes []string
	seen := map[string]bool{}
	add := func(s string) {
		if !seen[s] {
			seen[s] = true
			probes = append(probes, s)
		}
	}
	for _, e := range c.origins {
		add(strings.Trim(e, " "))
		if i := strings.Index(e, "://*."); i != -1 {
			add(strings.Trim(e[:i+3]+e[i+4:], " "))
		}
	}
	add(q.origin)
	out := make([]string, 0, len(probes))
	for _, p := range probes {
		u, err := url.Parse(p)
		res := "err"
		if err == nil {
			res = fmt.Sprintf("%x|%x|%x|%x|%x", u.Scheme, u.Host, u.Path, u.RawQuery, u.Fragment)
		}
		out = append(out, hex.EncodeToString([]byte(p))+"="+res)
	}
	return strings.Join(out, ";")
}

func emit(w *gen.Writer, id string, c cfgIn, pre []reqIn, q reqIn) string {
	obs := observe(c, pre, q)
	switch obs {
	case "panic":
		w.Count("ctor-panic")
	case "reqpanic":
		w.Count("func-panic")
	}
	w.Case(id, gen.HexList(c.origins), gen.B(c.nextSet), gen.B(c.funcSet), gen.HexList(c.funcAllows), gen.HexList(c.funcPanics),
		gen.HexList(c.methods), gen.HexList(c.headers), gen.HexList(c.expose), gen.I(c.maxAge), gen.B(c.creds), gen.B(c.pn),
		gen.Hex(q.method), gen.Hex(q.origin), gen.Hex(q.acrm), gen.Hex(q.acrh), gen.Hex(q.acrpn), gen.B(q.skip),
		gen.Hex(q.priorVary), gen.HexList(q.afterVary), encHistory(pre), urlFacts(c, q), obs)
	return obs
}

func main() {
	log.SetOutput(io.Discard)
	o := gen.ParseFlags()
	w := gen.NewWriter(o.Out)
	defer w.Close()
	if o.Replay != "" {
		for _, f := range gen.ReplayInputs(o.Replay) {
			if len(f) < 20 {
				continue
			}
			var mi int
			fmt.Sscan(f[9], &mi)
			c := cfgIn{origins: gen.UnHexList(f[1]), nextSet: f[2] == "1", funcSet: f[3] == "1", funcAllows: gen.UnHexList(f[4]),
				funcPanics: gen.UnHexList(f[5]), methods: gen.UnHexList(f[6]), headers: gen.UnHexList(f[7]), expose: gen.UnHexList(f[8]),
				maxAge: mi, creds: f[10] == "1", pn: f[11] == "1"}
			q := reqIn{method: gen.UnHex(f[12]), origin: gen.UnHex(f[13]), acrm: gen.UnHex(f[14]), acrh: gen.UnHex(f[15]),
				acrpn: gen.UnHex(f[16]), skip: f[17] == "1", priorVary: gen.UnHex(f[18]), afterVary: gen.UnHexList(f[19])}
			var pre []reqIn
			if len(f) >= 23 {
				pre = decHistory(f[20])
			}
			emit(w, f[0], c, pre, q)
		}
		return
	}
	root := gen.New(o.Seed)
	perCfg := 8
	n := 0
	for i := 0; n < o.N; i++ {
		r := root.Fork(uint64(i))
		if r.Chance(1, 6) {
			// a short history on one app and one reused request context: one case per position
			c, hist := genHistory(r, w)
			for j := 0; j < len(hist) && n < o.N; j++ {
				emit(w, fmt.Sprintf("s%d.%d.h%d", o.Seed, i, j), c, hist[:j], hist[j])
				n++
			}
			continue
		}
		c := genCfg(r, w)
		for j := 0; j < perCfg && n < o.N; j++ {
			obs := emit(w, fmt.Sprintf("s%d.%d.%d", o.Seed, i, j), c, nil, genReq(r, w, c))
			n++
			if obs == "panic" && j >= 1 {
				break // a refused configuration serves nothing: two requests are enough
			}
		}
	}
}
