// Harness for C03: documented-syntax patterns as token lists, filled with values; each request is
// dispatched to an app holding only that route (app.Handler()) AND asked of RoutePatternMatch.
//
// case line:  id  cfg(3 bits)  toks  vals(hexlist)  path(hex)  observation
//   toks: ';'-separated  L<hex> literal | N<hex> :name | O<hex> :name? | S '*' | P '+'
//         or the single entry X<hex>: a raw pattern text from C02's grammar (constraints, escapes,
//         adjacent parameters, malformed text) – only the RoutePatternMatch = dispatch clause applies
//   observation: the C02 dispatch observation + ";rpm=0|1|panic"
//
// quick tier: random delimited patterns (≤ 6 tokens) × fillings × path variants (plain, other case,
// extra trailing slash, percent-encoded, arbitrary mutation) × 8 configurations. Every 25th pattern
// (all tiers, all seeds) has 28, 29, 30 or 31 parameters: the boundary of fiber's maxParams = 30.
// thorough tier: additionally the exhaustive small-scope enumeration of DESIGN §6 C03 (a TEST, not a
// proof): all token sequences of ≤ 4 tokens over {/, a, -, ., ab/, :x, :y?, *, +} behind a leading
// "/", × all assignments over {ε, a, b, ab, a-b, a/b, A} × 8 configurations.
package main

import (
	"encoding/hex"
	"fmt"
	"io"
	"runtime"
	"strings"
	"sync"

	"github.com/gofiber/fiber/v3/log"

	"verifharness/cmd/c02/rt"
	"verifharness/internal/gen"
)

type tok struct {
	kind byte // L N O S P
	text string
}

func (t tok) String() string {
	switch t.kind {
	case 'L', 'X':
		return t.text
	case 'N':
		return ":" + t.text
	case 'O':
		return ":" + t.text + "?"
	case 'S':
		return "*"
	}
	return "+"
}

func (t tok) enc() string {
	switch t.kind {
	case 'S', 'P':
		return string(t.kind)
	}
	return string(t.kind) + hex.EncodeToString([]byte(t.text))
}

func encToks(ts []tok) string {
	s := make([]string, len(ts))
	for i, t := range ts {
		s[i] = t.enc()
	}
	return strings.Join(s, ";")
}

func decToks(s string) ([]tok, bool) {
	var out []tok
	for _, e := range strings.Split(s, ";") {
		if e == "" {
			return nil, false
		}
		switch e[0] {
		case 'S', 'P':
			if len(e) != 1 {
				return nil, false
			}
			out = append(out, tok{kind: e[0]})
		case 'L', 'N', 'O', 'X':
			b, err := hex.DecodeString(e[1:])
			if err != nil || len(b) == 0 {
				return nil, false
			}
			out = append(out, tok{e[0], string(b)})
		default:
			return nil, false
		}
	}
	return out, true
}

func text(ts []tok) string {
	var sb strings.Builder
	for _, t := range ts {
		sb.WriteString(t.String())
	}
	return sb.String()
}

func fill(ts []tok, vals []string) string {
	var sb strings.Builder
	k := 0
	for _, t := range ts {
		if t.kind == 'L' {
			sb.WriteString(t.text)
		} else {
			if k < len(vals) {
				sb.WriteString(vals[k])
			}
			k++
		}
	}
	return sb.String()
}

func nparams(ts []tok) int {
	n := 0
	for _, t := range ts {
		if t.kind != 'L' {
			n++
		}
	}
	return n
}

func okPathN(p string, lim int) bool {
	return strings.HasPrefix(p, "/") && !strings.HasPrefix(p, "//") && !strings.ContainsAny(p, "?#") && len(p) <= lim
}

func okPath(p string) bool { return okPathN(p, 100) }

// manyPathLimit: request paths of the many-parameter stream (28..31 parameters) are longer.
const manyPathLimit = 600

type job struct {
	id   string
	cfg  rt.Cfg
	ts   []tok
	vals []string
	path string
}

func run(j job) []string {
	pattern := text(j.ts)
	obs := rt.Serve(j.cfg, false, pattern, j.path, nil) + ";rpm=" + rt.RPM(j.cfg, j.path, pattern)
	return []string{j.cfg.String(), encToks(j.ts), gen.HexList(j.vals), gen.Hex(j.path), obs}
}

// pool runs jobs on all CPUs and writes the case lines in submission order.
type pool struct {
	w    *gen.Writer
	in   chan func() (string, []string)
	wg   sync.WaitGroup
	outs chan chan [2]interface{}
}

func newPool(w *gen.Writer) *pool {
	p := &pool{w: w, outs: make(chan chan [2]interface{}, 4096)}
	p.wg.Add(1)
	go func() {
		defer p.wg.Done()
		for ch := range p.outs {
			r := <-ch
			p.w.Case(r[0].(string), r[1].([]string)...)
		}
	}()
	return p
}

var sem = make(chan struct{}, runtime.NumCPU())

func (p *pool) submit(j job) {
	ch := make(chan [2]interface{}, 1)
	p.outs <- ch
	sem <- struct{}{}
	go func() {
		defer func() { <-sem }()
		ch <- [2]interface{}{j.id, run(j)}
	}()
}

func (p *pool) close() { close(p.outs); p.wg.Wait() }

// ---------------------------------------------------------------------------------------------
// random generation

var lits0 = []string{"/", "/a", "/a/", "/ab/", "/abc", "/abc/", "/api/v1/", "/u/", "/A/", "/Ab-", "/x.", "/files/"}
var litsMid = []string{"/", "-", ".", "/a", "/a/", "-a", ".json", "/b/", "-b-", "./", "//", "--", "/ab", "-.", "/x/y/", ".tar.gz", "/A", "/v1/", "-/"}
var litsFree = []string{"a", "ab", "~", "bar", "_x", "@"} // not starting with a delimiter: pattern is then not Delimited
var names = []string{"x", "y", "id", "Name", "p1", "to"}
var smallVals = []string{"", "a", "b", "ab", "a-b", "a/b", "A", "a.b", "abc", "b-", "-a", "a--b", "json", "x.json", "B", "a/", "/", "1", "aB", "v1", "a.tar", "é"}

func genToks(r *gen.Rand) []tok {
	ts := []tok{{'L', gen.Pick(r, lits0)}}
	n := gen.Pick(r, []int{1, 1, 2, 2, 3, 3, 4, 5})
	used := map[string]bool{}
	for i := 0; i < n; i++ {
		prev := ts[len(ts)-1].kind
		k := r.Intn(10)
		switch {
		case prev == 'N' || prev == 'O': // behind a named parameter only a delimiting literal is a literal
			ts = append(ts, tok{'L', gen.Pick(r, litsMid)})
		case prev != 'L' && k < 8: // behind a greedy parameter: mostly a delimiting literal
			ts = append(ts, tok{'L', gen.Pick(r, litsMid)})
		case prev != 'L':
			ts = append(ts, tok{'L', gen.Pick(r, litsFree)}) // e.g. /foo*bar: not Delimited
		case k < 6:
			nm := gen.Pick(r, names)
			for used[nm] {
				nm += "2"
			}
			used[nm] = true
			if r.Chance(1, 3) {
				ts = append(ts, tok{'O', nm})
			} else {
				ts = append(ts, tok{'N', nm})
			}
		case k < 8:
			ts = append(ts, tok{kind: 'S'})
		default:
			ts = append(ts, tok{kind: 'P'})
		}
	}
	return ts
}

func genVals(r *gen.Rand, ts []tok) []string {
	var vals []string
	for _, t := range ts {
		if t.kind == 'L' {
			continue
		}
		v := gen.Pick(r, smallVals)
		if (t.kind == 'S' || t.kind == 'P') && r.Chance(1, 3) {
			v = gen.Pick(r, []string{"a/b", "a/b/c", "x/y.json", "a-b/c", "/a", "a//b"})
		}
		if (t.kind == 'N' || t.kind == 'P') && v == "" && r.Chance(3, 4) {
			v = "a"
		}
		vals = append(vals, v)
	}
	return vals
}

// ---------------------------------------------------------------------------------------------
// many-parameter stream: patterns at the boundary of fiber's maxParams (= 30: ctx.go; the value
// array of a request holds 30 entries, register refuses a route that declares more). Parameter
// counts 28, 29, 30 (must be served like any other pattern) and 31 (registration must panic,
// RoutePatternMatch answers false).

var manyCounts = []int{28, 28, 28, 29, 29, 29, 30, 30, 30, 30, 30, 31}
var manyDelims = []string{"/", "/", "/", "/", "-", "-", ".", "/a/", "-b-", "./", "/v1/", "--", "/x/y/", ".json"}
var manyNames = []string{"p", "id", "Name", "x", "to", "Q"}
var manyVals = []string{"a", "b", "ab", "A", "1", "v1", "abc", "aB", "B", "x", "zz", "7"}

func genManyToks(r *gen.Rand, n int) []tok {
	ts := []tok{{'L', gen.Pick(r, lits0)}}
	allNamed := r.Chance(1, 2)
	oneDelim := ""
	if r.Chance(1, 3) {
		oneDelim = gen.Pick(r, []string{"/", "-", "."})
	}
	for i := 0; i < n; i++ {
		if i > 0 {
			d := oneDelim
			if d == "" {
				d = gen.Pick(r, manyDelims)
			}
			ts = append(ts, tok{'L', d})
		}
		k := r.Intn(20)
		if allNamed {
			k = 0
		}
		nm := gen.Pick(r, manyNames) + fmt.Sprint(i) // distinct also when letter case is ignored
		switch {
		case k < 13:
			ts = append(ts, tok{'N', nm})
		case k < 17:
			ts = append(ts, tok{'O', nm})
		case k < 19:
			ts = append(ts, tok{kind: 'S'})
		default:
			ts = append(ts, tok{kind: 'P'})
		}
	}
	if r.Chance(1, 2) { // the last parameter ends the pattern or is followed by a literal
		ts = append(ts, tok{'L', gen.Pick(r, manyDelims)})
	}
	return ts
}

// genManyVals: well-formed (clean) values most of the time – short, free of delimiters – so that the
// completeness clause applies to a 30-value filling; one position is sometimes drawn from smallVals.
func genManyVals(r *gen.Rand, ts []tok) []string {
	var vals []string
	for _, t := range ts {
		if t.kind == 'L' {
			continue
		}
		v := gen.Pick(r, manyVals)
		if (t.kind == 'O' || t.kind == 'S') && r.Chance(1, 4) {
			v = ""
		}
		vals = append(vals, v)
	}
	if len(vals) > 0 && r.Chance(1, 6) {
		vals[r.Intn(len(vals))] = gen.Pick(r, smallVals)
	}
	return vals
}

func flipCase(r *gen.Rand, p string) string {
	b := []byte(p)
	for i := range b {
		if r.Bool() {
			if b[i] >= 'a' && b[i] <= 'z' {
				b[i] -= 32
			} else if b[i] >= 'A' && b[i] <= 'Z' {
				b[i] += 32
			}
		}
	}
	return string(b)
}

func pctEncode(r *gen.Rand, p string) string {
	const hexd = "0123456789ABCDEFabcdef"
	var sb strings.Builder
	for i := 0; i < len(p); i++ {
		if i > 0 && (r.Chance(1, 4) || p[i] == '%' || p[i] == '+') {
			lo := hexd[p[i]&15]
			if p[i]&15 >= 10 && r.Bool() {
				lo = hexd[16+(p[i]&15)-10]
			}
			sb.WriteString("%" + string(hexd[p[i]>>4]) + string(lo))
		} else {
			sb.WriteByte(p[i])
		}
	}
	return sb.String()
}

func variant(r *gen.Rand, filled, pattern string) (string, string) {
	switch r.Intn(12) {
	case 0, 1, 2, 3, 4:
		return filled, "plain"
	case 5, 6:
		return flipCase(r, filled), "case"
	case 7:
		return filled + gen.Pick(r, []string{"/", "//"}), "slash"
	case 8, 9:
		return pctEncode(r, filled), "pct"
	default:
		p, k := rt.Mutate(r, filled, pattern)
		return p, "mut-" + k
	}
}

// ---------------------------------------------------------------------------------------------
// exhaustive small scope (thorough tier)

var exhToks = []tok{{'L', "/"}, {'L', "a"}, {'L', "-"}, {'L', "."}, {'L', "ab/"}, {'N', "x"}, {'O', "y"}, {kind: 'S'}, {kind: 'P'}}
var exhVals = []string{"", "a", "b", "ab", "a-b", "a/b", "A"}

// normalise merges adjacent literals (the leading "/" included) so that the token list is the
// structured form of its own text; parameter names are made distinct.
func normalise(seq []tok) []tok {
	out := []tok{{'L', "/"}}
	nx := 0
	for _, t := range seq {
		if t.kind == 'L' && out[len(out)-1].kind == 'L' {
			out[len(out)-1].text += t.text
			continue
		}
		if t.kind == 'N' || t.kind == 'O' {
			nx++
			t.text = t.text + strings.Repeat("x", nx-1)
		}
		out = append(out, t)
	}
	return out
}

func delimited(ts []tok) bool {
	for i, t := range ts {
		if t.kind == 'L' {
			continue
		}
		if i+1 < len(ts) {
			n := ts[i+1]
			if n.kind != 'L' || !strings.ContainsRune("/-.", rune(n.text[0])) {
				return false
			}
		}
	}
	return true
}

func exhaustive(p *pool, w *gen.Writer, limit int) int {
	count := 0
	var seq []tok
	var rec func(depth int)
	emitPattern := func() {
		ts := normalise(seq)
		if !delimited(ts) {
			w.Count("exh-not-delimited")
			return
		}
		w.Count("exh-pattern")
		np := nparams(ts)
		idx := make([]int, np)
		for {
			vals := make([]string, np)
			for i := range idx {
				vals[i] = exhVals[idx[i]]
			}
			path := fill(ts, vals)
			if okPath(path) {
				for c := 0; c < 8; c++ {
					if count >= limit {
						return
					}
					cfg := rt.Cfg{CS: c&4 != 0, Strict: c&2 != 0, Unescape: c&1 != 0}
					p.submit(job{fmt.Sprintf("e%d", count), cfg, ts, vals, path})
					count++
				}
			}
			i := 0
			for ; i < np; i++ {
				idx[i]++
				if idx[i] < len(exhVals) {
					break
				}
				idx[i] = 0
			}
			if i == np {
				break
			}
		}
	}
	rec = func(depth int) {
		if len(seq) > 0 {
			emitPattern()
		}
		if depth == 4 || count >= limit {
			return
		}
		for _, t := range exhToks {
			seq = append(seq, t)
			rec(depth + 1)
			seq = seq[:len(seq)-1]
		}
	}
	rec(0)
	return count
}

func main() {
	log.SetOutput(io.Discard)
	o := gen.ParseFlags()
	w := gen.NewWriter(o.Out)
	defer w.Close()
	p := newPool(w)
	defer p.close()
	if o.Replay != "" {
		for _, f := range gen.ReplayInputs(o.Replay) {
			func() {
				defer func() { _ = recover() }() // mangled (shrunk) lines are skipped
				if len(f) < 5 {
					return
				}
				cfg, ok := rt.ParseCfg(f[1])
				ts, ok2 := decToks(f[2])
				if !ok || !ok2 {
					return
				}
				vals := gen.UnHexList(f[3])
				path := gen.UnHex(f[4])
				if !okPathN(path, manyPathLimit) {
					return
				}
				p.submit(job{f[0], cfg, ts, vals, path})
			}()
		}
		return
	}
	n := o.N
	if o.Tier == "thorough" {
		// the exhaustive enumeration takes (up to) 3/4 of the budget, random cases the rest
		done := exhaustive(p, w, n*3/4)
		w.Count(fmt.Sprintf("exhaustive-cases-%d", done))
		n -= done
	}
	root := gen.New(o.Seed)
	per := 8
	for i := 0; i*per < n; i++ {
		r := root.Fork(uint64(i))
		if r.Chance(1, 5) { // raw-pattern stream: RoutePatternMatch against dispatch on C02's pattern grammar
			var pattern string
			var g rt.GenPat
			mal := r.Chance(1, 6)
			if mal {
				pattern = rt.Malformed(r)
			} else {
				g = rt.GenPattern(r)
				pattern = rt.PatternText(g.Toks)
			}
			w.Count("pattern-raw")
			for j := 0; j < per && i*per+j < n; j++ {
				cfg := rt.Cfg{CS: r.Bool(), Strict: r.Bool(), Unescape: r.Bool()}
				filled := strings.NewReplacer("\\", "", "<", "", ">", "").Replace(pattern)
				if !mal {
					filled, _ = g.Fill(r)
				}
				path, kind := rt.Mutate(r, filled, pattern)
				if r.Chance(1, 4) {
					path = flipCase(r, path)
				}
				if !strings.HasPrefix(path, "/") {
					path = "/" + path
				}
				if !okPath(path) {
					path = strings.NewReplacer("?", "", "#", "").Replace(path)
					for strings.HasPrefix(path, "//") {
						path = path[1:]
					}
					if !okPath(path) {
						path = "/"
					}
				}
				w.Count("path-raw-" + kind)
				p.submit(job{fmt.Sprintf("s%d.%d.%d", o.Seed, i, j), cfg, []tok{{'X', pattern}}, nil, path})
			}
			continue
		}
		// every 25th pattern group (4 % of the cases, in every tier and for every seed) is a
		// many-parameter pattern at the maxParams boundary
		many := i%25 == 7
		lim := 100
		var ts []tok
		if many {
			np := gen.Pick(r, manyCounts)
			ts = genManyToks(r, np)
			lim = manyPathLimit
			w.Count(fmt.Sprintf("pattern-many-params-%d", np))
		} else {
			ts = genToks(r)
		}
		pattern := text(ts)
		if delimited(ts) {
			w.Count("pattern-delimited")
		} else {
			w.Count("pattern-not-delimited")
		}
		for j := 0; j < per && i*per+j < n; j++ {
			cfg := rt.Cfg{CS: r.Bool(), Strict: r.Bool(), Unescape: r.Bool()}
			var vals []string
			if many {
				vals = genManyVals(r, ts)
			} else {
				vals = genVals(r, ts)
			}
			path, kind := variant(r, fill(ts, vals), pattern)
			if !okPathN(path, lim) {
				path = strings.NewReplacer("?", "", "#", "").Replace(path)
				for strings.HasPrefix(path, "//") {
					path = path[1:]
				}
				if !okPathN(path, lim) {
					path = "/"
				}
			}
			w.Count("path-" + kind)
			if many {
				w.Count("path-many-" + kind)
			}
			p.submit(job{fmt.Sprintf("s%d.%d.%d", o.Seed, i, j), cfg, ts, vals, path})
		}
	}
}
