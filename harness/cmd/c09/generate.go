package main

import (
	"strings"

	"github.com/gofiber/utils/v2"

	"verifharness/internal/gen"
)

var mediaOffers = []string{"text/html", "text/plain", "application/json", "application/xml", "image/png",
	"text/css", "application/xhtml+xml", "application/pdf"}
var extOffers = []string{"html", "json", "txt", "xml", "png", ".css", "htm", "unknownext", "js"}
var offerParams = []string{";a=1", ";b=2", ";a=1;b=2", ";b=2;a=1", ";charset=utf-8", ";A=CAPS", `;a="x y"`, `;a="x\"y"`,
	"; a=1", ";version=1;v=1", `;a="1;b=2\",text/plain"`, ";c=3;a=2", ";a=2"}
// the parameters of each offerParams entry, as (name, value as written inside the quotes or as token, quoted)
type kv struct {
	name, value string
	quoted      bool
}

var offerKVs = map[string][]kv{
	";a=1": {{"a", "1", false}}, ";b=2": {{"b", "2", false}}, ";a=1;b=2": {{"a", "1", false}, {"b", "2", false}},
	";b=2;a=1": {{"b", "2", false}, {"a", "1", false}}, ";charset=utf-8": {{"charset", "utf-8", false}},
	";A=CAPS": {{"A", "CAPS", false}}, `;a="x y"`: {{"a", "x y", true}}, `;a="x\"y"`: {{"a", `x\"y`, true}},
	"; a=1": {{"a", "1", false}}, ";version=1;v=1": {{"version", "1", false}, {"v", "1", false}},
	`;a="1;b=2\",text/plain"`: {{"a", `1;b=2\",text/plain`, true}}, ";c=3;a=2": {{"c", "3", false}, {"a", "2", false}},
	";a=2": {{"a", "2", false}},
}

var charsets = []string{"utf-8", "iso-8859-1", "ascii", "utf-16", "UTF-8"}
var encodings = []string{"gzip", "deflate", "br", "identity", "zstd", "compress"}
var languages = []string{"en", "en-US", "en-GB", "de", "fr", "fr-CH", "da"}

var owsVals = []string{"", "", "", "", " ", " ", "  ", "\t", " \t"}
var owsSp = []string{"", "", "", " ", " ", "  "}

var goodQ = []string{"0", "0.0", "0.00", "0.000", "0.5", "0.8", "0.9", "0.899", "0.898", "1", "1.0", "1.000", "0.001",
	"0.1", "0.10", "0.100", "0.7", "0.70", "0.3", "0.999"}
var oddQ = []string{"", "1.5", "NaN", "1e400", "abc", "-1", "0.", ".5", "00", "0x1p-1", "Inf", "1e-400", "0.0000", "+0",
	"1_0", "2", "0.5x", "1e0", "0e0", "-0", "infinity", "0.50000000000000001", "0.5000000000000001", "1.0000", "0,5"}

var tokVals = []string{"1", "2", "3", "utf-8", "CAPS", "caps", "x", "1", "2", "v`1", "!#$%&'*+-.^_`|~"}
var quotedVals = []string{"x y", "1", `x\"y`, `1;b=2\",text/plain`, "", "a,b", `\\`, `a\\`, "caPs", `q\"`, `,`, `;q=0`, "x\ty"}
var pnames = []string{"a", "b", "c", "charset", "A", "B", "version", "v", "a", "b", "x`1", "k!#$%&'*+-.^_|~"}

func ows(r *gen.Rand, tabs bool) string {
	if tabs {
		return gen.Pick(r, owsVals)
	}
	return gen.Pick(r, owsSp)
}

func mixCase(r *gen.Rand, s string) string {
	b := []byte(s)
	for i := range b {
		if r.Chance(1, 3) && b[i] >= 'a' && b[i] <= 'z' {
			b[i] -= 32
		}
	}
	return string(b)
}

type profile struct {
	tabs     bool // HTAB as OWS (in the grammar: OWS = *( SP / HTAB ))
	emptyPar bool // empty parameters (";;"; in the grammar: parameters = *( OWS ";" OWS [ parameter ] ))
	upperQ   bool // "Q=" weight
	oddQ     bool // q texts outside the RFC qvalue grammar
	dupPar   bool // repeated parameter names in a range (in the grammar; the last value counts, once)
	junk     bool // arbitrary extra junk (non-grammar)
}

func genOffers(r *gen.Rand, kind string) []string {
	n := r.Intn(5)
	if r.Chance(1, 20) {
		n = 0
	}
	var out []string
	for i := 0; i < n; i++ {
		switch kind {
		case "a", "f":
			var o string
			switch r.Intn(10) {
			case 0, 1, 2:
				o = gen.Pick(r, extOffers)
			case 3:
				o = gen.Pick(r, []string{"text/*", "*/*", "image/*"})
			default:
				o = gen.Pick(r, mediaOffers)
			}
			if r.Chance(1, 3) {
				o += gen.Pick(r, offerParams)
			}
			if r.Chance(1, 40) {
				o = ""
			}
			if kind == "f" && r.Chance(1, 8) {
				o = "default"
			}
			out = append(out, o)
		case "c":
			out = append(out, gen.Pick(r, charsets))
		case "e":
			out = append(out, gen.Pick(r, encodings))
		case "l":
			out = append(out, gen.Pick(r, languages))
		}
		if r.Chance(1, 60) {
			out[len(out)-1] = ""
		}
	}
	return out
}

func genRange(r *gen.Rand, kind string, offers []string) string {
	switch kind {
	case "a", "f":
		switch r.Intn(12) {
		case 0:
			return "*/*"
		case 1:
			return gen.Pick(r, []string{"text/*", "application/*", "image/*"})
		case 2, 3, 4, 5, 6:
			// derived from an offer
			if len(offers) > 0 {
				o := gen.Pick(r, offers)
				if i := strings.IndexByte(o, ';'); i != -1 {
					o = o[:i]
				}
				if strings.IndexByte(o, '/') == -1 {
					o = gen.Pick(r, mediaOffers)
				}
				if r.Chance(1, 6) {
					if i := strings.IndexByte(o, '/'); i != -1 {
						o = o[:i] + "/*"
					}
				}
				if r.Chance(1, 25) {
					o = mixCase(r, o)
				}
				return o
			}
			return gen.Pick(r, mediaOffers)
		case 7:
			return gen.Pick(r, []string{"*", "text", "html", "text/", "/html"})
		default:
			return gen.Pick(r, mediaOffers)
		}
	case "c":
		return gen.Pick(r, append([]string{"*", "utf-8", "utf"}, charsets...))
	case "e":
		return gen.Pick(r, append([]string{"*", "gzip", "x-gzip", "gz"}, encodings...))
	default:
		return gen.Pick(r, append([]string{"*", "en", "en-US-x", "e", "fr-*"}, languages...))
	}
}

func genParam(r *gen.Rand, pf profile) param {
	p := param{ows1: ows(r, pf.tabs), ows2: ows(r, pf.tabs), name: gen.Pick(r, pnames)}
	if r.Chance(1, 3) {
		p.quoted = true
		p.value = gen.Pick(r, quotedVals)
		if !pf.tabs && strings.Contains(p.value, "\t") {
			p.value = "x y"
		}
	} else {
		p.value = gen.Pick(r, tokVals)
	}
	return p
}

func genElem(r *gen.Rand, kind string, offers []string, pf profile) elem {
	e := elem{lead: ows(r, pf.tabs), trail: ows(r, pf.tabs)}
	if r.Chance(1, 25) {
		return e // empty list element
	}
	e.rng = genRange(r, kind, offers)
	np := 0
	if kind == "a" || kind == "f" {
		np = gen.Pick(r, []int{0, 0, 0, 1, 1, 2, 3})
	} else if r.Chance(1, 10) {
		np = 1
	}
	used := map[string]bool{}
	// aim at "the parameters of a range must all be present in the offer": take range and parameters
	// from an offer that has parameters (all or some of them, in any order and letter case, sometimes
	// with one value changed, under dupPar sometimes preceded by the same name with another value)
	if (kind == "a" || kind == "f") && len(offers) > 0 && r.Chance(2, 5) {
		o := gen.Pick(r, offers)
		if i := strings.IndexByte(o, ';'); i > 0 {
			if kvs, ok := offerKVs[o[i:]]; ok {
				mt := o[:i]
				if strings.IndexByte(mt, '/') == -1 {
					mt = utils.GetMIME(mt)
				}
				switch r.Intn(8) {
				case 0:
					mt = "*/*"
				case 1:
					if j := strings.IndexByte(mt, '/'); j != -1 {
						mt = mt[:j] + "/*"
					}
				}
				e.rng = mt
				np = 0
				kvs = append([]kv(nil), kvs...)
				if len(kvs) > 1 && r.Bool() {
					kvs[0], kvs[1] = kvs[1], kvs[0]
				}
				if len(kvs) > 1 && r.Chance(1, 4) {
					kvs = kvs[:1]
				}
				for _, x := range kvs {
					p := param{ows1: ows(r, pf.tabs), ows2: ows(r, pf.tabs), name: x.name, quoted: x.quoted, value: x.value}
					if !p.quoted && r.Chance(1, 4) {
						p.quoted = true
					}
					if r.Chance(1, 3) {
						p.name = mixCase(r, p.name)
					}
					if r.Chance(1, 4) && !strings.Contains(p.value, `\`) {
						p.value = mixCase(r, p.value)
					}
					if r.Chance(1, 8) {
						p.value = gen.Pick(r, tokVals)
						p.quoted = false
					}
					if pf.dupPar && r.Chance(1, 2) {
						d := param{ows1: ows(r, pf.tabs), ows2: ows(r, pf.tabs), name: p.name, value: gen.Pick(r, tokVals)}
						if r.Bool() {
							d.name = strings.ToUpper(d.name)
						} else {
							d.name = strings.ToLower(d.name)
						}
						if r.Chance(1, 4) {
							// the other way round: the offer's value first, another value last
							d.value, d.quoted, p.value, p.quoted = p.value, p.quoted, d.value, false
						}
						e.params = append(e.params, d)
					}
					used[strings.ToLower(p.name)] = true
					e.params = append(e.params, p)
					if pf.emptyPar && r.Chance(1, 4) {
						e.params = append(e.params, param{ows1: ows(r, pf.tabs), ows2: ows(r, pf.tabs)})
					}
				}
			}
		}
	}
	if pf.emptyPar && r.Chance(1, 5) {
		// an empty parameter right after the range ("text/html; ;a=1")
		e.params = append(e.params, param{ows1: ows(r, pf.tabs), ows2: ows(r, pf.tabs)})
	}
	for i := 0; i < np; i++ {
		p := genParam(r, pf)
		if !pf.dupPar {
			for used[strings.ToLower(p.name)] {
				p.name = gen.Pick(r, pnames)
			}
		} else if i > 0 && r.Chance(1, 2) {
			// repeat the previous name, possibly in the other case (in the grammar: the last value counts, once)
			p.name = e.params[len(e.params)-1].name
			if p.name == "" && len(e.params) > 1 {
				p.name = e.params[len(e.params)-2].name
			}
			if p.name == "" {
				p.name = gen.Pick(r, pnames)
			} else if r.Chance(1, 3) {
				p.name = strings.ToUpper(p.name)
			}
		}
		used[strings.ToLower(p.name)] = true
		e.params = append(e.params, p)
		if pf.emptyPar && r.Chance(1, 4) {
			e.params = append(e.params, param{ows1: ows(r, pf.tabs), ows2: ows(r, pf.tabs)})
		}
	}
	if r.Chance(3, 5) {
		q := param{ows1: ows(r, pf.tabs), ows2: ows(r, pf.tabs), name: "q", value: gen.Pick(r, goodQ)}
		if r.Chance(1, 3) {
			q.value = gen.Pick(r, []string{"0", "0.0", "0.000", "0.00"})
		}
		if pf.upperQ && r.Chance(1, 2) {
			q.name = "Q"
		}
		if pf.oddQ && r.Chance(1, 2) {
			q.value = gen.Pick(r, oddQ)
			if r.Chance(1, 8) {
				q.quoted = true
			}
		}
		if pf.emptyPar && r.Chance(1, 3) {
			e.params = append(e.params, param{ows1: ows(r, pf.tabs), ows2: ows(r, pf.tabs)})
		}
		e.params = append(e.params, q)
		// accept-ext after the weight (ignored by negotiation)
		if r.Chance(1, 10) {
			e.params = append(e.params, genParam(r, pf))
		}
		if pf.emptyPar && r.Chance(1, 6) {
			e.params = append(e.params, param{ows1: ows(r, pf.tabs), ows2: ows(r, pf.tabs)})
		}
	}
	return e
}

var rawAlphabet = []byte(`,;="\ */aq01.tex-Q` + "\t")

func genRaw(r *gen.Rand) string {
	n := r.Intn(24)
	b := make([]byte, n)
	for i := range b {
		switch r.Intn(10) {
		case 0:
			c := byte(r.Intn(256))
			if c == '\r' || c == '\n' || c == 0 {
				c = '~'
			}
			b[i] = c
		default:
			b[i] = rawAlphabet[r.Intn(len(rawAlphabet))]
		}
	}
	s := string(b)
	if r.Chance(1, 3) {
		s = gen.Pick(r, []string{"text/html", "*/*", "text/*;q=0.5", `a;b="c,d"`}) + gen.Pick(r, []string{",", ";", " ,", ""}) + s
	}
	return strings.TrimSpace(s)
}

func genCase(w *gen.Writer, r *gen.Rand, id string) {
	kind := "a"
	switch r.Intn(16) {
	case 0, 1:
		kind = "c"
	case 2, 3:
		kind = "e"
	case 4, 5:
		kind = "l"
	case 6, 7, 8:
		kind = "f"
	}
	offers := genOffers(r, kind)
	if r.Chance(1, 12) {
		// malformed stream: raw bytes, totality + membership only
		w.Count("raw")
		emit(w, id, kind, "-", genRaw(r), offers)
		return
	}
	var pf profile
	// tabs and emptyPar stay inside the grammar; upperQ too (ABNF literals are case-insensitive);
	// dupPar too (the grammar does not forbid a repeated name); oddQ leaves it. Each profile is drawn independently
	pf.tabs = r.Chance(1, 4)
	pf.emptyPar = r.Chance(1, 5)
	pf.upperQ = r.Chance(1, 10)
	pf.oddQ = r.Chance(1, 10)
	pf.dupPar = r.Chance(1, 8)
	n := gen.Pick(r, []int{0, 1, 1, 2, 2, 3, 3, 4, 5, 7})
	if r.Chance(1, 50) {
		n = 12 + r.Intn(10)
	}
	els := make([]elem, 0, n)
	for i := 0; i < n; i++ {
		els = append(els, genElem(r, kind, offers, pf))
	}
	// fasthttp trims the header value on the wire; keep the rendered header free of outer OWS so
	// that the header the code sees is exactly the rendering
	if n > 0 {
		els[0].lead = ""
		els[n-1].trail = ""
		if els[n-1].rng == "" && len(els[n-1].params) == 0 {
			els[n-1].lead = ""
		}
	}
	if n == 0 {
		w.Count("absent")
	}
	emit(w, id, kind, encodeAST(els), renderHeader(els), offers)
}
