package main

import (
	"strings"

	"verifharness/internal/gen"
)

// Abstract syntax of an Accept-style header, RFC 9110 §12.5 (#-list of range *( OWS ";" OWS
// [ parameter ] )); the weight is the first parameter named q/Q. The renderer below is the Go twin
// of `C09.render` in lean/FiberModel/C09/Spec.lean (the driver re-renders and compares).
type param struct {
	ows1, ows2 string // OWS before / after the ';'
	name       string // "" = empty parameter (just the ';')
	quoted     bool
	value      string // token text, or the quoted-string content as written (escapes included)
}

type elem struct {
	lead   string // OWS before the range
	rng    string // "" = empty list element
	params []param
	trail  string // OWS before the ',' / end
}

func renderElem(e elem) string {
	var sb strings.Builder
	sb.WriteString(e.lead)
	sb.WriteString(e.rng)
	for _, p := range e.params {
		sb.WriteString(p.ows1)
		sb.WriteByte(';')
		sb.WriteString(p.ows2)
		if p.name != "" {
			sb.WriteString(p.name)
			sb.WriteByte('=')
			if p.quoted {
				sb.WriteByte('"')
				sb.WriteString(p.value)
				sb.WriteByte('"')
			} else {
				sb.WriteString(p.value)
			}
		}
	}
	sb.WriteString(e.trail)
	return sb.String()
}

func renderHeader(els []elem) string {
	parts := make([]string, len(els))
	for i, e := range els {
		parts[i] = renderElem(e)
	}
	return strings.Join(parts, ",")
}

// wire form: elements '|'-separated; element = lead:range:params:trail; params '/'-separated or
// "-"; param = ows1+ows2+name+kind+value (kind t|q); all strings hex ("-" = empty); "e" = no elements.
func encodeAST(els []elem) string {
	if len(els) == 0 {
		return "e"
	}
	out := make([]string, len(els))
	for i, e := range els {
		ps := "-"
		if len(e.params) > 0 {
			pp := make([]string, len(e.params))
			for j, p := range e.params {
				k := "t"
				if p.quoted {
					k = "q"
				}
				pp[j] = strings.Join([]string{gen.Hex(p.ows1), gen.Hex(p.ows2), gen.Hex(p.name), k, gen.Hex(p.value)}, "+")
			}
			ps = strings.Join(pp, "/")
		}
		out[i] = strings.Join([]string{gen.Hex(e.lead), gen.Hex(e.rng), ps, gen.Hex(e.trail)}, ":")
	}
	return strings.Join(out, "|")
}

func unhexOK(s string) (string, bool) {
	defer func() { _ = recover() }()
	if s == "" {
		return "", false
	}
	return gen.UnHex(s), true
}

func decodeAST(s string) (els []elem, ok bool) {
	defer func() {
		if r := recover(); r != nil {
			ok = false
		}
	}()
	if s == "e" {
		return nil, true
	}
	for _, es := range strings.Split(s, "|") {
		f := strings.Split(es, ":")
		if len(f) != 4 {
			return nil, false
		}
		var e elem
		var k bool
		if e.lead, k = unhexOK(f[0]); !k {
			return nil, false
		}
		if e.rng, k = unhexOK(f[1]); !k {
			return nil, false
		}
		if e.trail, k = unhexOK(f[3]); !k {
			return nil, false
		}
		if f[2] != "-" {
			for _, ps := range strings.Split(f[2], "/") {
				g := strings.Split(ps, "+")
				if len(g) != 5 || (g[3] != "t" && g[3] != "q") {
					return nil, false
				}
				var p param
				if p.ows1, k = unhexOK(g[0]); !k {
					return nil, false
				}
				if p.ows2, k = unhexOK(g[1]); !k {
					return nil, false
				}
				if p.name, k = unhexOK(g[2]); !k {
					return nil, false
				}
				p.quoted = g[3] == "q"
				if p.value, k = unhexOK(g[4]); !k {
					return nil, false
				}
				e.params = append(e.params, p)
			}
		}
		els = append(els, e)
	}
	return els, true
}
