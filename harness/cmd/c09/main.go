// Harness for C09: runs the real content-negotiation code (c.Accepts, c.AcceptsCharsets,
// c.AcceptsEncodings, c.AcceptsLanguages, c.Format) on generated Accept-style headers × offer
// lists and writes one case line per call (inputs + the implementation's observation).
//
// Case line (after `case`, id):
//
//	kind     a|c|e|l|f   (Accepts / AcceptsCharsets / AcceptsEncodings / AcceptsLanguages / Format)
//	ast      abstract syntax of the header ("-" = none: raw header; "e" = empty list), see ast.go
//	header   hex of the header value the code saw (rendered from the AST, or the raw stream)
//	offers   hexlist
//	mimes    hexlist of alternating (extension, utils.GetMIME(extension)) for offers without '/'
//	qtab     hexlist of alternating (text, fasthttp.ParseUfloat verdict) for q texts outside the
//	         modelled decimal grammar
//	obs      implementation observation
package main

import (
	"fmt"
	"io"
	"math"
	"strconv"
	"strings"

	"github.com/gofiber/fiber/v3"
	"github.com/gofiber/fiber/v3/log"
	"github.com/gofiber/utils/v2"
	"github.com/valyala/fasthttp"

	"verifharness/internal/gen"
)

// ---------------------------------------------------------------------------------------------
// running the real code

type call struct {
	kind   string
	header string
	offers []string
}

var (
	cur    call
	result string
	app    *fiber.App
	h      fasthttp.RequestHandler
)

func setup() {
	app = fiber.New()
	app.Get("/n", func(c fiber.Ctx) error {
		switch cur.kind {
		case "a":
			result = "r=" + gen.Hex(c.Accepts(cur.offers...))
		case "c":
			result = "r=" + gen.Hex(c.AcceptsCharsets(cur.offers...))
		case "e":
			result = "r=" + gen.Hex(c.AcceptsEncodings(cur.offers...))
		case "l":
			result = "r=" + gen.Hex(c.AcceptsLanguages(cur.offers...))
		case "f":
			ran := -1
			hs := make([]fiber.ResFmt, len(cur.offers))
			for i, o := range cur.offers {
				i := i
				hs[i] = fiber.ResFmt{MediaType: o, Handler: func(fiber.Ctx) error {
					if ran == -1 {
						ran = i
					} else {
						ran = -2 // more than one handler ran
					}
					return nil
				}}
			}
			err := c.Format(hs...)
			e := "0"
			if err != nil {
				e = "1"
			}
			ct := gen.Hex(string(c.Response().Header.ContentType()))
			result = fmt.Sprintf("h=%d;st=%d;ct=%s;vary=%s;err=%s", ran, c.Response().StatusCode(),
				ct, gen.Hex(string(c.Response().Header.Peek("Vary"))), e)
		}
		return nil
	})
	h = app.Handler()
}

// observe runs one call; returns the header bytes the code actually saw and the observation.
func observe(c call) (seen string, obs string) {
	defer func() {
		if r := recover(); r != nil {
			obs = "panic"
		}
	}()
	cur = c
	result = "noresult"
	var fctx fasthttp.RequestCtx
	var req fasthttp.Request
	req.Header.SetMethod("GET")
	req.SetRequestURI("/n")
	name := map[string]string{"a": "Accept", "f": "Accept", "c": "Accept-Charset", "e": "Accept-Encoding", "l": "Accept-Language"}[c.kind]
	if c.header != "" {
		req.Header.Set(name, c.header)
	}
	seen = string(req.Header.Peek(name))
	fctx.Init(&req, nil, nil)
	func() {
		defer func() {
			if r := recover(); r != nil {
				result = "panic"
			}
		}()
		h(&fctx)
	}()
	// fiber's own recover is not installed; a panic inside the handler surfaces above
	return seen, result
}

// ---------------------------------------------------------------------------------------------
// tables shipped with the case

func mimeTable(offers []string) []string {
	var out []string
	seen := map[string]bool{}
	for _, o := range offers {
		m := o
		if i := strings.IndexByte(o, ';'); i != -1 {
			m = o[:i]
		}
		if strings.IndexByte(m, '/') != -1 || seen[m] {
			continue
		}
		seen[m] = true
		out = append(out, m, utils.GetMIME(m))
	}
	return out
}

func simpleDecimal(s string) bool {
	if len(s) == 0 || len(s) > 15 {
		return false
	}
	digits, dots := 0, 0
	for i := 0; i < len(s); i++ {
		switch {
		case s[i] >= '0' && s[i] <= '9':
			digits++
		case s[i] == '.':
			dots++
		default:
			return false
		}
	}
	return digits > 0 && dots <= 1
}

func ufloatVerdict(s string) string {
	q, err := fasthttp.ParseUfloat([]byte(s))
	switch {
	case err != nil:
		return "err"
	case math.IsNaN(q):
		return "nan"
	case math.IsInf(q, 1):
		return "inf"
	default:
		return strconv.FormatFloat(q, 'f', -1, 64)
	}
}

func isDelim(c byte) bool { return c == ',' || c == ';' || c == ' ' || c == '\t' || c == '"' }

// qTable ships ParseUfloat's verdict for every substring of the header that starts right after a
// "q=" and ends at a delimiter boundary or at the end (a superset of what the code can feed to the
// parser, before or after OWS trimming), unless it is in the modelled decimal grammar.
func qTable(header string) []string {
	var out []string
	seen := map[string]bool{}
	add := func(s string) {
		if seen[s] || simpleDecimal(s) || len(s) > 64 {
			return
		}
		seen[s] = true
		out = append(out, s, ufloatVerdict(s))
	}
	for p := 0; p+1 < len(header); p++ {
		if (header[p] == 'q' || header[p] == 'Q') && header[p+1] == '=' {
			st := p + 2
			if st < len(header) && header[st] == '"' {
				st2 := st + 1
				for e := st2; e <= len(header) && e-st2 <= 24; e++ {
					add(header[st2:e])
				}
			}
			for e := st; e <= len(header) && len(out) < 400; e++ {
				if e == len(header) || isDelim(header[e]) || (e > st && isDelim(header[e-1])) {
					add(header[st:e])
				}
			}
		}
	}
	return out
}

func emit(w *gen.Writer, id string, kind string, ast string, header string, offers []string) {
	seen, obs := observe(call{kind: kind, header: header, offers: offers})
	if obs == "panic" {
		w.Count("panic")
	}
	w.Count("kind-" + kind)
	w.Case(id, kind, ast, gen.Hex(seen), gen.HexList(offers), gen.HexList(mimeTable(offers)), gen.HexList(qTable(seen)), obs)
}

func main() {
	log.SetOutput(io.Discard)
	o := gen.ParseFlags()
	w := gen.NewWriter(o.Out)
	defer w.Close()
	setup()
	if o.Replay != "" {
		for _, f := range gen.ReplayInputs(o.Replay) {
			replayOne(w, f)
		}
		return
	}
	// fixed probe: which bytes fasthttp.VisitHeaderParams treats as token bytes (the driver compares
	// the table with its `tchar`)
	w.Case("probe.tchar", "p", "-", gen.Hex(probeTchar()), "-", "-", "-", "probe")
	// fixed probe of helpers.go isTokenByte through the public API: "text/html;<c>=x" keeps the
	// parameter (and then does not accept the offer text/html) exactly when <c> is a token byte; the
	// model must agree byte for byte (CR, LF, NUL cannot be sent in a header value)
	for c := 1; c < 256; c++ {
		if c == '\r' || c == '\n' {
			continue
		}
		emit(w, fmt.Sprintf("probe.tb.%d", c), "a", "-", "text/html;"+string([]byte{byte(c)})+"=x", []string{"text/html"})
	}
	root := gen.New(o.Seed)
	for i := 0; i < o.N; i++ {
		r := root.Fork(uint64(i))
		id := fmt.Sprintf("s%d.%d", o.Seed, i)
		genCase(w, r, id)
	}
}

func probeTchar() string {
	b := make([]byte, 256)
	for c := 0; c < 256; c++ {
		called := false
		fasthttp.VisitHeaderParams([]byte{';', byte(c), '=', 'x'}, func(k, v []byte) bool { called = true; return true })
		if called {
			b[c] = '1'
		} else {
			b[c] = '0'
		}
	}
	return string(b)
}

// replayOne re-executes the inputs of one case line; mangled lines (from the shrinker) are skipped.
func replayOne(w *gen.Writer, f []string) {
	defer func() { _ = recover() }()
	if len(f) < 5 {
		return
	}
	id, kind, ast := f[0], f[1], f[2]
	if kind == "p" {
		w.Case(id, "p", "-", gen.Hex(probeTchar()), "-", "-", "-", "probe")
		return
	}
	if !strings.Contains("acelf", kind) || len(kind) != 1 {
		return
	}
	header := ""
	if ast != "-" {
		els, ok := decodeAST(ast)
		if !ok {
			return
		}
		header = renderHeader(els)
		ast = encodeAST(els)
	} else {
		header = gen.UnHex(f[3])
	}
	emit(w, id, kind, ast, header, gen.UnHexList(f[4]))
}
