package main

import (
	"fmt"
	"strings"

	"verifharness/internal/gen"
)

var ccVocab = []string{"no-cache", "no-cache", "no-store", "No-Cache", "NO-STORE", "max-age=0, no-cache", "no-cache, no-store",
	"max-age=60", "private", "xno-cachex", "no-cach", "only-if-cached", "No-Store, max-age=0"}
var ctypes = []string{"", "text/plain", "application/json", "text/html; charset=utf-8", "application/octet-stream", "image/png"}
var cencs = []string{"", "", "", "", "gzip", "br"}
var cacheableSt = []int{200, 200, 200, 200, 203, 204, 206, 300, 301, 404, 405, 410, 414, 418, 501}
var otherSt = []int{201, 202, 302, 304, 307, 400, 401, 403, 500, 502, 503}
var hdrVals = []string{"1", "abc", "W/\"x\"", "Accept-Encoding", "max-age=5", "timeout=5", "h2c", "trailers", "Basic", "Tue, 10 Nov 2009 23:00:00 GMT"}

func genBody(r *gen.Rand, idx, n int) string {
	b := make([]byte, n)
	for i := range b {
		switch {
		case i == 0:
			b[i] = byte('A' + idx%26) // bodies of different ops differ: stale or foreign replays are visible
		case r.Chance(1, 12):
			b[i] = byte(r.Intn(256))
		default:
			b[i] = byte('a' + r.Intn(26))
		}
	}
	return string(b)
}

// genFaults: outcomes of up to n consecutive storage calls, mostly ok; entry: the first call is the Get of the
// entry, which may also return a value that does not decode
func genFaults(r *gen.Rand, n int, entry bool) string {
	b := make([]byte, n)
	for i := range b {
		switch {
		case r.Chance(1, 4):
			b[i] = 'e'
		case entry && i == 0 && r.Chance(1, 3):
			b[i] = 'g'
		default:
			b[i] = 'o'
		}
	}
	return strings.TrimRight(string(b), "o")
}

// ownVal: a header value that names the op, always 9 bytes long (a value overwritten in place by the value of
// another op's response shows as that other op's value, not as a truncated or padded one)
func ownVal(idx int) string {
	return "own-" + string([]byte{byte('a' + idx%26), byte('a' + (idx/26)%26)}) + "-" + string([]byte{byte('A' + idx%26), byte('0' + idx%10)})
}

func genOp(r *gen.Rand, c cfgIn, keys []string, idx int, w *gen.Writer, flt int) opIn {
	o := opIn{expGen: -1}
	o.method = gen.Pick(r, []string{"GET", "GET", "GET", "GET", "GET", "HEAD", "POST", "PUT"})
	o.keyMat = gen.Pick(r, keys)
	if r.Chance(1, 3) {
		o.cc = gen.Pick(r, ccVocab)
	}
	if c.iv {
		o.inv = r.Chance(1, 5)
	}
	if c.nx {
		o.skip = r.Chance(1, 6)
	}
	exp := c.expiration
	if exp <= 0 {
		exp = 60
	}
	if c.eg {
		o.expGen = gen.Pick(r, []int{0, 1, 1, 2, 2, 3, 5})
		exp = o.expGen
	}
	// time steps aimed at the expiry edge
	switch r.Intn(8) {
	case 0, 1, 2:
		o.dt = 0
	case 3, 4:
		o.dt = 1
	case 5:
		o.dt = exp
	case 6:
		if exp > 0 {
			o.dt = exp - 1
		}
	default:
		o.dt = r.Intn(4)
	}
	if o.dt > 6 {
		o.dt = r.Intn(3)
	}
	if r.Chance(4, 5) {
		o.status = gen.Pick(r, cacheableSt)
	} else {
		o.status = gen.Pick(r, otherSt)
	}
	max := 24
	if c.maxBytes > 0 {
		max = c.maxBytes + 2
		if r.Chance(3, 4) && c.maxBytes >= 4 {
			max = c.maxBytes/2 + 1 // mostly bodies of which two or three fit: eviction pressure
		}
	}
	o.body = genBody(r, idx, r.Intn(max+1))
	o.ctype = gen.Pick(r, ctypes)
	o.cenc = gen.Pick(r, cencs)
	nh := gen.Pick(r, []int{0, 0, 1, 2, 3})
	used := map[string]bool{}
	for i := 0; i < nh; i++ {
		n := gen.Pick(r, hdrVocab)
		if used[n] {
			continue
		}
		used[n] = true
		o.hdrs = append(o.hdrs, [2]string{n, gen.Pick(r, hdrVals)})
	}
	if c.own {
		// every response carries the same custom header names in the same order, each op its own values of equal
		// length: a stored header that is not a copy is overwritten by the next response on the connection
		o.hdrs = nil
		for _, n := range []string{"X-A", "X-B", "Etag"}[:1+r.Intn(3)] {
			o.hdrs = append(o.hdrs, [2]string{n, ownVal(idx)})
		}
	}
	if r.Chance(1, 10) {
		o.hdelay = 1 + r.Intn(2)
	}
	if r.Chance(1, 12) {
		// the origin handler fails: fiber's ErrorHandler answers, the cache must not store anything
		o.err = true
		o.status = gen.Pick(r, []int{400, 404, 404, 410, 418, 500, 501, 503})
		o.ctype, o.cenc, o.hdrs = "", "", nil
		if o.body == "" {
			o.body = genBody(r, idx, 1+r.Intn(6))
		}
		w.Count("handler-error")
	}
	if flt == 2 {
		// only the Get of the entry fails (error / undecodable value): no Set or Delete ever fails in this history,
		// so every clause of the sentence applies in full; aimed at invalidating requests (blank item + invalidation)
		if (o.inv && r.Chance(2, 3)) || r.Chance(1, 4) {
			o.f1 = gen.Pick(r, []string{"e", "g"})
			w.Count("op-faults-get-only")
		}
	}
	if flt == 1 && r.Chance(1, 2) {
		// storage faults: first section = Get(entry), then Delete×2 (expiry / invalidation) or Get(body) (hit);
		// second section = Delete×2 per eviction, then Set(body), Set(entry)
		o.f1 = genFaults(r, 3, true)
		o.f2 = genFaults(r, 2+2*r.Intn(3), false)
		if o.f1 != "" {
			w.Count("op-faults-sec1")
		}
		if o.f2 != "" {
			w.Count("op-faults-sec2")
		}
	}
	return o
}

func genCase(r *gen.Rand, w *gen.Writer, tier string) (cfgIn, []opIn, map[int][]int) {
	var c cfgIn
	c.ext = r.Bool()
	c.sttl = !c.ext || r.Chance(7, 10)
	switch r.Intn(5) {
	case 0:
		c.maxBytes = 0
	case 1:
		c.maxBytes = 1 + r.Intn(6)
	default:
		c.maxBytes = 8 + r.Intn(40)
	}
	c.expiration = gen.Pick(r, []int{1, 1, 2, 2, 3, 4, 0, 0, 60})
	if r.Chance(1, 40) {
		c.expiration = -1
	}
	c.storeHeaders = r.Bool()
	// a fifth of the histories: stored headers with per-request values in fixed header slots (see genOp)
	if r.Chance(1, 5) {
		c.storeHeaders, c.own = true, true
		w.Count("cases-own-header-values")
	}
	c.ccOut = r.Chance(3, 10)
	conc := r.Chance(3, 10)
	c.kg = conc || r.Bool()
	c.sy = conc && r.Chance(2, 3)
	c.eg = r.Chance(3, 10)
	c.iv = r.Chance(1, 2)
	c.nx = r.Chance(1, 4)
	switch r.Intn(6) {
	case 0:
		c.methods = []string{"GET"}
	case 1:
		c.methods = []string{"GET", "POST"}
	case 2:
		c.methods = []string{"HEAD", "POST", "GET"}
	}
	// a third of the histories with an injected storage have a storage that fails now and then
	flt := 0
	if c.ext && r.Chance(1, 3) {
		flt = 1
		if r.Chance(1, 3) {
			flt = 2
			w.Count("cases-with-get-faults-only")
		} else {
			w.Count("cases-with-storage-faults")
		}
	}
	nk := 1 + r.Intn(4)
	pool := []string{"/a", "/b", "/c", "/a_GET", "/d/e", "/a_GET_body"}
	if c.kg {
		pool = append(pool, "k1", "k2", "a_b")
	}
	var keys []string
	for i := 0; i < nk; i++ {
		keys = append(keys, gen.Pick(r, pool))
	}
	n := 4 + r.Intn(11)
	var ops []opIn
	scheds := map[int][]int{}
	grp := 0
	for len(ops) < n {
		if conc && len(ops) >= 1 && r.Chance(1, 3) && grp < 3 {
			grp++
			m := 2 + r.Intn(2)
			// threads mostly on the same key
			k := gen.Pick(r, keys)
			for t := 0; t < m; t++ {
				ks := keys
				if r.Chance(3, 4) {
					ks = []string{k}
				}
				o := genOp(r, c, ks, len(ops), w, flt)
				o.grp, o.hdelay = grp, 0
				if t > 0 {
					o.dt = 0
				}
				if r.Chance(2, 3) {
					o.method = "GET"
				}
				ops = append(ops, o)
			}
			var s []int
			if r.Chance(1, 2) {
				// structured: thread a is parked after k releases (1: KeyGenerator, 2: end of the entry
				// Get, 3: before the body Get of a hit / origin handler), then the others run as far as
				// they get (to completion, or until they block on the mutex a holds), then a goes on
				a := r.Intn(m)
				for k := 1 + r.Intn(3); k > 0; k-- {
					s = append(s, a)
				}
				order := make([]int, m)
				for i := range order {
					order[i] = i
				}
				for i := m - 1; i > 0; i-- {
					j := r.Intn(i + 1)
					order[i], order[j] = order[j], order[i]
				}
				for _, t := range order {
					if t == a {
						continue
					}
					for k := 4; k > 0; k-- {
						s = append(s, t)
					}
				}
				w.Count("sched-structured")
			} else {
				for i := r.Intn(4*m + 1); i > 0; i-- {
					s = append(s, r.Intn(m))
				}
			}
			scheds[grp] = s
			w.Count(fmt.Sprintf("group-size-%d", m))
			continue
		}
		ops = append(ops, genOp(r, c, keys, len(ops), w, flt))
	}
	if conc {
		w.Count("cases-concurrent")
	} else {
		w.Count("cases-sequential")
	}
	if c.ext {
		w.Count("storage-external")
	} else {
		w.Count("storage-memory")
	}
	if c.maxBytes > 0 {
		w.Count("maxbytes-set")
	}
	if c.sy {
		w.Count("storage-yield")
	}
	return c, ops, scheds
}
