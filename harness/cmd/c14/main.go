// Harness for C14: runs the real cache middleware (middleware/cache) in-process on generated request
// histories and small concurrent schedules, under the Go toolchain's virtual clock
// (build tags "verif faketime"), and writes one case line per history.
//
// Case line (tab separated):
//   case id cfg methods ops scheds obs
//     cfg     ext;sttl;maxBytes;expiration;storeHeaders;cacheControl;kg;eg;iv;nx;sy
//             (sy: inside concurrent groups the storage parks the calling request at the end of every Get of
//              an entry key – a schedule point at the storage boundary; injected storage: in its Get,
//              internal/memory: through the verif hook cache.VerifSetMemoryYield)
//     methods hex list (cfg.Methods as configured; "-" = default)
//     ops     op|op|…      op = grp;dt;method;keyMat;cc;inv;skip;expGen;status;body;ctype;cenc;headers;hdelay;err;f1;f2
//                          (err = 1: the origin handler returns fiber.NewError(status, body);
//                           f1 / f2: outcomes of the calls the request makes to the injected storage in its first /
//                           second critical section, in call order: o = ok, e = the call returns an error, g = a Get of
//                           an entry returns the stored value cut short (it does not decode; elsewhere = o); "-" = all ok;
//                           lines with 15 op fields (no f1;f2) are read as fault-free)
//     scheds  "-" or  grp:t.t.t/grp:t.t   (release order of the threads of a concurrent group)
//     obs     o|o|…        o  = x;status;body;ctype;cenc;headers;ran;held;snap   |  panic | deadlock | skipped
//                          (held: sum of the body sizes in the injected storage; snap: its `_body` keys with sizes,
//                           hexkey=size+…, sorted; "-" = none / internal memory)
//
// Under faketime nothing may be written to stdout/stderr and no real sockets are used: requests are
// fed to app.Handler() on in-memory RequestCtx values; time only advances when every goroutine is
// blocked, so `time.Sleep` is the clock control and `time.Sleep(1ns)` is a quiescence barrier.
package main

import (
	"encoding/hex"
	"errors"
	"fmt"
	"io"
	"os"
	"os/exec"
	"runtime"
	"runtime/debug"
	"sort"
	"strconv"
	"strings"
	"sync"
	"time"

	"github.com/gofiber/fiber/v3"
	"github.com/gofiber/fiber/v3/log"
	"github.com/gofiber/fiber/v3/middleware/cache"
	"github.com/gofiber/utils/v2"
	"github.com/valyala/fasthttp"

	"verifharness/internal/gen"
)

type cfgIn struct {
	ext, sttl           bool
	maxBytes            int
	expiration          int // seconds; 0 = default, <0 = middleware disabled
	storeHeaders, ccOut bool
	kg, eg, iv, nx      bool // custom KeyGenerator / ExpirationGenerator / CacheInvalidator / Next configured
	sy                  bool // storage yield: park at the end of Storage.Get(entry key) inside concurrent groups
	own                 bool // generator only (not part of the case line): per-op header values in fixed slots
	methods             []string
}

type opIn struct {
	grp, dt                 int
	method, keyMat, cc      string
	inv, skip               bool
	expGen                  int // -1 = none
	status                  int
	body, ctype, cenc       string
	hdrs                    [][2]string
	hdelay                  int
	err                     bool // the origin handler fails with fiber.NewError(status, body)
	f1, f2                  string // storage fault schedules of the two critical sections ("" = none)
}

// ---------------------------------------------------------------------------------------------
// encoding

func hx(s string) string { return gen.Hex(s) }

func encCfg(c cfgIn) string {
	return strings.Join([]string{gen.B(c.ext), gen.B(c.sttl), gen.I(c.maxBytes), gen.I(c.expiration), gen.B(c.storeHeaders),
		gen.B(c.ccOut), gen.B(c.kg), gen.B(c.eg), gen.B(c.iv), gen.B(c.nx), gen.B(c.sy)}, ";")
}

func encHdrs(h [][2]string) string {
	if len(h) == 0 {
		return "-"
	}
	p := make([]string, len(h))
	for i, kv := range h {
		p[i] = hx(kv[0]) + "=" + hx(kv[1])
	}
	return strings.Join(p, "+")
}

func encOp(o opIn) string {
	eg := "n"
	if o.expGen >= 0 {
		eg = gen.I(o.expGen)
	}
	return strings.Join([]string{gen.I(o.grp), gen.I(o.dt), hx(o.method), hx(o.keyMat), hx(o.cc), gen.B(o.inv), gen.B(o.skip), eg,
		gen.I(o.status), hx(o.body), hx(o.ctype), hx(o.cenc), encHdrs(o.hdrs), gen.I(o.hdelay), gen.B(o.err), encFaults(o.f1), encFaults(o.f2)}, ";")
}

func encFaults(f string) string {
	if f == "" {
		return "-"
	}
	return f
}

func decFaults(f string) string {
	if f == "-" {
		return ""
	}
	if len(f) == 0 || len(f) > 16 || strings.Trim(f, "oeg") != "" {
		bad("faults %q", f)
	}
	return f
}

func encOps(ops []opIn) string {
	p := make([]string, len(ops))
	for i, o := range ops {
		p[i] = encOp(o)
	}
	return strings.Join(p, "|")
}

func encScheds(s map[int][]int) string {
	if len(s) == 0 {
		return "-"
	}
	var ks []int
	for k := range s {
		ks = append(ks, k)
	}
	sort.Ints(ks)
	var p []string
	for _, k := range ks {
		ts := make([]string, len(s[k]))
		for i, t := range s[k] {
			ts[i] = gen.I(t)
		}
		p = append(p, gen.I(k)+":"+strings.Join(ts, "."))
	}
	return strings.Join(p, "/")
}

type perr struct{ s string }

func bad(f string, a ...any) { panic(perr{fmt.Sprintf(f, a...)}) }

func unhex(s string) string {
	if s == "-" {
		return ""
	}
	b, err := hex.DecodeString(s)
	if err != nil {
		bad("hex %q", s)
	}
	return string(b)
}
func atoi(s string) int {
	v, err := strconv.Atoi(s)
	if err != nil {
		bad("int %q", s)
	}
	return v
}
func bit(s string) bool {
	if s != "0" && s != "1" {
		bad("bool %q", s)
	}
	return s == "1"
}

func decCfg(s, methods string) cfgIn {
	f := strings.Split(s, ";")
	if len(f) != 11 {
		bad("cfg fields")
	}
	c := cfgIn{ext: bit(f[0]), sttl: bit(f[1]), maxBytes: atoi(f[2]), expiration: atoi(f[3]), storeHeaders: bit(f[4]),
		ccOut: bit(f[5]), kg: bit(f[6]), eg: bit(f[7]), iv: bit(f[8]), nx: bit(f[9]), sy: bit(f[10])}
	if c.maxBytes < 0 {
		bad("maxBytes")
	}
	if methods != "-" {
		for _, m := range strings.Split(methods, ",") {
			c.methods = append(c.methods, unhex(m))
		}
	}
	return c
}

func decOps(s string) []opIn {
	var ops []opIn
	for _, e := range strings.Split(s, "|") {
		f := strings.Split(e, ";")
		if len(f) != 15 && len(f) != 17 {
			bad("op fields")
		}
		o := opIn{grp: atoi(f[0]), dt: atoi(f[1]), method: unhex(f[2]), keyMat: unhex(f[3]), cc: unhex(f[4]), inv: bit(f[5]),
			skip: bit(f[6]), expGen: -1, status: atoi(f[8]), body: unhex(f[9]), ctype: unhex(f[10]), cenc: unhex(f[11]), hdelay: atoi(f[13]), err: bit(f[14])}
		if f[7] != "n" {
			o.expGen = atoi(f[7])
		}
		if len(f) == 17 {
			o.f1, o.f2 = decFaults(f[15]), decFaults(f[16])
		}
		if f[12] != "-" {
			for _, kv := range strings.Split(f[12], "+") {
				p := strings.Split(kv, "=")
				if len(p) != 2 {
					bad("header pair")
				}
				o.hdrs = append(o.hdrs, [2]string{unhex(p[0]), unhex(p[1])})
			}
		}
		ops = append(ops, o)
	}
	return ops
}

func decScheds(s string) map[int][]int {
	m := map[int][]int{}
	if s == "-" {
		return m
	}
	for _, e := range strings.Split(s, "/") {
		p := strings.Split(e, ":")
		if len(p) != 2 {
			bad("sched")
		}
		var ts []int
		if p[1] != "" {
			for _, t := range strings.Split(p[1], ".") {
				ts = append(ts, atoi(t))
			}
		}
		m[atoi(p[0])] = ts
	}
	return m
}

var okMethods = map[string]bool{"GET": true, "HEAD": true, "POST": true, "PUT": true}
var hdrVocab = []string{"X-A", "X-B", "Etag", "Vary", "Last-Modified", "Cache-Control", "Keep-Alive", "Upgrade", "Te", "Trailers", "Proxy-Authenticate"}

func isHdr(n string) bool {
	for _, h := range hdrVocab {
		if h == n {
			return true
		}
	}
	return false
}

// validate rejects inputs outside the domain the harness drives faithfully (the Lean driver applies
// the same rules and answers `outside-domain`).
func validate(c cfgIn, ops []opIn, scheds map[int][]int) {
	for _, m := range c.methods {
		if !okMethods[m] {
			bad("method")
		}
	}
	if len(ops) == 0 || len(ops) > 40 {
		bad("ops")
	}
	lastGrp := 0
	seen := map[int]bool{}
	for i, o := range ops {
		if !okMethods[o.method] || o.dt < 0 || o.dt > 100 || o.hdelay < 0 || o.hdelay > 10 || o.status < 100 || o.status > 599 {
			bad("op %d", i)
		}
		if o.keyMat == "" || strings.ContainsAny(o.keyMat, "?# \r\n") || (!c.kg && o.keyMat[0] != '/') {
			bad("keyMat")
		}
		if strings.ContainsAny(o.cc+o.ctype+o.cenc, "\r\n") || o.ctype != strings.TrimSpace(o.ctype) {
			bad("header value")
		}
		if c.eg != (o.expGen >= 0) || (!c.iv && o.inv) || (!c.nx && o.skip) {
			bad("callback flags")
		}
		if o.err && (o.ctype != "" || o.cenc != "" || len(o.hdrs) != 0 || o.body == "" || o.status < 400) {
			bad("error op")
		}
		if !c.ext && (o.f1 != "" || o.f2 != "") {
			bad("faults need an injected storage")
		}
		names := map[string]bool{}
		for _, kv := range o.hdrs {
			if !isHdr(kv[0]) || names[kv[0]] || strings.ContainsAny(kv[1], "\r\n") || kv[1] == "" || kv[1] != strings.TrimSpace(kv[1]) {
				bad("header")
			}
			names[kv[0]] = true
		}
		if o.grp < 0 {
			bad("grp")
		}
		if o.grp != 0 {
			if !c.kg || o.hdelay != 0 {
				bad("concurrent op needs kg and hdelay 0")
			}
			if o.grp != lastGrp {
				if seen[o.grp] {
					bad("group not contiguous")
				}
				seen[o.grp] = true
			} else if o.dt != 0 {
				bad("dt inside group")
			}
		}
		lastGrp = o.grp
	}
	for g, s := range scheds {
		if !seen[g] || len(s) > 64 {
			bad("sched group")
		}
		n := 0
		for _, o := range ops {
			if o.grp == g {
				n++
			}
		}
		for _, t := range s {
			if t < 0 || t >= n {
				bad("sched tid")
			}
		}
	}
	for g := range seen {
		n := 0
		for _, o := range ops {
			if o.grp == g {
				n++
			}
		}
		if n > 4 {
			bad("group size")
		}
	}
}

// ---------------------------------------------------------------------------------------------
// injected fiber.Storage: a map with whole-second TTL on the virtual clock

type sEntry struct {
	val   []byte
	expAt int64
}
type memStore struct {
	mu   sync.Mutex
	m    map[string]sEntry
	sttl bool
	w    *world // for the storage yield point
}

var errInjected = errors.New("injected storage fault")

// fault: the outcome scheduled for the storage call the current request makes now ('o' when the schedule of
// its section is used up, or the caller is not a request of the history)
func (s *memStore) fault() byte {
	if s.w == nil {
		return 'o'
	}
	id, ok := s.w.curOp()
	if !ok {
		return 'o'
	}
	return s.w.nextFault(id)
}

func (s *memStore) Get(k string) ([]byte, error) {
	isBody := strings.HasSuffix(k, "_body")
	f := s.fault()
	// schedule point BEFORE the body of a hit is read: whatever happens to the key between the entry
	// lookup and this Get (eviction, expiry, invalidation, a newer response) shows in the reply
	if s.w != nil && s.w.cfg.sy && isBody {
		if id, ok := s.w.curGroupOp(); ok {
			s.w.yield(id, "B")
		}
	}
	v := s.get(k)
	// schedule point at the storage boundary: the entry has been read, the caller has not seen it yet
	if s.w != nil && s.w.cfg.sy && !isBody {
		if id, ok := s.w.curGroupOp(); ok {
			s.w.yield(id, "G")
		}
	}
	switch {
	case f == 'e':
		return nil, errInjected
	case f == 'g' && !isBody && len(v) > 0:
		// the stored value cut short: a strict prefix of a msgp map never decodes
		return v[:len(v)-1-(len(v)-1)%3], nil
	}
	return v, nil
}

func (s *memStore) get(k string) []byte {
	s.mu.Lock()
	defer s.mu.Unlock()
	e, ok := s.m[k]
	if !ok || (e.expAt != 0 && time.Now().Unix() >= e.expAt) {
		return nil
	}
	return append([]byte(nil), e.val...)
}
func (s *memStore) Set(k string, v []byte, ttl time.Duration) error {
	if s.fault() == 'e' {
		return errInjected
	}
	s.mu.Lock()
	defer s.mu.Unlock()
	var expAt int64
	if s.sttl && ttl > 0 {
		expAt = time.Now().Unix() + int64(ttl.Seconds())
	}
	s.m[k] = sEntry{append([]byte(nil), v...), expAt}
	return nil
}
func (s *memStore) Delete(k string) error {
	if s.fault() == 'e' {
		return errInjected
	}
	s.mu.Lock()
	defer s.mu.Unlock()
	delete(s.m, k)
	return nil
}
func (s *memStore) Reset() error { s.mu.Lock(); s.m = map[string]sEntry{}; s.mu.Unlock(); return nil }
func (s *memStore) Close() error { return nil }

// held: sum of the sizes of the response bodies the storage holds right now
func (s *memStore) held() int {
	s.mu.Lock()
	defer s.mu.Unlock()
	now, n := time.Now().Unix(), 0
	for k, e := range s.m {
		if strings.HasSuffix(k, "_body") && !(e.expAt != 0 && now >= e.expAt) {
			n += len(e.val)
		}
	}
	return n
}

// snap: the `_body` keys the storage holds right now (without the suffix) with the sizes of their values
func (s *memStore) snap() string {
	s.mu.Lock()
	defer s.mu.Unlock()
	now := time.Now().Unix()
	var ks []string
	for k, e := range s.m {
		if strings.HasSuffix(k, "_body") && !(e.expAt != 0 && now >= e.expAt) {
			ks = append(ks, strings.TrimSuffix(k, "_body"))
		}
	}
	if len(ks) == 0 {
		return "-"
	}
	sort.Strings(ks)
	p := make([]string, len(ks))
	for i, k := range ks {
		p[i] = hx(k) + "=" + gen.I(len(s.m[k+"_body"].val))
	}
	return strings.Join(p, "+")
}

// ---------------------------------------------------------------------------------------------
// running a history

type world struct {
	cfg   cfgIn
	ops   []opIn
	h     fasthttp.RequestHandler
	st    *memStore
	mu    sync.Mutex
	ran   []bool
	gate  []chan struct{} // non-nil while the op is part of a running concurrent group
	park  []string        // where the thread is parked ("" = not parked)
	goid  map[uint64]int  // goroutine → op it is serving
	n1    []int           // storage calls the op has made in its first / second critical section
	n2    []int
	free  []*fasthttp.RequestCtx // connection contexts between requests (last in, first out), see acquireCtx
	bufs  map[*fasthttp.RequestCtx][]byte // per connection: the buffer its origin handler builds response bodies in
}

// acquireCtx / releaseCtx: the requests of a history are served on RE-USED fasthttp.RequestCtx values, the way
// a keep-alive connection (or fasthttp's ctx pool) serves one request after the other: Request and Response are
// reset, their header and body buffers keep their memory and are overwritten by the next request. Whatever
// the middleware keeps of a response without copying it is therefore overwritten by the next response served
// on that context. Sequential requests all use one context; the threads of a concurrent group take what is
// free (most recently released first).
func (w *world) acquireCtx() *fasthttp.RequestCtx {
	w.mu.Lock()
	defer w.mu.Unlock()
	if n := len(w.free); n > 0 {
		c := w.free[n-1]
		w.free = w.free[:n-1]
		return c
	}
	return &fasthttp.RequestCtx{}
}

func (w *world) releaseCtx(c *fasthttp.RequestCtx) {
	c.Request.Reset()
	c.Response.Reset()
	c.ResetUserValues()
	w.mu.Lock()
	w.free = append(w.free, c)
	w.mu.Unlock()
}

// curGoid parses the current goroutine's id out of its stack header ("goroutine 123 [running]:").
func curGoid() uint64 {
	var buf [64]byte
	n := runtime.Stack(buf[:], false)
	f := strings.Fields(string(buf[:n]))
	if len(f) < 2 {
		return 0
	}
	id, _ := strconv.ParseUint(f[1], 10, 64)
	return id
}

// curOp: the op served by the calling goroutine
func (w *world) curOp() (int, bool) {
	g := curGoid()
	w.mu.Lock()
	defer w.mu.Unlock()
	id, ok := w.goid[g]
	return id, ok
}

// curGroupOp: the op served by the calling goroutine, when it belongs to a running concurrent group
func (w *world) curGroupOp() (int, bool) {
	g := curGoid()
	w.mu.Lock()
	defer w.mu.Unlock()
	id, ok := w.goid[g]
	return id, ok && w.gate[id] != nil
}

// nextFault: the scheduled outcome of the next storage call of op id (first section until its origin handler
// has been invoked, second section afterwards)
func (w *world) nextFault(id int) byte {
	w.mu.Lock()
	defer w.mu.Unlock()
	sched, n := w.ops[id].f1, &w.n1[id]
	if w.ran[id] {
		sched, n = w.ops[id].f2, &w.n2[id]
	}
	i := *n
	*n = i + 1
	if i < len(sched) {
		return sched[i]
	}
	return 'o'
}

func (w *world) yield(id int, where string) {
	w.mu.Lock()
	g := w.gate[id]
	if g != nil {
		w.park[id] = where
	}
	w.mu.Unlock()
	if g != nil {
		<-g
	}
}

func opID(c fiber.Ctx) int {
	id, err := strconv.Atoi(c.Get("X-Op"))
	if err != nil {
		return 0
	}
	return id
}

func build(c cfgIn, ops []opIn) *world {
	w := &world{cfg: c, ops: ops, ran: make([]bool, len(ops)), gate: make([]chan struct{}, len(ops)), park: make([]string, len(ops)),
		goid: map[uint64]int{}, n1: make([]int, len(ops)), n2: make([]int, len(ops)), bufs: map[*fasthttp.RequestCtx][]byte{}}
	conf := cache.Config{MaxBytes: uint(c.maxBytes), Expiration: time.Duration(c.expiration) * time.Second,
		StoreResponseHeaders: c.storeHeaders, CacheControl: c.ccOut, Methods: c.methods}
	if c.ext {
		w.st = &memStore{m: map[string]sEntry{}, sttl: c.sttl, w: w}
		conf.Storage = w.st
	}
	// default path: the same schedule point at the end of internal/memory's Get (verif hook in /repo)
	cache.VerifSetMemoryYield(nil)
	if !c.ext && c.sy {
		cache.VerifSetMemoryYield(func(string) {
			if id, ok := w.curGroupOp(); ok {
				w.yield(id, "G")
			}
		})
	}
	if c.kg {
		conf.KeyGenerator = func(x fiber.Ctx) string {
			id := opID(x)
			w.yield(id, "K")
			return ops[id].keyMat
		}
	}
	if c.eg {
		conf.ExpirationGenerator = func(x fiber.Ctx, _ *cache.Config) time.Duration {
			return time.Duration(ops[opID(x)].expGen) * time.Second
		}
	}
	if c.iv {
		conf.CacheInvalidator = func(x fiber.Ctx) bool { return ops[opID(x)].inv }
	}
	if c.nx {
		conf.Next = func(x fiber.Ctx) bool { return ops[opID(x)].skip }
	}
	app := fiber.New()
	app.Use(cache.New(conf))
	app.Use(func(x fiber.Ctx) error {
		id := opID(x)
		o := ops[id]
		w.yield(id, "H")
		w.mu.Lock()
		w.ran[id] = true
		w.mu.Unlock()
		if o.hdelay > 0 {
			time.Sleep(time.Duration(o.hdelay) * time.Second)
		}
		if o.err {
			return fiber.NewError(o.status, o.body)
		}
		x.Status(o.status)
		if o.ctype != "" {
			x.Set("Content-Type", o.ctype)
		}
		if o.cenc != "" {
			x.Set("Content-Encoding", o.cenc)
		}
		for _, kv := range o.hdrs {
			x.Set(kv[0], kv[1])
		}
		// the origin handler builds its body in a buffer it re-uses for the next response on the same connection
		// (fiber's Send hands the slice to the response without copying it: whoever keeps the response's body
		// beyond the request must copy it)
		rc := x.RequestCtx()
		w.mu.Lock()
		buf := append(w.bufs[rc][:0], o.body...)
		w.bufs[rc] = buf
		w.mu.Unlock()
		return x.Send(buf)
	})
	w.h = app.Handler()
	return w
}

// serve runs one request through the real handler and returns its observation (without `held`).
func (w *world) serve(id int) (obs string) {
	defer func() {
		if r := recover(); r != nil {
			obs = "panic"
		}
	}()
	o := w.ops[id]
	fctx := w.acquireCtx()
	var req fasthttp.Request
	req.Header.SetMethod(o.method)
	if w.cfg.kg {
		req.SetRequestURI("/r")
	} else {
		req.SetRequestURI(o.keyMat)
	}
	req.Header.Set("X-Op", strconv.Itoa(id))
	if o.cc != "" {
		req.Header.Set("Cache-Control", o.cc)
	}
	fctx.Init(&req, nil, nil)
	w.h(fctx)
	defer w.releaseCtx(fctx) // after the observation below has been copied out (not reached on a panic)
	rs := &fctx.Response
	x := "n"
	switch string(rs.Header.Peek("X-Cache")) {
	case "hit":
		x = "h"
	case "miss":
		x = "m"
	case "unreachable":
		x = "u"
	case "":
	default:
		x = "?"
	}
	var hs [][2]string
	for _, n := range hdrVocab {
		if v := rs.Header.Peek(n); v != nil {
			hs = append(hs, [2]string{n, string(v)})
		}
	}
	sort.Slice(hs, func(i, j int) bool { return hs[i][0] < hs[j][0] })
	w.mu.Lock()
	ran := w.ran[id]
	w.mu.Unlock()
	return strings.Join([]string{x, gen.I(rs.StatusCode()), hx(string(rs.Body())), hx(string(rs.Header.ContentType())),
		hx(string(rs.Header.Peek("Content-Encoding"))), encHdrs(hs), gen.B(ran)}, ";")
}

func (w *world) heldField() string {
	if w.st == nil {
		return "-;-"
	}
	return gen.I(w.st.held()) + ";" + w.st.snap()
}

const deadlockAfter = 20 * time.Second // virtual

// runHistory returns the observation field of the whole history.
func runHistory(c cfgIn, ops []opIn, scheds map[int][]int) string {
	w := build(c, ops)
	obs := make([]string, len(ops))
	dead := false
	for i := 0; i < len(ops); {
		if dead {
			obs[i] = "skipped"
			i++
			continue
		}
		o := ops[i]
		if o.dt > 0 {
			time.Sleep(time.Duration(o.dt) * time.Second)
		}
		if o.grp == 0 {
			done := make(chan string, 1)
			go func(id int) {
				gid := curGoid()
				w.mu.Lock()
				w.goid[gid] = id
				w.mu.Unlock()
				r := w.serve(id)
				w.mu.Lock()
				delete(w.goid, gid)
				w.mu.Unlock()
				done <- r
			}(i)
			select {
			case r := <-done:
				if r == "panic" {
					obs[i] = r
				} else {
					obs[i] = r + ";" + w.heldField()
				}
			case <-time.After(deadlockAfter):
				obs[i] = "deadlock"
				dead = true
			}
			i++
			continue
		}
		// a concurrent group: ops i..j-1 are threads 0..n-1
		j := i
		for j < len(ops) && ops[j].grp == o.grp {
			j++
		}
		n := j - i
		res := make([]string, n)
		started := make([]bool, n)
		finished := make([]bool, n)
		var fmu sync.Mutex
		w.mu.Lock()
		for t := 0; t < n; t++ {
			w.gate[i+t] = make(chan struct{})
		}
		w.mu.Unlock()
		quiesce := func() { time.Sleep(time.Nanosecond) }
		release := func(t int) {
			if !started[t] {
				started[t] = true
				go func(t int) {
					gid := curGoid()
					w.mu.Lock()
					w.goid[gid] = i + t
					w.mu.Unlock()
					r := w.serve(i + t)
					w.mu.Lock()
					delete(w.goid, gid)
					w.mu.Unlock()
					fmu.Lock()
					res[t], finished[t] = r, true
					fmu.Unlock()
				}(t)
				quiesce()
				return
			}
			w.mu.Lock()
			parked := w.park[i+t] != ""
			w.park[i+t] = ""
			g := w.gate[i+t]
			w.mu.Unlock()
			if parked {
				g <- struct{}{}
				quiesce()
			}
		}
		for _, t := range scheds[o.grp] {
			release(t)
		}
		// drain: the lowest thread that can be released (not started, or parked at a yield point; a
		// thread blocked on the middleware's mutex continues by itself once the holder leaves); bounded
		// (a thread needs at most 4 releases: start, K, G, then H or B)
		releasable := func(t int) bool {
			fmu.Lock()
			f := finished[t]
			fmu.Unlock()
			if f {
				return false
			}
			if !started[t] {
				return true
			}
			w.mu.Lock()
			defer w.mu.Unlock()
			return w.park[i+t] != ""
		}
		for round := 0; round < 5*n+4; round++ {
			any := false
			for t := 0; t < n; t++ {
				if releasable(t) {
					any = true
					release(t)
					break
				}
			}
			if !any {
				break
			}
		}
		w.mu.Lock()
		for t := 0; t < n; t++ {
			w.gate[i+t] = nil
		}
		w.mu.Unlock()
		held := w.heldField()
		for t := 0; t < n; t++ {
			fmu.Lock()
			f, r := finished[t], res[t]
			fmu.Unlock()
			switch {
			case !f:
				obs[i+t] = "deadlock"
				dead = true
			case r == "panic":
				obs[i+t] = r
			default:
				obs[i+t] = r + ";" + held
			}
		}
		i = j
	}
	return strings.Join(obs, "|")
}

// align sleeps to the next instant at 450 ms past a whole second, so that both coarse clocks
// (the cache's 300 ms ticker, utils' 1 s ticker started at a whole second) read that second.
func align() {
	now := time.Now()
	frac := time.Duration(now.Nanosecond())
	target := 450 * time.Millisecond
	d := target - frac
	if d < 0 {
		d += time.Second
	}
	if d > 0 {
		time.Sleep(d)
	}
}

func emitCase(w *gen.Writer, id string, c cfgIn, ops []opIn, scheds map[int][]int) {
	align()
	obs := runHistory(c, ops, scheds)
	w.Case(id, encCfg(c), gen.HexList(c.methods), encOps(ops), encScheds(scheds), obs)
}

func replayLine(w *gen.Writer, f []string) {
	defer func() {
		if r := recover(); r != nil {
			if _, ok := r.(perr); ok {
				return // mangled line (shrinker candidate): skipped
			}
			panic(r)
		}
	}()
	if len(f) < 5 {
		return
	}
	c := decCfg(f[1], f[2])
	ops := decOps(f[3])
	scheds := decScheds(f[4])
	validate(c, ops, scheds)
	emitCase(w, f[0], c, ops, scheds)
}

const chunkSize = 150

func main() {
	// Go 1.23's runtime can live-lock under faketime while a GC cycle terminates (bgsweep runnable,
	// forEachP never completing); the harness processes are short-lived and small: run without GC.
	debug.SetGCPercent(-1)
	log.SetOutput(io.Discard)
	// utils' timestamp updater must start at a whole virtual second (process start), before any sleep
	utils.StartTimeStampUpdater()
	o := gen.ParseFlags()
	if o.Replay != "" {
		w := gen.NewWriter(o.Out)
		for _, f := range gen.ReplayInputs(o.Replay) {
			replayLine(w, f)
		}
		w.Close()
		return
	}
	lo, hi := 0, o.N
	if r := os.Getenv("C14_RANGE"); r != "" {
		fmt.Sscanf(r, "%d:%d", &lo, &hi)
		w := gen.NewWriter(o.Out)
		root := gen.New(o.Seed)
		for i := lo; i < hi; i++ {
			r := root.Fork(uint64(i))
			c, ops, scheds := genCase(r, w, o.Tier)
			emitCase(w, fmt.Sprintf("s%d.%d", o.Seed, i), c, ops, scheds)
		}
		w.Close()
		return
	}
	// parent: every cache.New leaks a ticker goroutine (and memory.New a GC goroutine), which under the
	// virtual clock are woken at every tick of every later case; bound that by running chunks of cases
	// in child processes, a few at a time, and concatenating their outputs in order.
	runChunks(o)
}

func runChunks(o gen.Opts) {
	type chunk struct {
		lo, hi int
		out    string
	}
	var chunks []chunk
	for lo := 0; lo < o.N; lo += chunkSize {
		hi := lo + chunkSize
		if hi > o.N {
			hi = o.N
		}
		chunks = append(chunks, chunk{lo, hi, fmt.Sprintf("%s.part%d", o.Out, len(chunks))})
	}
	exe, err := os.Executable()
	if err != nil {
		os.Exit(3)
	}
	sem := make(chan struct{}, 8)
	var wg sync.WaitGroup
	fail := make([]error, len(chunks))
	for i, ch := range chunks {
		wg.Add(1)
		sem <- struct{}{}
		go func(i int, ch chunk) {
			defer wg.Done()
			defer func() { <-sem }()
			cmd := exec.Command(exe, "-seed", strconv.FormatUint(o.Seed, 10), "-n", strconv.Itoa(o.N), "-tier", o.Tier, "-out", ch.out)
			cmd.Env = append(os.Environ(), fmt.Sprintf("C14_RANGE=%d:%d", ch.lo, ch.hi))
			fail[i] = cmd.Run()
		}(i, ch)
	}
	wg.Wait()
	out, err := os.Create(o.Out)
	if err != nil {
		os.Exit(3)
	}
	dist := map[string]int{}
	for i, ch := range chunks {
		if fail[i] != nil {
			os.Exit(4)
		}
		data, err := os.ReadFile(ch.out)
		if err != nil {
			os.Exit(4)
		}
		for _, l := range strings.SplitAfter(string(data), "\n") {
			if strings.HasPrefix(l, "dist\t") {
				mergeDist(dist, strings.TrimSpace(strings.TrimPrefix(l, "dist\t")))
			} else {
				out.WriteString(l)
			}
		}
		os.Remove(ch.out)
	}
	out.WriteString("dist\t" + distJSON(dist) + "\n")
	out.Close()
}

func mergeDist(d map[string]int, js string) {
	js = strings.Trim(js, "{}")
	if js == "" {
		return
	}
	for _, kv := range strings.Split(js, ",") {
		p := strings.SplitN(kv, ":", 2)
		if len(p) != 2 {
			continue
		}
		k := strings.Trim(p[0], "\"")
		v, _ := strconv.Atoi(p[1])
		d[k] += v
	}
}

func distJSON(d map[string]int) string {
	var ks []string
	for k := range d {
		ks = append(ks, k)
	}
	sort.Strings(ks)
	p := make([]string, len(ks))
	for i, k := range ks {
		p[i] = fmt.Sprintf("%q:%d", k, d[k])
	}
	return "{" + strings.Join(p, ",") + "}"
}
