#!/bin/sh
# MANIFEST.setup_cmd: build everything from files on disk (offline).
set -e
cd "$(dirname "$0")"
export GOFLAGS=-mod=mod GOPROXY=off GOSUMDB=off GOTOOLCHAIN=local CGO_ENABLED=0
mkdir -p .work .build evidence replays
# Lean: every property module + every driver exe named in props/*.json
targets() { python3 - "$1" <<'PY'
import json,glob,sys
want = sys.argv[1] == 'claimed'
t=[]
for p in sorted(glob.glob('props/C*.json')):
    c=json.load(open(p))
    if bool(c.get('claimed', True)) == want:
        t+=c['lean_modules']+[c['driver']]
print(' '.join(dict.fromkeys(t)))
PY
}
# claimed properties must build; properties still in progress are built best-effort (cache warm-up only)
(cd lean && lake build $(targets claimed))
U=$(targets unclaimed); [ -n "$U" ] && (cd lean && lake build $U) || true
# Go: warm the build cache for every harness
cp /repo/go.sum harness/go.sum 2>/dev/null || true
for p in props/C*.json; do
  h=$(python3 -c "import json,sys; c=json.load(open('$p')); print(c['harness'], c.get('harness_tags','verif'))")
  set -- $h
  (cd harness && go build -tags "$2" -o ../.build/$1 ./cmd/$1) || { python3 -c "import json,sys; sys.exit(1 if json.load(open('$p')).get('claimed',True) else 0)" || exit 1; }
done
for d in translator/c*/; do [ -d "$d" ] && (cd translator && go build -o ../.build/translator-$(basename $d) ./$(basename $d)); done
echo setup ok
