#!/bin/sh
# MANIFEST.setup_cmd: build everything from files on disk (offline).
set -e
cd "$(dirname "$0")"
export GOFLAGS=-mod=mod GOPROXY=off GOSUMDB=off GOTOOLCHAIN=local CGO_ENABLED=0
mkdir -p .work .build evidence replays
# Lean: every property module + every driver exe named in props/*.json
TARGETS=$(python3 - <<'PY'
import json,glob
t=[]
for p in sorted(glob.glob('props/C*.json')):
    c=json.load(open(p)); t+=c['lean_modules']+[c['driver']]
print(' '.join(dict.fromkeys(t)))
PY
)
(cd lean && lake build $TARGETS)
# Go: warm the build cache for every harness
cp /repo/go.sum harness/go.sum 2>/dev/null || true
for p in props/C*.json; do
  h=$(python3 -c "import json,sys; c=json.load(open('$p')); print(c['harness'], c.get('harness_tags','verif'))")
  set -- $h
  (cd harness && go build -tags "$2" -o ../.build/$1 ./cmd/$1)
done
for d in translator/c*/; do [ -d "$d" ] && (cd translator && go build -o ../.build/translator-$(basename $d) ./$(basename $d)); done
echo setup ok
